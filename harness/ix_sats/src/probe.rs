//! Probe lines of the `sats` group (C01 sat assignment is the BIP's, C02 every mined sat is in
//! exactly one place): queries against the real `Index` and oracle lines evaluated by the Lean
//! driver (`Driver/IxSats.lean`) on the implementation's own dump rows, after every block.
use {
  bitcoin::{OutPoint, Txid, hashes::Hash},
  common::{Dist, Rng, Streams},
  ixlib::Ctx,
  ord::Index,
  ordinals::{Height, Sat},
  std::{
    collections::HashSet,
    panic::AssertUnwindSafe,
    str::FromStr,
    sync::atomic::{AtomicBool, Ordering},
  },
};

pub const SUPPLY: u64 = 2099999997690000;

/// while set, the panic hook prints nothing (queries that are expected to panic)
pub static QUIET: AtomicBool = AtomicBool::new(false);

pub fn install_panic_hook() {
  let default = std::panic::take_hook();
  std::panic::set_hook(Box::new(move |info| {
    if !QUIET.load(Ordering::SeqCst) {
      default(info);
    }
  }));
}

fn quietly<T>(f: impl FnOnce() -> T) -> Result<T, String> {
  QUIET.store(true, Ordering::SeqCst);
  let r = common::catch(AssertUnwindSafe(f));
  QUIET.store(false, Ordering::SeqCst);
  r
}

fn field<'a>(row: &'a str, key: &str) -> Option<&'a str> {
  row.split(' ').find_map(|t| t.strip_prefix(key))
}

/// one `utxo <outpoint> value=.. ranges=..` row of the implementation's dump
#[derive(Clone, Debug)]
pub struct URow {
  pub op: OutPoint,
  pub ranges: Vec<(u64, u64)>,
  /// the `ranges=` text (`-` when empty)
  pub text: String,
}

impl URow {
  fn token(&self) -> String {
    format!("{}={}", self.op, self.text)
  }
}

pub fn utxo_rows(rows: &[String]) -> Vec<URow> {
  rows
    .iter()
    .filter(|r| r.starts_with("utxo "))
    .map(|r| {
      let op = OutPoint::from_str(r.split(' ').nth(1).unwrap()).unwrap();
      let text = field(r, "ranges=").expect("utxo row without ranges (sat index off?)").to_string();
      let ranges = if text == "-" {
        Vec::new()
      } else {
        text
          .split(',')
          .map(|x| {
            let (a, b) = x.split_once('-').unwrap();
            (a.parse().unwrap(), b.parse().unwrap())
          })
          .collect()
      };
      URow { op, ranges, text }
    })
    .collect()
}

/// `sat2satpoint <sat> <satpoint>` rows
fn sat_rows(rows: &[String]) -> Vec<(u64, String)> {
  rows
    .iter()
    .filter(|r| r.starts_with("sat2satpoint "))
    .map(|r| {
      let mut it = r.split(' ');
      it.next();
      (it.next().unwrap().parse().unwrap(), it.next().unwrap().to_string())
    })
    .collect()
}

pub fn unbound_outpoint() -> OutPoint {
  OutPoint { txid: Txid::all_zeros(), vout: 0 }
}

fn ranges_text(rs: &[(u64, u64)]) -> String {
  if rs.is_empty() { "-".into() } else { rs.iter().map(|(a, b)| format!("{a}-{b}")).collect::<Vec<_>>().join(",") }
}

fn list_answer(index: &Index, op: OutPoint) -> String {
  match index.list(op).unwrap() {
    None => "none".into(),
    Some(rs) => ranges_text(&rs),
  }
}

fn find_answer(index: &Index, n: u64) -> String {
  match quietly(|| index.find(Sat(n))) {
    Err(_) => "panic".into(),
    Ok(Err(_)) => "err".into(),
    Ok(Ok(None)) => "none".into(),
    Ok(Ok(Some(sp))) => sp.to_string(),
  }
}

/// (answer, number of hits)
fn find_range_answer(index: &Index, a: u64, b: u64) -> (String, usize) {
  match quietly(|| index.find_range(Sat(a), Sat(b))) {
    Err(_) => ("panic".into(), 0),
    Ok(Err(_)) => ("err".into(), 0),
    Ok(Ok(None)) => ("none".into(), 0),
    Ok(Ok(Some(mut v))) => {
      v.sort_by_key(|o| o.start);
      let n = v.len();
      let s = if v.is_empty() {
        "-".to_string()
      } else {
        v.iter().map(|o| format!("{}:{}@{}", o.start, o.size, o.satpoint)).collect::<Vec<_>>().join(",")
      };
      (s, n)
    }
  }
}

fn starting(h: u32) -> u64 {
  Height(h).starting_sat().n()
}

/// what the probe remembers between two blocks of one chain
pub struct SatsProbe {
  /// "C01" | "C02" | "all"
  prop: String,
  case: Option<u64>,
  prev_height: Option<u32>,
  prev_rows: Vec<URow>,
}

impl SatsProbe {
  pub fn new(prop: &str) -> Self {
    assert!(matches!(prop, "C01" | "C02" | "all"), "--prop must be C01, C02 or all");
    SatsProbe { prop: prop.to_string(), case: None, prev_height: None, prev_rows: Vec::new() }
  }

  /// the implementation's utxo rows at the previous probe call of this chain
  pub fn prev_rows(&self) -> &[URow] {
    &self.prev_rows
  }

  /// `destroyed`: the `D` argument of `ix.oracle.partition` (ranges overwritten by duplicate
  /// txids so far; `-` on chains without duplicates)
  pub fn run(&mut self, ctx: &Ctx, rng: &mut Rng, out: &mut Streams, dist: &mut Dist, destroyed: &str) {
    let index: &Index = &ctx.ix.index;
    let tip = ctx.node.height();
    let c01 = self.prop != "C02";
    let c02 = self.prop != "C01";
    if self.case != Some(ctx.case) || self.prev_height.is_some_and(|p| tip < p) {
      self.case = Some(ctx.case);
      self.prev_height = None;
      self.prev_rows.clear();
    }
    let genesis_op = OutPoint { txid: ctx.node.block_at(0).txdata[0].compute_txid(), vout: 0 };

    if !ctx.flags.sats {
      // no sat index: `list` answers None for everything, nothing else is defined
      let mut ops = vec![genesis_op];
      if let Some(u) = ctx.g.utxos.last() {
        ops.push(u.op);
      } else {
        ops.push(OutPoint::null());
      }
      for op in ops {
        out.emit(&format!("ix.list {op}"), &list_answer(index, op));
      }
      dist.hit("sats_off_blocks");
      return;
    }
    dist.hit("sats_on_blocks");

    let urows = utxo_rows(ctx.rows);
    let srows = sat_rows(ctx.rows);
    let block = ctx.node.block_at(tip);
    let block_txids: HashSet<Txid> = block.txdata.iter().map(|t| t.compute_txid()).collect();
    let mined_end = starting(tip + 1);

    // ---- ix.list ----------------------------------------------------------------------------
    {
      let mut ops: Vec<OutPoint> = Vec::new();
      let n = ctx.g.utxos.len();
      if n > 60 {
        for _ in 0..60 {
          ops.push(ctx.g.utxos[rng.below(n as u64) as usize].op);
        }
        ops.extend(ctx.g.utxos[n - 10..].iter().map(|u| u.op));
      } else {
        ops.extend(ctx.g.utxos.iter().map(|u| u.op));
      }
      ops.push(genesis_op);
      ops.push(OutPoint::null());
      ops.push(unbound_outpoint());
      let spent: Vec<OutPoint> = block.txdata.iter().skip(1).flat_map(|t| t.input.iter().map(|i| i.previous_output)).collect();
      if !spent.is_empty() {
        for _ in 0..(2 + rng.below(2)) {
          ops.push(*rng.pick(&spent));
        }
      }
      let mut unknown = [0u8; 32];
      unknown.copy_from_slice(&rng.bytes(32));
      ops.push(OutPoint { txid: Txid::from_byte_array(unknown), vout: rng.below(3) as u32 });
      let mut seen = HashSet::new();
      for op in ops {
        if !seen.insert(op) {
          continue;
        }
        let a = list_answer(index, op);
        dist.hit(if a == "none" { "probe_list_none" } else if a == "-" { "probe_list_empty" } else { "probe_list_some" });
        out.emit(&format!("ix.list {op}"), &a);
      }
    }

    if c02 {
      // ---- ix.find --------------------------------------------------------------------------
      let mut sats: Vec<u64> = Vec::new();
      let mut old_bounds: Vec<u64> = Vec::new();
      for row in &urows {
        let fresh = block_txids.contains(&row.op.txid) || row.op == OutPoint::null();
        for &(a, b) in &row.ranges {
          if fresh {
            if a > 0 {
              sats.push(a - 1);
            }
            sats.extend([a, a + 1, b - 1, b]);
          } else {
            old_bounds.extend([a, b]);
          }
        }
      }
      if sats.len() > 150 {
        // long lost-sats rows: keep a random 150
        let mut kept = Vec::new();
        for _ in 0..150 {
          kept.push(sats[rng.below(sats.len() as u64) as usize]);
        }
        sats = kept;
      }
      if !old_bounds.is_empty() {
        for _ in 0..10 {
          let x = *rng.pick(&old_bounds);
          sats.push(match rng.below(3) {
            0 => x.saturating_sub(1),
            1 => x,
            _ => x + 1,
          });
        }
      }
      for h in tip.saturating_sub(2)..=tip {
        sats.push(starting(h));
        sats.push(starting(h) + Height(h).subsidy() - 1);
      }
      sats.extend([mined_end, starting(tip + 2), starting(tip + 2) - 1]);
      for _ in 0..4 {
        sats.push(rng.below(mined_end));
      }
      sats.extend([0, SUPPLY - 1, SUPPLY, SUPPLY + 1, u64::MAX]);
      let mut seen = HashSet::new();
      for n in sats {
        if !seen.insert(n) {
          continue;
        }
        let a = find_answer(index, n);
        dist.hit(match a.as_str() {
          "none" if n < mined_end => "probe_find_none_mined",
          "none" => "probe_find_none",
          "panic" => "probe_find_panic",
          "err" => "probe_find_err",
          _ => "probe_find_hit",
        });
        out.emit(&format!("ix.find {n}"), &a);
      }

      // ---- ix.find_range --------------------------------------------------------------------
      let mut bounds: Vec<u64> = urows.iter().flat_map(|r| r.ranges.iter().flat_map(|&(a, b)| [a, b])).collect();
      bounds.sort();
      bounds.dedup();
      let small = |rng: &mut Rng| -> u64 {
        match rng.below(6) {
          0 => 0,
          1 => 1,
          2 => 2,
          3 => rng.below(1000),
          4 => rng.below(1_000_000),
          _ => rng.below(5_000_000_000),
        }
      };
      let mut queries: Vec<(u64, u64)> = Vec::new();
      if !bounds.is_empty() {
        for _ in 0..5 {
          // straddle 1–3 (or more) boundaries of existing ranges
          let i = rng.below(bounds.len() as u64) as usize;
          let x = bounds[i];
          let a = x.saturating_sub(small(rng));
          let j = match rng.below(4) {
            0 => i,
            1 => i + 1,
            2 => i + 2,
            _ => i + 1 + rng.below(6) as usize,
          }
          .min(bounds.len() - 1);
          let mut b = bounds[j] + small(rng);
          if b > mined_end && !rng.chance(1, 8) {
            b = mined_end;
          }
          queries.push((a, b.max(1)));
        }
        // a == b at a boundary
        let x = *rng.pick(&bounds);
        queries.push((x, x));
      }
      // a whole subsidy
      let h = rng.below(u64::from(tip) + 1) as u32;
      queries.push((starting(h), starting(h) + Height(h).subsidy()));
      // a == b strictly inside a range
      let wide: Vec<(u64, u64)> = urows.iter().flat_map(|r| r.ranges.iter().copied()).filter(|(a, b)| b - a >= 2).collect();
      if !wide.is_empty() {
        let (a, b) = *rng.pick(&wide);
        let x = a + 1 + rng.below(b - a - 1);
        queries.push((x, x));
      }
      // a > b: an error, but only when the range end is mined (the height check comes first)
      let b = 1 + rng.below(mined_end);
      queries.push((b + 1 + small(rng), b));
      if rng.chance(1, 3) {
        queries.push((starting(tip + 2) + 1, starting(tip + 2)));
      }
      // everything mined up to the last sat of the tip
      queries.push((mined_end - 1 - rng.below(2 * Height(tip).subsidy()).min(mined_end - 1), mined_end));
      // two of the edges: underflow of `range_end - 1`, not yet mined, the supply, past the supply
      for _ in 0..2 {
        let a = rng.below(mined_end);
        queries.push(match rng.below(5) {
          0 => (small(rng), 0),
          1 => (a, starting(tip + 2)),
          2 => (a, mined_end + 1),
          3 => (a, SUPPLY),
          _ => (a, SUPPLY + 1),
        });
      }
      for (a, b) in queries {
        let (ans, hits) = find_range_answer(index, a, b);
        dist.hit(match ans.as_str() {
          "none" => "probe_range_none",
          "err" => "probe_range_err",
          "panic" => "probe_range_panic",
          "-" => "probe_range_empty",
          _ if hits >= 2 => "probe_range_multi",
          _ => "probe_range_single",
        });
        if a == b {
          dist.hit("probe_range_zero_width");
        }
        out.emit(&format!("ix.find_range {a} {b}"), &ans);
      }

      // ---- rare sats -------------------------------------------------------------------------
      {
        let mut v = index.rare_sat_satpoints().unwrap();
        v.sort_by_key(|(s, _)| s.n());
        let a = if v.is_empty() { "-".to_string() } else { v.iter().map(|(s, sp)| format!("{}@{sp}", s.n())).collect::<Vec<_>>().join(",") };
        dist.add("probe_rare_rows", v.len() as u64);
        out.emit("ix.rare", &a);
        let mut one: Vec<u64> = Vec::new();
        if !srows.is_empty() {
          for _ in 0..3 {
            one.push(rng.pick(&srows).0);
          }
          one.push(rng.pick(&srows).0 + 1);
        }
        one.push(rng.below(mined_end) | 1);
        let mut seen = HashSet::new();
        for n in one {
          if !seen.insert(n) {
            continue;
          }
          let a = match index.rare_sat_satpoint(Sat(n)).unwrap() {
            None => "none".to_string(),
            Some(sp) => sp.to_string(),
          };
          dist.hit(if a == "none" { "probe_rare_one_none" } else { "probe_rare_one_hit" });
          out.emit(&format!("ix.rare_one {n}"), &a);
        }
      }
    }

    // ---- oracle lines (the implementation's rows; the driver evaluates the predicate) --------
    let row_tokens = |rows: &[URow]| rows.iter().map(|r| r.token()).collect::<Vec<_>>().join(" ");
    if c01 {
      let first = self.prev_height.map(|p| p + 1).unwrap_or(0);
      let mut s = String::from("ix.oracle.fifo");
      for h in first..=tip {
        let blk = ctx.node.block_at(h);
        s.push_str(&format!(" B {h} {}", blk.txdata.len()));
        for (i, tx) in blk.txdata.iter().enumerate() {
          if i == 0 {
            s.push_str(&format!(" {} 0", tx.compute_txid()));
          } else {
            s.push_str(&format!(" {} {}", tx.compute_txid(), tx.input.len()));
            for input in &tx.input {
              s.push_str(&format!(" {}", input.previous_output));
            }
          }
          s.push_str(&format!(" {}", tx.output.len()));
          for o in &tx.output {
            s.push_str(&format!(" {}", o.value.to_sat()));
          }
        }
        dist.hit("oracle_fifo_blocks");
        dist.add("oracle_fifo_txs", blk.txdata.len() as u64);
      }
      s.push_str(" P");
      if !self.prev_rows.is_empty() {
        s.push(' ');
        s.push_str(&row_tokens(&self.prev_rows));
      }
      s.push_str(" N");
      if !urows.is_empty() {
        s.push(' ');
        s.push_str(&row_tokens(&urows));
      }
      out.emit(&s, "true");
      dist.hit("oracle_fifo");
    }
    if c02 {
      let lost: u64 = ctx
        .rows
        .iter()
        .find_map(|r| r.strip_prefix("statistic LostSats "))
        .map(|v| v.trim().parse().unwrap())
        .unwrap_or(0);
      let mut s = format!("ix.oracle.partition {} D {destroyed} R", tip + 1);
      for r in &urows {
        let value = if r.op == OutPoint::null() {
          dist.hit("oracle_partition_lost_row");
          lost
        } else if r.op == unbound_outpoint() {
          dist.hit("oracle_partition_unbound_row");
          0
        } else {
          let (tx, _) = ctx.g.txs.get(&r.op.txid).unwrap_or_else(|| panic!("utxo row {} of an unknown transaction", r.op));
          tx.output[r.op.vout as usize].value.to_sat()
        };
        s.push_str(&format!(" {} {value} {}", r.op, r.text));
      }
      out.emit(&s, "true");
      dist.hit("oracle_partition");
      dist.add("oracle_partition_rows", urows.len() as u64);
      if destroyed != "-" {
        dist.hit("oracle_partition_with_destroyed");
      }

      let mut args = String::from("R");
      for r in &urows {
        args.push(' ');
        args.push_str(&r.token());
      }
      args.push_str(" S");
      for (sat, sp) in &srows {
        args.push_str(&format!(" {sat}={sp}"));
      }
      out.emit(&format!("ix.oracle.rare_complete {args}"), "true");
      out.emit(&format!("ix.oracle.rare_sound {args}"), "true");
      dist.hit("oracle_rare");
      dist.add("oracle_rare_rows", srows.len() as u64);
    }

    self.prev_height = Some(tip);
    self.prev_rows = urows;
  }
}
