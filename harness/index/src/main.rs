//! Base index correspondence engine: the `chain` stream with no property-specific probe.
fn main() {
  let args = common::Args::parse();
  ixlib::run(&args, &mut |_ctx, _rng, _out, _dist| {});
}
