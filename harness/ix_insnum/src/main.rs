//! Index property group "insnum": C05 (numbers / sequence numbers / ids dense, unique, consistent;
//! jubilee), C06 (reinscriptions flagged; clean first inscriptions blessed), C07 (parent/child
//! provenance).  `--prop C05|C06|C07` selects which property's query and oracle lines are
//! emitted (default: all); the base model-vs-implementation dump comparison is always on.
//!
//! For C06 every run starts with a fixed scenario on the real indexer (the §7.1 witness: a prior
//! inscription that reaches the reveal transaction through a LATER input is not flagged as a
//! reinscription), emitted through the full block protocol so the model follows it too.
use {
  bitcoin::{
    Amount, Block, OutPoint, ScriptBuf, Sequence, Transaction, TxIn, TxOut, Txid, Witness,
    absolute::LockTime,
    hashes::Hash,
    opcodes,
    script::{self, PushBytesBuf},
    transaction::Version,
  },
  common::*,
  ixlib::{
    Ctx,
    chaingen::{Gen, p2tr},
    emit,
    env::{self, Flags, Node, UpdateOutcome, make_header},
  },
  ord::{InscriptionId, ParsedEnvelope},
  ordinals::{Sat, SatPoint},
  std::{
    collections::{BTreeMap, HashMap, HashSet},
    path::Path,
    str::FromStr,
    time::Duration,
  },
};

const CURSED: u32 = 2;
const REINSCRIPTION: u32 = 128;
const UNBOUND: u32 = 256;
const VINDICATED: u32 = 1024;

#[derive(Clone, Debug)]
struct Ent {
  seq: u32,
  id: InscriptionId,
  charms: u32,
  height: u32,
  parents: Vec<u32>,
}

#[derive(Default)]
struct Parsed {
  entries: Vec<Ent>,
  by_id: HashMap<InscriptionId, u32>,
  sat2seq: Vec<(u64, Vec<u32>)>,
  children: BTreeMap<u32, Vec<u32>>,
  /// bound inscriptions sitting in real outputs
  loc: HashMap<InscriptionId, (OutPoint, u64)>,
}

fn field<'a>(row: &'a str, key: &str) -> Option<&'a str> {
  row.split(' ').find_map(|t| t.strip_prefix(key))
}

fn nat_list(s: &str) -> Vec<u32> {
  if s == "-" { Vec::new() } else { s.split(',').map(|x| x.parse().unwrap()).collect() }
}

fn parse_rows(rows: &[String]) -> Parsed {
  let mut p = Parsed::default();
  let mut sps: Vec<(u32, SatPoint)> = Vec::new();
  for row in rows {
    let mut it = row.split(' ');
    match it.next().unwrap() {
      "entry" => {
        let seq: u32 = it.next().unwrap().parse().unwrap();
        let e = Ent {
          seq,
          id: InscriptionId::from_str(field(row, "id=").unwrap()).unwrap(),
          charms: field(row, "charms=").unwrap().parse().unwrap(),
          height: field(row, "height=").unwrap().parse().unwrap(),
          parents: nat_list(field(row, "parents=").unwrap()),
        };
        p.by_id.insert(e.id, seq);
        p.entries.push(e);
      }
      "sat2seq" => {
        let sat: u64 = it.next().unwrap().parse().unwrap();
        p.sat2seq.push((sat, nat_list(it.next().unwrap())));
      }
      "children" => {
        let k: u32 = it.next().unwrap().parse().unwrap();
        p.children.insert(k, nat_list(it.next().unwrap()));
      }
      "seq2satpoint" => {
        let seq: u32 = it.next().unwrap().parse().unwrap();
        sps.push((seq, SatPoint::from_str(it.next().unwrap()).unwrap()));
      }
      _ => {}
    }
  }
  p.entries.sort_by_key(|e| e.seq);
  for (seq, sp) in sps {
    if sp.outpoint.txid == Txid::all_zeros() {
      continue; // null / unbound outpoint: never an input
    }
    if let Some(e) = p.entries.iter().find(|e| e.seq == seq) {
      p.loc.insert(e.id, (sp.outpoint, sp.offset));
    }
  }
  p
}

/// per new envelope of a transaction: the input it sits in, the input holding the offset it
/// finally lands on (`usize::MAX` = beyond the inputs), its final offset, spent to fees,
/// clean (C06 b premise on the envelope alone)
struct EnvGeo {
  env_input: usize,
  landing_input: usize,
  offset: u64,
  feespent: bool,
  unbound: bool,
  clean_first: bool,
}

struct TxGeo {
  in_base: Vec<u64>,
  in_vals: Vec<u64>,
  total_out: u64,
  envs: Vec<EnvGeo>,
}

fn tx_geometry(tx: &Transaction, g: &Gen) -> TxGeo {
  let in_vals: Vec<u64> = tx
    .input
    .iter()
    .map(|i| {
      g.txs
        .get(&i.previous_output.txid)
        .and_then(|(t, _)| t.output.get(i.previous_output.vout as usize))
        .map(|o| o.value.to_sat())
        .unwrap_or(0)
    })
    .collect();
  let mut in_base = Vec::new();
  let mut acc = 0u64;
  for v in &in_vals {
    in_base.push(acc);
    acc += v;
  }
  let total_out: u64 = tx.output.iter().map(|o| o.value.to_sat()).sum();
  let mut envs = Vec::new();
  for (k, e) in ParsedEnvelope::from_transaction(tx).iter().enumerate() {
    let a = e.input as usize;
    let natural = in_base[a];
    let offset = e.payload.pointer().filter(|&p| p < total_out).unwrap_or(natural);
    let landing_input = (0..in_vals.len()).find(|&b| in_base[b] <= offset && offset < in_base[b] + in_vals[b]).unwrap_or(usize::MAX);
    let p = &e.payload;
    envs.push(EnvGeo {
      env_input: a,
      landing_input,
      offset,
      feespent: offset >= total_out,
      unbound: in_vals[a] == 0 || p.unrecognized_even_field,
      clean_first: k == 0
        && e.input == 0
        && e.offset == 0
        && !p.unrecognized_even_field
        && !p.duplicate_field
        && !p.incomplete_field
        && p.pointer.is_none()
        && !e.pushnum
        && !e.stutter,
    });
  }
  TxGeo { in_base, in_vals, total_out, envs }
}

fn output_at(tx: &Transaction, txid: Txid, offset: u64) -> Option<(OutPoint, u64)> {
  let mut start = 0u64;
  for (vout, o) in tx.output.iter().enumerate() {
    let end = start + o.value.to_sat();
    if offset < end {
      return Some((OutPoint { txid, vout: vout as u32 }, offset - start));
    }
    start = end;
  }
  None
}

#[derive(Default)]
struct PState {
  case: Option<u64>,
  last_height: u32,
  /// locations at the end of the previous probe call
  loc: HashMap<InscriptionId, (OutPoint, u64)>,
}

fn ids_str(ids: &[InscriptionId]) -> String {
  if ids.is_empty() { "-".into() } else { ids.iter().map(|i| i.to_string()).collect::<Vec<_>>().join(",") }
}

fn page_str(r: (Vec<InscriptionId>, bool)) -> String {
  format!("{};{}", ids_str(&r.0), r.1)
}

fn entry_str(e: &ord::verif::InscriptionEntry) -> String {
  format!(
    "entry {} id={} number={} charms={} fee={} height={} hidden={} parents={} sat={} seq={} timestamp={}",
    e.sequence_number,
    e.id,
    e.inscription_number,
    e.charms,
    e.fee,
    e.height,
    e.hidden,
    if e.parents.is_empty() { "-".into() } else { e.parents.iter().map(|p| p.to_string()).collect::<Vec<String>>().join(",") },
    e.sat.map(|s| s.n().to_string()).unwrap_or("-".into()),
    e.sequence_number,
    e.timestamp
  )
}

fn probe(ps: &mut PState, prop: &str, ctx: &Ctx, rng: &mut Rng, out: &mut Streams, dist: &mut Dist) {
  if !ctx.flags.ins {
    return;
  }
  let want = |p: &str| prop == "all" || prop == p;
  let index = &ctx.ix.index;
  let tip = ctx.node.height();
  if ps.case != Some(ctx.case) || tip < ps.last_height {
    *ps = PState { case: Some(ctx.case), last_height: 0, loc: HashMap::new() };
  }
  let parsed = parse_rows(ctx.rows);
  let ins = &ctx.secs["ins"];
  let stats = &ctx.secs["stats"];
  let jubilee = if ctx.chain == "regtest" { 110 } else { 0 };

  // ---- what the transactions of the new blocks did (computed from the chain itself) ----
  let mut floating: HashMap<Txid, Vec<InscriptionId>> = HashMap::new();
  let mut clean_first: Vec<InscriptionId> = Vec::new();
  let mut fee_flag: HashMap<InscriptionId, bool> = HashMap::new();
  let mut loc = std::mem::take(&mut ps.loc);
  for h in (ps.last_height + 1)..=tip {
    let block = ctx.node.block_at(h);
    // inscriptions spent as fee re-enter through the coinbase: its input sats are the subsidy
    // followed by the fees of the block's transactions in order (first in, first out)
    let mut fee_acc = ordinals::Height(h).subsidy();
    let mut to_coinbase: Vec<(InscriptionId, u64)> = Vec::new();
    for tx in block.txdata.iter().skip(1) {
      let txid = tx.compute_txid();
      let geo = tx_geometry(tx, ctx.g);
      let mut fl: Vec<InscriptionId> = Vec::new();
      let mut moved: Vec<(InscriptionId, Option<(OutPoint, u64)>)> = Vec::new();
      let mut prior_at_zero = false;
      for (i, txin) in tx.input.iter().enumerate() {
        for (id, (op, off)) in loc.iter() {
          if *op == txin.previous_output {
            fl.push(*id);
            if i == 0 && *off == 0 {
              prior_at_zero = true;
            }
            let abs = geo.in_base[i] + off;
            let to = output_at(tx, txid, abs);
            if to.is_none() {
              to_coinbase.push((*id, fee_acc + (abs - geo.total_out)));
            }
            moved.push((*id, to));
          }
        }
      }
      for (k, e) in geo.envs.iter().enumerate() {
        let id = InscriptionId { txid, index: k as u32 };
        fl.push(id);
        fee_flag.insert(id, e.feespent);
        if e.clean_first && !prior_at_zero && !e.unbound {
          clean_first.push(id);
        }
        if !e.unbound {
          let to = output_at(tx, txid, e.offset);
          if to.is_none() {
            to_coinbase.push((id, fee_acc + (e.offset - geo.total_out)));
          }
          moved.push((id, to));
        }
        if e.landing_input != usize::MAX && e.landing_input > e.env_input {
          dist.hit("geo_lands_in_later_input");
        }
      }
      let _ = (&geo.in_vals, geo.total_out);
      for (id, to) in moved {
        match to {
          Some(l) => {
            loc.insert(id, l);
          }
          None => {
            loc.remove(&id); // to fees: next seen in the coinbase, which nothing spends in this block
          }
        }
      }
      fl.sort();
      fl.dedup();
      floating.insert(txid, fl);
      fee_acc += geo.in_vals.iter().sum::<u64>().saturating_sub(geo.total_out);
    }
    // place the fee-spent inscriptions in the coinbase (beyond its outputs: lost, never spent again)
    let cb = &block.txdata[0];
    let cbid = cb.compute_txid();
    for (id, off) in to_coinbase {
      if let Some(l) = output_at(cb, cbid, off) {
        loc.insert(id, l);
        dist.hit("fee_spent_tracked_into_coinbase");
      }
    }
  }

  // ---------------------------------------------------------------- C05
  if want("C05") {
    let mut ids: Vec<InscriptionId> = parsed.entries.iter().map(|e| e.id).collect();
    if ids.len() > 24 {
      // all new ones plus a sample of the old ones
      let mut keep: Vec<InscriptionId> = parsed.entries.iter().filter(|e| e.height > ps.last_height).map(|e| e.id).collect();
      for _ in 0..12 {
        keep.push(*rng.pick(&ids));
      }
      keep.sort();
      keep.dedup();
      ids = keep;
    }
    if let Some(e) = parsed.entries.last() {
      ids.push(InscriptionId { txid: e.id.txid, index: e.id.index + 7 });
    }
    ids.push(InscriptionId { txid: Txid::from_byte_array([9; 32]), index: 0 });
    for id in ids {
      let r = index.get_inscription_entry(id).unwrap();
      out.emit(&format!("ix.c05.entry {}:{}", id.txid, id.index), &r.map(|e| entry_str(&e)).unwrap_or("none".into()));
      dist.hit("q_entry");
    }
    let mut hs: Vec<u32> = ((ps.last_height + 1).max(tip.saturating_sub(2))..=tip + 1).collect();
    hs.push(0);
    hs.push(rng.below(u64::from(tip) + 1) as u32);
    for h in hs {
      let r = index.get_inscriptions_in_block(h);
      out.emit(&format!("ix.c05.inblock {h}"), &match r {
        Ok(v) => ids_str(&v),
        Err(_) => "err".into(),
      });
      dist.hit("q_inblock");
    }
    for _ in 0..3 {
      let size = *rng.pick(&[0u32, 1, 2, 3, 5, 100, u32::MAX]);
      let page = *rng.pick(&[0u32, 1, 2, 3, 7, u32::MAX]);
      let r = index.get_inscriptions_paginated(size, page).unwrap();
      out.emit(&format!("ix.c05.page {size} {page}"), &page_str(r));
      dist.hit("q_page");
    }
    out.emit(&format!("ix.oracle.dense # {ins}|{stats}"), "true");
    out.emit(&format!("ix.oracle.inverse # {ins}"), "true");
    out.emit(&format!("ix.oracle.jubilee {jubilee} # {ins}"), "true");
    // ids: entry.id = (reveal txid, k) with k < number of envelopes of that transaction
    let mut txs: BTreeMap<Txid, (usize, u32)> = BTreeMap::new();
    for e in &parsed.entries {
      txs.entry(e.id.txid).or_insert_with(|| match ctx.g.txs.get(&e.id.txid) {
        Some((t, h)) => (ParsedEnvelope::from_transaction(t).len(), *h),
        None => (0, u32::MAX),
      });
    }
    let txlist = if txs.is_empty() { "-".to_string() } else { txs.iter().map(|(t, (m, h))| format!("{t}:{m}:{h}")).collect::<Vec<_>>().join(",") };
    out.emit(&format!("ix.oracle.ids {txlist} # {ins}"), "true");
    // reveals spent to fees are numbered last in their block
    for h in (ps.last_height + 1)..=tip {
      let new: Vec<&Ent> = parsed.entries.iter().filter(|e| e.height == h).collect();
      if new.is_empty() {
        continue;
      }
      let l: Vec<String> = new
        .iter()
        .map(|e| format!("{}:{}", e.seq, match fee_flag.get(&e.id) { Some(true) => 1, Some(false) => 0, None => 2 }))
        .collect();
      if new.iter().any(|e| fee_flag.get(&e.id) == Some(&true)) {
        dist.hit("got_fee_spent_reveal");
      }
      out.emit(&format!("ix.oracle.feelast {h} {}", l.join(",")), "true");
    }
  }

  // ---------------------------------------------------------------- C06
  if want("C06") {
    if ctx.flags.sats {
      let mut sats: Vec<u64> = parsed.sat2seq.iter().map(|(s, _)| *s).collect();
      if sats.len() > 12 {
        let mut keep: Vec<u64> = parsed.sat2seq.iter().filter(|(_, v)| v.len() > 1).map(|(s, _)| *s).collect();
        for _ in 0..8 {
          keep.push(*rng.pick(&sats));
        }
        keep.sort();
        keep.dedup();
        sats = keep;
      }
      sats.push(rng.below(5_000_000_000 * (u64::from(tip) + 1)));
      for s in sats {
        let r = index.get_inscription_ids_by_sat(Sat(s)).unwrap();
        out.emit(&format!("ix.c06.bysat {s}"), &ids_str(&r));
        dist.hit("q_bysat");
      }
      // (a) every inscription on a sat but the first carries the reinscription charm
      for (sat, seqs) in &parsed.sat2seq {
        if seqs.len() < 2 {
          continue;
        }
        let mut class = "ok";
        let mut cells = Vec::new();
        for (n, seq) in seqs.iter().enumerate() {
          let e = parsed.entries.iter().find(|e| e.seq == *seq).unwrap();
          let flagged = e.charms & REINSCRIPTION != 0;
          cells.push(format!("{}:{}", seq, flagged as u8));
          if n > 0 && !flagged {
            // why: the sat this envelope landed on belongs to a later input than the envelope's own
            let later = ctx.g.txs.get(&e.id.txid).map(|(t, _)| {
              let geo = tx_geometry(t, ctx.g);
              geo.envs.get(e.id.index as usize).map(|g| g.landing_input != usize::MAX && g.landing_input > g.env_input).unwrap_or(false)
            });
            class = if later == Some(true) && class != "other" { "prior-in-later-input" } else { "other" };
          }
        }
        dist.hit(&format!("reinscription_class_{class}"));
        out.emit(&format!("ix.oracle.reinscription class={class} sat={sat} {}", cells.join(",")), "true");
      }
    }
    // (b) clean first inscriptions of this block on a sat/position that carried nothing
    let seqs: Vec<String> = clean_first.iter().filter_map(|id| parsed.by_id.get(id)).map(|s| s.to_string()).collect();
    if !seqs.is_empty() {
      dist.add("clean_first", seqs.len() as u64);
    }
    out.emit(&format!("ix.oracle.cleanfirst {} # {ins}", if seqs.is_empty() { "-".to_string() } else { seqs.join(",") }), "true");
  }

  // ---------------------------------------------------------------- C07
  if want("C07") {
    let mut seqs: Vec<u32> = parsed.children.keys().copied().collect();
    for e in parsed.entries.iter().filter(|e| !e.parents.is_empty()) {
      seqs.push(e.seq);
    }
    if !parsed.entries.is_empty() {
      for _ in 0..2 {
        seqs.push(rng.below(parsed.entries.len() as u64 + 1) as u32);
      }
    }
    seqs.sort();
    seqs.dedup();
    if seqs.len() > 16 {
      let all = seqs.clone();
      seqs = (0..16).map(|_| *rng.pick(&all)).collect();
      seqs.sort();
      seqs.dedup();
    }
    for seq in seqs {
      let size = *rng.pick(&[0usize, 1, 2, 3, 100]);
      let page = *rng.pick(&[0usize, 0, 1, 2, 5]);
      let r = index.get_children_by_sequence_number_paginated(seq, size, page).unwrap();
      out.emit(&format!("ix.c07.children {seq} {size} {page}"), &page_str(r));
      dist.hit("q_children");
      if let Some(e) = parsed.entries.iter().find(|e| e.seq == seq) {
        let entry = index.get_inscription_entry(e.id).unwrap().unwrap();
        let r = index.get_parents_by_sequence_number_paginated(entry.parents, size, page).unwrap();
        out.emit(&format!("ix.c07.parents {seq} {size} {page}"), &page_str(r));
        dist.hit("q_parents");
      }
    }
    for _ in 0..2 {
      let size = *rng.pick(&[0usize, 1, 2, 3, 100]);
      let page = *rng.pick(&[0usize, 0, 1, 2, 5]);
      let r = index.get_collections_paginated(size, page).unwrap();
      out.emit(&format!("ix.c07.collections {size} {page}"), &page_str(r));
      dist.hit("q_collections");
    }
    // provenance of the children created in the new blocks
    let mut cells = Vec::new();
    for e in parsed.entries.iter().filter(|e| e.height > ps.last_height && !e.parents.is_empty()) {
      let pids: Vec<InscriptionId> = e.parents.iter().map(|p| parsed.entries.iter().find(|x| x.seq == *p).map(|x| x.id).unwrap_or_default()).collect();
      let fl = floating.get(&e.id.txid).cloned().unwrap_or_default();
      cells.push(format!(
        "c={};ps={};pids={};fl={}",
        e.seq,
        e.parents.iter().map(|p| p.to_string()).collect::<Vec<_>>().join(","),
        ids_str(&pids),
        ids_str(&fl)
      ));
      dist.hit("got_child_checked");
    }
    out.emit(&format!("ix.oracle.parents {tip} {}", if cells.is_empty() { "-".to_string() } else { cells.join(" ") }), "true");
    out.emit(&format!("ix.oracle.children # {ins}"), "true");
    out.emit(&format!("ix.oracle.latestchild # {ins}"), "true");
  }

  ps.last_height = tip;
  ps.loc = parsed.loc;
}

// ------------------------------------------------------------------ the fixed C06 scenario

fn push(b: script::Builder, data: &[u8]) -> script::Builder {
  b.push_slice(PushBytesBuf::try_from(data.to_vec()).unwrap())
}

fn envelope_script(mut b: script::Builder, pointer: Option<u64>, parents: &[InscriptionId]) -> script::Builder {
  b = b.push_opcode(opcodes::OP_FALSE).push_opcode(opcodes::all::OP_IF);
  b = push(b, b"ord");
  b = push(b, &[1]);
  b = push(b, b"text/plain;charset=utf-8");
  if let Some(p) = pointer {
    let mut v = p.to_le_bytes().to_vec();
    while v.last() == Some(&0) {
      v.pop();
    }
    b = push(b, &[2]);
    b = push(b, &v);
  }
  for id in parents {
    let mut v = id.txid.to_byte_array().to_vec();
    let idx = id.index.to_le_bytes();
    let mut n = 4;
    while n > 0 && idx[n - 1] == 0 {
      n -= 1;
    }
    v.extend_from_slice(&idx[..n]);
    b = push(b, &[3]);
    b = push(b, &v);
  }
  b = b.push_opcode(opcodes::OP_FALSE);
  b = push(b, b"witness");
  b.push_opcode(opcodes::all::OP_ENDIF)
}

fn envelope_witness(pointer: Option<u64>) -> Witness {
  let script = envelope_script(script::Builder::new(), pointer, &[]).into_script();
  Witness::from_slice(&[script.into_bytes(), Vec::new()])
}

fn coinbase(height: u32, value: u64) -> Transaction {
  Transaction {
    version: Version(2),
    lock_time: LockTime::ZERO,
    input: vec![TxIn {
      previous_output: OutPoint::null(),
      script_sig: script::Builder::new().push_int(i64::from(height)).into_script(),
      sequence: Sequence::MAX,
      witness: Witness::new(),
    }],
    output: vec![TxOut { value: Amount::from_sat(value), script_pubkey: p2tr(7) }],
  }
}

fn spend(inputs: Vec<(OutPoint, Witness)>, value: u64) -> Transaction {
  Transaction {
    version: Version(2),
    lock_time: LockTime::ZERO,
    input: inputs
      .into_iter()
      .map(|(previous_output, witness)| TxIn { previous_output, script_sig: ScriptBuf::new(), sequence: Sequence::MAX, witness })
      .collect(),
    output: vec![TxOut { value: Amount::from_sat(value), script_pubkey: p2tr(7) }],
  }
}

const COIN: u64 = 5_000_000_000;

fn add_block(node: &Node, g: &mut Gen, txs: Vec<Transaction>) {
  let h = node.height() + 1;
  let mut txdata = vec![coinbase(h, COIN)];
  txdata.extend(txs);
  let block = Block { header: make_header(node.tip(), h, h), txdata };
  g.absorb(&block, h);
  node.push_block(block);
}

fn cb_out(node: &Node, h: u32) -> OutPoint {
  OutPoint { txid: node.block_at(h).txdata[0].compute_txid(), vout: 0 }
}

/// a hand-built chain on the real indexer, described to the model through the full block
/// protocol, followed by one probe call
fn run_scenario(name: &str, out: &mut Streams, dist: &mut Dist, scratch: &Path, prop: &str, build: &mut dyn FnMut(&Node, &mut Gen)) {
  let node = Node::new("regtest", scratch);
  let flags = Flags { sats: true, addr: false, tx: false, ins: true, runes: false };
  let ix = env::open(&node, scratch, flags, &[], false);
  let mut g = Gen::new(Rng::new(0), node.core.state().network);
  g.absorb(&node.block_at(0), 0);
  build(&node, &mut g);
  match env::update(&ix, Duration::from_secs(120)) {
    UpdateOutcome::Ok => {}
    _ => panic!("{name} scenario: index update failed"),
  }
  out.emit("cfg sats=1 addr=0 tx=0 ins=1 runes=0 first_ins=0 jubilee=110 first_rune=0", "ok");
  for h in 0..=node.height() {
    emit::emit_block(out, h, &node.block_at(h), g.network, &g.txs);
    out.emit("endblock", "ok");
  }
  let rows = ix.index.verif_dump().unwrap();
  let secs = env::sections(&rows);
  for n in ["chain", "stats", "utxo", "sat2satpoint", "ins"] {
    out.emit(&format!("dump {n}"), &secs[n]);
  }
  let ctx = Ctx { ix: &ix, node: &node, g: &g, flags, chain: "regtest", case: u64::MAX, rows: &rows, secs: env::sections(&rows), events: "-", first_new_height: 1 };
  let mut ps = PState::default();
  let mut rng = Rng::new(0);
  probe(&mut ps, prop, &ctx, &mut rng, out, dist);
  dist.hit(&format!("scenario_{name}"));
}

/// C06 finding witness.  regtest, sat index on: inscribe on coinbase(2):0 -> t1; then a transaction
/// with inputs [coinbase(1):0 carrying an envelope with pointer 5_000_000_000, t1:0]
fn witness_scenario(out: &mut Streams, dist: &mut Dist, scratch: &Path, prop: &str) {
  run_scenario("witness", out, dist, scratch, prop, &mut |node, g| {
    add_block(node, g, vec![]);
    add_block(node, g, vec![]);
    let t1 = spend(vec![(cb_out(node, 2), envelope_witness(None))], COIN);
    let t1_out = OutPoint { txid: t1.compute_txid(), vout: 0 };
    add_block(node, g, vec![t1]);
    let t2 = spend(vec![(cb_out(node, 1), envelope_witness(Some(COIN))), (t1_out, Witness::new())], 2 * COIN);
    add_block(node, g, vec![t2]);
  });
}

/// C07: randomized parent/child families.  P and Q are inscribed; a child transaction spends P's
/// output (never Q's) next to a cardinal input and names parents drawn from {P (really spent), P
/// again, Q (exists but not spent: a forgery), itself, a later envelope, an earlier envelope, an
/// absent id}; a grandchild transaction then spends the family output.
fn family_scenario(out: &mut Streams, dist: &mut Dist, scratch: &Path, prop: &str, rng: &mut Rng) {
  let mut d = Dist::default();
  run_scenario("family", out, &mut d, scratch, prop, &mut |node, g| {
    for _ in 0..4 {
      add_block(node, g, vec![]);
    }
    let a = spend(vec![(cb_out(node, 1), envelope_witness(None))], COIN);
    let a2 = spend(vec![(cb_out(node, 2), envelope_witness(None))], COIN);
    let p = InscriptionId { txid: a.compute_txid(), index: 0 };
    let q = InscriptionId { txid: a2.compute_txid(), index: 0 };
    let a_out = OutPoint { txid: p.txid, vout: 0 };
    add_block(node, g, vec![a, a2]);
    // child transaction
    let family_first = rng.chance(1, 2);
    let ins = if family_first { vec![a_out, cb_out(node, 3)] } else { vec![cb_out(node, 3), a_out] };
    let mut b = spend(ins.iter().map(|o| (*o, Witness::new())).collect(), 2 * COIN);
    let btxid = b.compute_txid();
    let absent = InscriptionId { txid: Txid::from_byte_array([9; 32]), index: 0 };
    let e_in = rng.below(2) as usize;
    let nenv = 1 + rng.below(3) as u32;
    let mut sb = script::Builder::new();
    for k in 0..nenv {
      let mut parents = Vec::new();
      for _ in 0..rng.below(4) {
        parents.push(match rng.below(8) {
          0 | 1 | 2 => p,
          3 => q,
          4 => InscriptionId { txid: btxid, index: k },
          5 => InscriptionId { txid: btxid, index: k + 1 },
          6 => InscriptionId { txid: btxid, index: 0 },
          _ => absent,
        });
      }
      let ptr = if rng.chance(1, 3) { Some(rng.below(2 * COIN)) } else { None };
      sb = envelope_script(sb, ptr, &parents);
    }
    b.input[e_in].witness = Witness::from_slice(&[sb.into_script().into_bytes(), Vec::new()]);
    assert_eq!(b.compute_txid(), btxid);
    add_block(node, g, vec![b]);
    // grandchild: spends the family output, names P, a child and Q
    let mut c = spend(vec![(OutPoint { txid: btxid, vout: 0 }, Witness::new())], 2 * COIN);
    let parents = [p, InscriptionId { txid: btxid, index: rng.below(u64::from(nenv)) as u32 }, q, p];
    let n = 1 + rng.below(4) as usize;
    c.input[0].witness = Witness::from_slice(&[envelope_script(script::Builder::new(), None, &parents[..n]).into_script().into_bytes(), Vec::new()]);
    add_block(node, g, vec![c]);
  });
  for (k, v) in d.0 {
    dist.add(&k, v);
  }
}

fn concat(a: &Path, b: &Path, to: &Path) {
  let mut data = std::fs::read(a).unwrap();
  data.extend(std::fs::read(b).unwrap());
  std::fs::write(to, data).unwrap();
}

fn main() {
  let args = Args::parse();
  let prop = args.get("prop").unwrap_or("all").to_string();
  let with_witness = prop == "all" || prop == "C06";
  let with_family = prop == "all" || prop == "C07";
  let families: u64 = args.get("families").map(|v| v.parse().unwrap()).unwrap_or(6);
  std::fs::create_dir_all(&args.out).unwrap();
  let scratch = args.out.join("wscratch");
  std::fs::create_dir_all(&scratch).unwrap();
  if args.replay.is_some() {
    // corpus replay: the fixed scenario only (index streams are regenerated, not re-read)
    let mut out = Streams::create(&args.out);
    let mut dist = Dist::default();
    witness_scenario(&mut out, &mut dist, &scratch, &prop);
    let _ = std::fs::remove_dir_all(&scratch);
    dist.write(&args.out);
    out.finish();
    return;
  }
  let wdir = args.out.join("w");
  let mut wdist = Dist::default();
  if with_witness || with_family {
    let mut out = Streams::create(&wdir);
    if with_witness {
      witness_scenario(&mut out, &mut wdist, &scratch, &prop);
    }
    if with_family {
      let mut frng = Rng::new(args.seed ^ 0xfa31);
      for _ in 0..families {
        family_scenario(&mut out, &mut wdist, &scratch, &prop, &mut frng);
      }
    }
    out.finish();
  }
  let _ = std::fs::remove_dir_all(&scratch);
  let mdir = args.out.join("m");
  let margs = Args { stream: args.stream.clone(), seed: args.seed, cases: args.cases, out: mdir.clone(), replay: None, extra: args.extra.clone() };
  let mut ps = PState::default();
  let mut first = true;
  ixlib::run(&margs, &mut |ctx, rng, out, dist| {
    if first {
      first = false;
      for (k, v) in &wdist.0 {
        dist.add(k, *v);
      }
    }
    probe(&mut ps, &prop, ctx, rng, out, dist);
  });
  if with_witness || with_family {
    concat(&wdir.join("ops.txt"), &mdir.join("ops.txt"), &args.out.join("ops.txt"));
    concat(&wdir.join("impl.out"), &mdir.join("impl.out"), &args.out.join("impl.out"));
  } else {
    std::fs::rename(mdir.join("ops.txt"), args.out.join("ops.txt")).unwrap();
    std::fs::rename(mdir.join("impl.out"), args.out.join("impl.out")).unwrap();
  }
  std::fs::rename(mdir.join("dist.json"), args.out.join("dist.json")).unwrap();
  let _ = std::fs::remove_dir_all(&wdir);
  let _ = std::fs::remove_dir_all(&mdir);
  let _ = HashSet::<u8>::new();
}
