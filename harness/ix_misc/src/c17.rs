//! C17 probe: the address index lists exactly the unspent outputs of each script.
//!
//! Lines (only when the address index is on):
//!   ix.addr <script-hex>                     real `Index::get_address_info(Address::from_script)`
//!                                            → outpoints, sorted as text, joined by ','
//!   ix.oracle.addr <addr rows> ## <utxo rows>
//!                                            the implementation's own SCRIPT_PUBKEY_TO_OUTPOINT rows
//!                                            against its own OUTPOINT_TO_UTXO_ENTRY rows → true
//!   ix.oracle.addrchain <utxo rows> ## <created-and-unspent outputs of the chain> ## <node utxo set>
//!                                            every non-special utxo row is an output of the chain
//!                                            that no later transaction spent, with the script and
//!                                            value of the creating transaction; and conversely.
//!                                            The chain's unspent set comes from the generator
//!                                            (OP_RETURN and zero-value outputs included, as ord
//!                                            keeps them) and is cross-checked with the mock node's
//!                                            UTXO set (which excludes OP_RETURN outputs).
use {
  bitcoin::{Address, OutPoint, ScriptBuf},
  common::{Dist, Rng, Streams, hex},
  ixlib::{Ctx, chaingen},
  std::collections::BTreeSet,
};

pub fn probe(ctx: &Ctx, _rng: &mut Rng, out: &mut Streams, dist: &mut Dist) {
  if !ctx.flags.addr {
    return;
  }
  let network = ctx.node.core.state().network;
  // every address-representable script of the generator's pool, plus one never used
  let scripts: Vec<ScriptBuf> = vec![
    chaingen::p2wpkh(1),
    chaingen::p2wpkh(2),
    chaingen::p2wpkh(3),
    chaingen::p2tr(7),
    chaingen::p2tr(8),
    chaingen::p2tr(9),
  ];
  for script in &scripts {
    let address = Address::from_script(script, network).expect("pool script is address-representable");
    let mut ops: Vec<String> = ctx.ix.index.get_address_info(&address).unwrap().iter().map(|o| o.to_string()).collect();
    if ops.len() > 1 {
      dist.hit("c17_address_with_several_outputs");
    }
    if ops.is_empty() {
      dist.hit("c17_address_empty");
    }
    ops.sort();
    out.emit(&format!("ix.addr {}", hex(script.as_bytes())), &if ops.is_empty() { "-".to_string() } else { ops.join(",") });
    dist.hit("c17_address_query");
  }
  out.emit(&format!("ix.oracle.addr {} ## {}", ctx.secs["addr"], ctx.secs["utxo"]), "true");
  dist.hit("c17_oracle_addr");

  // the chain's created-and-unspent outputs: the generator's live set plus the genesis coinbase
  // (ord indexes it like any other output)
  let mut expect: Vec<(OutPoint, u64, ScriptBuf, char)> =
    ctx.g.utxos.iter().map(|u| (u.op, u.value, u.script.clone(), 'c')).collect();
  let genesis = ctx.node.block_at(0);
  for tx in &genesis.txdata {
    let txid = tx.compute_txid();
    for (vout, o) in tx.output.iter().enumerate() {
      // 'g': the genesis coinbase is not in the node's UTXO set (unspendable), ord indexes it
      expect.push((OutPoint { txid, vout: vout as u32 }, o.value.to_sat(), o.script_pubkey.clone(), 'g'));
    }
  }
  expect.sort();
  let mut op_return = 0;
  let mut empty_script = 0;
  let mut zero_value = 0;
  let expect_s: Vec<String> = expect
    .iter()
    .map(|(op, v, s, origin)| {
      if s.is_op_return() {
        op_return += 1;
      }
      if s.is_empty() {
        empty_script += 1;
      }
      if *v == 0 {
        zero_value += 1;
      }
      format!("{op} {v} {} {origin}", hex(s.as_bytes()))
    })
    .collect();
  dist.add("c17_unspent_op_return", op_return);
  dist.add("c17_unspent_empty_script", empty_script);
  dist.add("c17_unspent_zero_value", zero_value);
  dist.add("c17_unspent_outputs", expect.len() as u64);
  let node: BTreeSet<String> = {
    let state = ctx.node.core.state();
    state.utxos.iter().map(|(op, v)| format!("{op} {}", v.to_sat())).collect()
  };
  let join = |v: Vec<String>| if v.is_empty() { "-".to_string() } else { v.join("|") };
  out.emit(
    &format!(
      "ix.oracle.addrchain {} ## {} ## {}",
      ctx.secs["utxo"],
      join(expect_s),
      join(node.into_iter().collect())
    ),
    "true",
  );
  dist.hit("c17_oracle_addrchain");
}
