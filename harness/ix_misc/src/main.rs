//! Engine of the `ixmisc` index work stream: C17 (address index), C37 (event replay), C16
//! (indexing never fails).  The chain stream, the model-vs-implementation dump comparison and
//! the `index.oracle.nofail` line come from `ixlib::run`; each property adds its probe lines.
mod c16;
mod c17;
mod c37;

fn main() {
  let args = common::Args::parse();
  let mut replay = c37::Replay::default();
  ixlib::run(&args, &mut |ctx, rng, out, dist| {
    c17::probe(ctx, rng, out, dist);
    c37::probe(&mut replay, ctx, rng, out, dist);
    c16::probe(ctx, rng, out, dist);
  });
}
