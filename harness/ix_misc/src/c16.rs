//! C16 probe: indexing a valid chain never fails.
//!
//! The failure observation itself is in `ixlib::run`: every `Index::update` runs under a watchdog
//! and `catch_unwind`; a panic / `Err` / hang ends the chain with `endblock panic …|err …|hang`
//! (a model diff) and `index.oracle.nofail <case> <height>` → `true` is emitted per update.
//!
//! What this probe adds ties the generator's notion of "consensus-valid" to the Lean predicate
//! `Ord.Index.Valid.validChain` (lean/OrdModel/Index/Valid.lean), the hypothesis of the C16
//! theorem — so a chain on which the indexer fails *and* these lines answer `true` is a chain
//! that the theorem's hypothesis accepts:
//!
//!   ix.oracle.validblock <case> <height> <ntx> {txid nin {prev-txid vout spent-value} nout {value}}
//!       one per newly indexed block; the driver evaluates `Valid.checkBlock` on the block alone
//!       with the spent values taken from the generator's record of the chain (`ctx.g.txs`)
//!   ix.oracle.validchain <case> <height> ## block … ## tx … ## …
//!       every third height: the whole chain so far in the block protocol's own `block` / `tx`
//!       lines (parsed envelopes, deciphered runestones, node answers); the driver evaluates
//!       `Valid.validChain` itself
//!
//! and counts what the adversarial content of the new blocks was (dist → evidence).
use {
  common::{Dist, Rng, Streams},
  ixlib::{Ctx, emit},
  ord::ParsedEnvelope,
  ordinals::{Artifact, Rune, Runestone},
};

pub fn probe(ctx: &Ctx, _rng: &mut Rng, out: &mut Streams, dist: &mut Dist) {
  let height = ctx.node.height();
  for h in ctx.first_new_height.min(height)..=height {
    let block = ctx.node.block_at(h);
    let mut line = format!("ix.oracle.validblock {} {h} {}", ctx.case, block.txdata.len());
    let block_txids: Vec<_> = block.txdata.iter().map(|t| t.compute_txid()).collect();
    for tx in &block.txdata {
      line.push_str(&format!(" {} {}", tx.compute_txid(), tx.input.len()));
      for input in &tx.input {
        let prev = input.previous_output;
        let value = if prev.is_null() {
          0
        } else {
          // the value of the output being spent, from the generator's record of every
          // transaction of the chain (not from the indexer under test)
          ctx.g.txs.get(&prev.txid).and_then(|(t, _)| t.output.get(prev.vout as usize)).map(|o| o.value.to_sat()).unwrap_or_else(|| {
            dist.hit("c16_spent_output_unknown");
            0
          })
        };
        if block_txids.contains(&prev.txid) {
          dist.hit("c16_input_spends_same_block");
        }
        line.push_str(&format!(" {} {} {value}", prev.txid, prev.vout));
      }
      line.push_str(&format!(" {}", tx.output.len()));
      for o in &tx.output {
        line.push_str(&format!(" {}", o.value.to_sat()));
      }
      // what the adversarial content looked like to the parsers on the indexing path
      dist.hit("c16_tx");
      let envs = ParsedEnvelope::from_transaction(tx);
      dist.add("c16_envelope", envs.len() as u64);
      if envs.iter().any(|e| e.input != 0) {
        dist.hit("c16_tx_envelope_in_later_input");
      }
      if envs.iter().any(|e| e.offset != 0) {
        dist.hit("c16_tx_several_envelopes_in_one_input");
      }
      if tx.input.iter().any(|i| !i.witness.is_empty()) && envs.is_empty() {
        dist.hit("c16_tx_witness_without_envelope");
      }
      match Runestone::decipher(tx) {
        Some(Artifact::Cenotaph(c)) => {
          dist.hit("c16_cenotaph");
          dist.hit(&format!("c16_cenotaph_{:?}", c.flaw.map(|f| format!("{f:?}")).unwrap_or("none".into())).replace('"', ""));
        }
        Some(Artifact::Runestone(r)) => {
          dist.hit("c16_runestone");
          if r.edicts.iter().any(|e| e.output as usize == tx.output.len()) {
            dist.hit("c16_edict_output_eq_len");
          }
          if r.edicts.iter().any(|e| e.amount == u128::MAX) {
            dist.hit("c16_edict_amount_max");
          }
        }
        None => {
          if tx.output.iter().any(|o| o.script_pubkey.is_op_return()) {
            dist.hit("c16_op_return_no_artifact");
          }
        }
      }
    }
    out.emit(&line, "true");
    dist.hit("c16_validblock");
  }
  if height % 3 == 0 {
    let mut line = format!("ix.oracle.validchain {} {height}", ctx.case);
    for h in 0..=height {
      let block = ctx.node.block_at(h);
      let min = Rune::minimum_at_height(ctx.g.network, ordinals::Height(h)).0;
      line.push_str(&format!(" ## block {h} {} {} {min}", block.header.time, block.block_hash()));
      for tx in &block.txdata {
        line.push_str(" ## ");
        line.push_str(&emit::tx_line(tx, &ctx.g.txs));
      }
    }
    out.emit(&line, "true");
    dist.hit("c16_validchain");
  }
}
