//! C16 probe: indexing a valid chain never fails.
use {
  common::{Dist, Rng, Streams},
  ixlib::Ctx,
};

pub fn probe(_ctx: &Ctx, _rng: &mut Rng, _out: &mut Streams, _dist: &mut Dist) {}
