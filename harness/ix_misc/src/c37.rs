//! C37 probe: events replay to the indexed state.
//!
//! After every update (only when inscriptions or runes are indexed):
//!   ix.oracle.replay <cumulative implementation events of this chain, '|'-separated>
//!      ## <chain skeleton: one row per block `<height> <ntx> {<txid> <nin> {<prev-txid>:<vout>} <opreturn flags|->}`>
//!      ## <implementation `ins` rows> ## <implementation `runes` rows> ## <UnboundInscriptions statistic>
//!   → true
//! The Lean driver parses the events, runs `Ord.Index.replay` (the function the C37 theorems
//! are about) on them with the chain skeleton, and compares the result with the projection of
//! the implementation's own dump rows (seq2satpoint, entry charms/id, rune mints/burned,
//! balances, unbound counter).
use {
  common::{Dist, Rng, Streams},
  ixlib::Ctx,
};

/// per-chain state of the probe (cumulative implementation events of the current chain)
#[derive(Default)]
pub struct Replay {
  pub case: Option<u64>,
  pub events: Vec<String>,
  burned_seen: bool,
}

fn field<'a>(ev: &'a str, key: &str) -> Option<&'a str> {
  ev.split(' ').find_map(|t| t.strip_prefix(key))
}

pub fn probe(st: &mut Replay, ctx: &Ctx, _rng: &mut Rng, out: &mut Streams, dist: &mut Dist) {
  if st.case != Some(ctx.case) {
    *st = Replay { case: Some(ctx.case), events: Vec::new(), burned_seen: false };
  }
  if !(ctx.flags.ins || ctx.flags.runes) {
    return;
  }
  // this update's events
  if ctx.events != "-" {
    for ev in ctx.events.split('|') {
      let kind = ev.split(' ').next().unwrap();
      dist.hit(&format!("c37_event_{kind}"));
      match kind {
        "InscriptionCreated" => {
          if field(ev, "loc=") == Some("-") {
            dist.hit("c37_unbound_creation");
          }
          if field(ev, "parents=") != Some("-") {
            dist.hit("c37_creation_with_parents");
          }
        }
        "InscriptionTransferred" => {
          // new=<txid>:<vout>:<offset>: is that output an OP_RETURN?
          let new = field(ev, "new=").unwrap();
          let mut it = new.split(':');
          let (txid, vout) = (it.next().unwrap(), it.next().unwrap().parse::<usize>().unwrap());
          if let Ok(txid) = txid.parse::<bitcoin::Txid>() {
            match ctx.g.txs.get(&txid) {
              Some((tx, _)) => {
                if tx.output.get(vout).map(|o| o.script_pubkey.is_op_return()).unwrap_or(false) {
                  dist.hit("c37_transfer_to_op_return");
                }
              }
              None => dist.hit("c37_transfer_to_special_outpoint"),
            }
          }
        }
        "RuneBurned" => {
          if field(ev, "amount=") == Some("0") {
            dist.hit("c37_burned_zero_amount");
          }
        }
        _ => {}
      }
      st.events.push(ev.to_string());
    }
  }
  if !st.burned_seen && ctx.secs["runes"].split('|').any(|r| r.starts_with("rune ") && !r.contains(" burned=0 ")) {
    st.burned_seen = true;
    dist.hit("c37_chain_with_burned_total");
  }
  // chain skeleton
  let mut blocks = Vec::new();
  for h in 0..=ctx.node.height() {
    let b = ctx.node.block_at(h);
    let mut row = format!("{h} {}", b.txdata.len());
    for tx in &b.txdata {
      row.push_str(&format!(" {} {}", tx.compute_txid(), tx.input.len()));
      for i in &tx.input {
        row.push_str(&format!(" {}:{}", i.previous_output.txid, i.previous_output.vout));
      }
      let flags: String = tx.output.iter().map(|o| if o.script_pubkey.is_op_return() { '1' } else { '0' }).collect();
      row.push_str(&format!(" {}", if flags.is_empty() { "-".to_string() } else { flags }));
    }
    blocks.push(row);
  }
  let unbound = ctx.secs["stats"]
    .split('|')
    .find_map(|r| r.strip_prefix("statistic UnboundInscriptions "))
    .unwrap_or("0")
    .to_string();
  let evs = if st.events.is_empty() { "-".to_string() } else { st.events.join("|") };
  let ins = if ctx.flags.ins { ctx.secs["ins"].clone() } else { "-".to_string() };
  let runes = if ctx.flags.runes { ctx.secs["runes"].clone() } else { "-".to_string() };
  out.emit(&format!("ix.oracle.replay {evs} ## {} ## {ins} ## {runes} ## {unbound}", blocks.join("|")), "true");
  dist.hit("c37_oracle_replay");
  dist.add("c37_events_replayed", st.events.len() as u64);
}
