//! C37 probe: events replay to the indexed state.
use {
  common::{Dist, Rng, Streams},
  ixlib::Ctx,
};

/// per-chain state of the probe (cumulative implementation events of the current chain)
#[derive(Default)]
pub struct Replay {
  pub case: Option<u64>,
  pub events: Vec<String>,
}

pub fn probe(_st: &mut Replay, _ctx: &Ctx, _rng: &mut Rng, _out: &mut Streams, _dist: &mut Dist) {}
