//! Index group `insloc` (C03 inscriptions move with their sat, C04 inscriptions are never
//! duplicated or dropped): probe queries against the real `Index` and oracle lines evaluated by
//! the Lean driver on the implementation's own dump rows, after every indexed block.
use {
  bitcoin::{OutPoint, Txid, hashes::Hash},
  common::{Dist, Rng, Streams},
  ixlib::Ctx,
  ord::{InscriptionId, ParsedEnvelope},
  ordinals::{Charm, Sat, SatPoint},
  std::str::FromStr,
};

struct EntryRow {
  seq: u32,
  id: InscriptionId,
  charms: u16,
  sat: Option<u64>,
}

fn field<'a>(row: &'a str, key: &str) -> Option<&'a str> {
  row.split(' ').find_map(|t| t.strip_prefix(key))
}

fn entries(rows: &[String]) -> Vec<EntryRow> {
  rows
    .iter()
    .filter(|r| r.starts_with("entry "))
    .map(|r| EntryRow {
      seq: r.split(' ').nth(1).unwrap().parse().unwrap(),
      id: InscriptionId::from_str(field(r, "id=").unwrap()).unwrap(),
      charms: field(r, "charms=").unwrap().parse().unwrap(),
      sat: field(r, "sat=").unwrap().parse().ok(),
    })
    .collect()
}

fn opt<T: ToString>(o: Option<T>) -> String {
  o.map(|x| x.to_string()).unwrap_or("-".into())
}

fn unbound_outpoint() -> OutPoint {
  OutPoint { txid: Txid::all_zeros(), vout: 0 }
}

/// per chain: height up to which the envelope well-formedness lines have been emitted
struct Seen {
  case: u64,
  next_height: u32,
}

fn probe(seen: &mut Seen, ctx: &Ctx, _rng: &mut Rng, out: &mut Streams, dist: &mut Dist) {
  if !ctx.flags.ins {
    return;
  }
  let index = &ctx.ix.index;
  let height = ctx.node.height();
  if seen.case != ctx.case {
    seen.case = ctx.case;
    seen.next_height = 0;
  }

  // envelopes the real parser finds in non-coinbase transactions (first inscription height is 0
  // on the generated chains), and their shape: input indices non-decreasing and < #inputs —
  // the well-formedness hypothesis of the C04 counting theorem
  let mut envelope_count = 0usize;
  let mut spent = Vec::new();
  for h in 0..=height {
    let block = ctx.node.block_at(h);
    let mut shape = Vec::new();
    for tx in block.txdata.iter().skip(1) {
      let envs = ParsedEnvelope::from_transaction(tx);
      envelope_count += envs.len();
      shape.push(format!(
        "{}:{}",
        tx.input.len(),
        if envs.is_empty() { "-".to_string() } else { envs.iter().map(|e| e.input.to_string()).collect::<Vec<_>>().join(",") }
      ));
      if h == height {
        spent.extend(tx.input.iter().map(|i| i.previous_output));
      }
    }
    if h >= seen.next_height && !shape.is_empty() {
      out.emit(&format!("ix.oracle.envwf {h} {}", shape.join(" ")), "true");
      dist.hit("oracle_envwf");
    }
    if h >= seen.next_height {
      // C03's last clause on ground truth (the real parser's flags, the generator's values):
      // revealed on a zero-value input, or carrying an unrecognized even field => unbound
      for tx in block.txdata.iter().skip(1) {
        let txid = tx.compute_txid();
        for (k, env) in ParsedEnvelope::from_transaction(tx).iter().enumerate() {
          let even = env.payload.unrecognized_even_field;
          let prev = tx.input[env.input as usize].previous_output;
          let value = ctx.g.txs.get(&prev.txid).and_then(|(t, _)| t.output.get(prev.vout as usize)).map(|o| o.value.to_sat());
          let Some(value) = value else { continue };
          let id = ord::InscriptionId { txid, index: k as u32 };
          let Some(entry) = index.get_inscription_entry(id).unwrap() else { continue };
          let sp = index.get_inscription_satpoint_by_id(id).unwrap();
          out.emit(
            &format!("ix.oracle.unbound {id} {} {} {} {} {}", u8::from(even), u8::from(value == 0), entry.charms, opt(entry.sat.map(|s| s.n())), opt(sp)),
            "true",
          );
          if even {
            dist.hit("oracle_unbound_even_field");
          }
          if value == 0 {
            dist.hit("oracle_unbound_zero_input");
          }
        }
      }
    }
  }
  seen.next_height = height + 1;

  let es = entries(ctx.rows);
  let sats = ctx.flags.sats;

  // per inscription: location, entry, explorer view, sat-index lookup
  for e in &es {
    let sp = index.get_inscription_satpoint_by_id(e.id).unwrap();
    out.emit(&format!("ix.satpoint {}", e.id), &opt(sp));
    let entry = index.get_inscription_entry(e.id).unwrap();
    out.emit(
      &format!("ix.entry {}", e.id),
      &match &entry {
        Some(x) => format!("seq={} charms={} sat={}", x.sequence_number, x.charms, opt(x.sat.map(|s| s.n()))),
        None => "-".into(),
      },
    );
    // explorer view: `Lost` is reported for whatever sits at the null outpoint
    let reported = common::catch(std::panic::AssertUnwindSafe(|| ord::verif::reported_inscription(index, e.id)));
    let (rep_line, rep) = match reported {
      Ok(Ok(Some((charms, satpoint)))) => (format!("charms={charms} satpoint={satpoint}"), Some((charms, satpoint))),
      Ok(Ok(None)) => ("-".to_string(), None),
      Ok(Err(err)) => (format!("err {err}"), None),
      Err(p) => (format!("panic {p}"), None),
    };
    out.emit(&format!("ix.reported {}", e.id), &rep_line);
    if let (Some((charms, satpoint)), Some(sp)) = (rep, sp) {
      // C03 lost / unbound clause on the implementation's own answers
      out.emit(&format!("ix.oracle.lost {} {charms} {satpoint} {sp}", e.id), "true");
      if satpoint.outpoint == OutPoint::null() {
        dist.hit("at_null");
        if !Charm::Lost.is_set(e.charms) {
          dist.hit("at_null_transferred");
        }
      }
      if satpoint.outpoint == unbound_outpoint() {
        dist.hit("at_unbound");
      }
    }
    if sats {
      if let Some(s) = e.sat {
        let found = index.find(Sat(s)).unwrap();
        // model: its own location of the inscription (C03: the two coincide)
        out.emit(&format!("ix.findsat {}", e.id), &opt(found));
        out.emit(&format!("ix.oracle.find {} {s} {} {}", e.seq, opt(found), opt(sp)), "true");
        dist.hit("oracle_find");
      }
    }
    let _: Option<SatPoint> = sp;
  }

  // per output: the inscriptions listed there
  let mut outpoints: Vec<OutPoint> = ctx
    .rows
    .iter()
    .filter(|r| r.starts_with("utxo "))
    .map(|r| OutPoint::from_str(r.split(' ').nth(1).unwrap()).unwrap())
    .collect();
  for special in [OutPoint::null(), unbound_outpoint()] {
    if !outpoints.contains(&special) {
      outpoints.push(special);
    }
  }
  // outputs spent by the block just indexed hold nothing any more
  outpoints.extend(spent.iter().filter(|o| !o.is_null()));
  for o in &outpoints {
    let ids = index.get_inscriptions_for_output(*o).unwrap();
    out.emit(
      &format!("ix.insout {o}"),
      &match ids {
        None => "none".to_string(),
        Some(v) if v.is_empty() => "-".to_string(),
        Some(v) => v.iter().map(|i| i.to_string()).collect::<Vec<_>>().join(","),
      },
    );
  }

  // whole-state oracles on the implementation's dump
  let state = format!("{}|{}", ctx.secs["utxo"], ctx.secs["ins"]);
  out.emit(&format!("ix.oracle.inspartition {} {envelope_count} {state}", sats as u8), "true");
  dist.hit("oracle_inspartition");
  dist.add("inscriptions_audited", es.len() as u64);
  if sats {
    out.emit(&format!("ix.oracle.onsat {state}"), "true");
    dist.hit("oracle_onsat");
  }
  // OP_RETURN outputs that currently hold inscriptions (scripts from the generator's view)
  let mut opret = Vec::new();
  for r in ctx.rows.iter().filter(|r| r.starts_with("utxo ")) {
    if field(r, "ins=").unwrap_or("-") == "-" {
      continue;
    }
    let o = OutPoint::from_str(r.split(' ').nth(1).unwrap()).unwrap();
    if let Some((tx, _)) = ctx.g.txs.get(&o.txid) {
      if tx.output.get(o.vout as usize).map(|x| x.script_pubkey.is_op_return()).unwrap_or(false) {
        opret.push(o.to_string());
        dist.hit("inscribed_op_return_output");
      }
    }
  }
  out.emit(
    &format!("ix.oracle.charms {} {} {state}", sats as u8, if opret.is_empty() { "-".to_string() } else { opret.join(",") }),
    "true",
  );
  for e in &es {
    if Charm::Burned.is_set(e.charms) {
      dist.hit("charm_burned");
    }
    if Charm::Lost.is_set(e.charms) {
      dist.hit("charm_lost");
    }
    if Charm::Unbound.is_set(e.charms) {
      dist.hit("charm_unbound");
    }
  }
}

fn main() {
  let args = common::Args::parse();
  let mut seen = Seen { case: u64::MAX, next_height: 0 };
  ixlib::run(&args, &mut |ctx, rng, out, dist| probe(&mut seen, ctx, rng, out, dist));
}
