//! Correspondence engine for C19 (content served faithfully and sandboxed).
//!
//! Runs the REAL explorer: a mock node, the real `Index` on a generated chain of inscriptions, and the
//! real `ord::subcommand::server::Server::run` (unchanged router, handlers and layers) listening on an
//! ephemeral localhost port; requests are made with a blocking HTTP client.
//!
//! streams
//!   content  per case: a plan of inscriptions (`ins` lines) is turned into reveal transactions, mined and
//!            indexed; the handlers' view of the index is read back through the real `Index` (`view`,
//!            `satview` lines — these carry the data the Lean model works on); for several server
//!            configurations (`cfg` lines) every content-serving route is requested (`req` lines) and each
//!            answer is followed by oracle lines evaluated on that answer.
//!   crawl    every route of the real router (route list re-read from the source text), several fillings of
//!            the path parameters incl. garbage, the fallback and wrong methods: each response must carry a
//!            Content-Security-Policy header.
//!
//! `--replay FILE` re-executes the request lines of FILE (`case`/`ins`/`cfg`/`req`); `view`, `satview` and
//! oracle lines are regenerated, not replayed.
use {
  bitcoin::{Txid, Witness, hashes::Hash, script},
  clap::Parser,
  common::*,
  ixlib::env::{self, Flags, Node},
  ord::{Index, Inscription, InscriptionId, options::Options, settings::Settings, subcommand::server::Server},
  std::{
    collections::{BTreeMap, HashMap},
    io::Read,
    net::SocketAddr,
    path::Path,
    sync::{Arc, mpsc},
    time::Duration,
  },
};

mod crawl;

const COIN: u64 = 100_000_000;
const MISSING_BASE: usize = 1000;

// ------------------------------------------------------------------------------------------ server

pub struct Running {
  pub port: u16,
  handle: axum_server::Handle<SocketAddr>,
  thread: Option<std::thread::JoinHandle<()>>,
}

impl Drop for Running {
  fn drop(&mut self) {
    self.handle.shutdown();
    if let Some(t) = self.thread.take() {
      let _ = t.join();
    }
  }
}

/// `integration_test` = ord's own switch for its integration tests (ORD_INTEGRATION_TEST): the server's tokio
/// runtime gets one worker thread instead of one per core and the index-polling thread wakes every 100 ms
/// instead of sleeping for the polling interval; router, handlers and layers are the same (only `/update`
/// becomes available).
pub fn server_settings(node: &Node, datadir: &Path, flags: Flags, hidden: &[InscriptionId], integration_test: bool) -> Settings {
  let mut args: Vec<String> = vec![
    "ord".into(),
    "--bitcoin-rpc-url".into(),
    node.core.url(),
    "--datadir".into(),
    datadir.display().to_string(),
    "--cookie-file".into(),
    node.cookie.display().to_string(),
    format!("--chain={}", node.chain),
  ];
  args.extend(flags.args().iter().map(|s| s.to_string()));
  let options = Options::try_parse_from(args).unwrap();
  let mut envmap = BTreeMap::new();
  if !hidden.is_empty() {
    envmap.insert(
      "HIDDEN".to_string(),
      hidden.iter().map(|i| i.to_string()).collect::<Vec<_>>().join(" "),
    );
  }
  if integration_test {
    envmap.insert("INTEGRATION_TEST".to_string(), "1".to_string());
  }
  Settings::merge(options, envmap).unwrap()
}

/// the real `Server::run` on 127.0.0.1:<ephemeral>
pub fn start_server(settings: Settings, index: Arc<Index>, origin: Option<&str>, decompress: bool) -> Running {
  let mut args: Vec<String> = ["server", "--address", "127.0.0.1", "--http-port", "0", "--no-sync", "--polling-interval", "3600s"]
    .iter()
    .map(|s| s.to_string())
    .collect();
  if let Some(o) = origin {
    args.push(format!("--csp-origin={o}"));
  }
  if decompress {
    args.push("--decompress".into());
  }
  let server = Server::try_parse_from(args).unwrap();
  let handle = axum_server::Handle::<SocketAddr>::new();
  let h2 = handle.clone();
  let (tx, rx) = mpsc::channel();
  let thread = std::thread::spawn(move || {
    if let Err(e) = server.run(settings, index, h2, Some(tx)) {
      eprintln!("server.run failed: {e}");
    }
  });
  let port = rx.recv_timeout(Duration::from_secs(180)).expect("server did not report its port");
  Running { port, handle, thread: Some(thread) }
}

// ------------------------------------------------------------------------------------------ client

#[derive(Clone, Debug)]
pub struct Seen {
  pub status: u16,
  pub ct: Vec<u8>,
  pub ce: Option<Vec<u8>>,
  pub cc: Option<String>,
  pub csp: Vec<Vec<u8>>,
  pub body: Vec<u8>,
  pub layer: Option<&'static str>,
}

pub fn client() -> reqwest::blocking::Client {
  reqwest::blocking::Client::builder()
    .no_brotli()
    .no_proxy()
    .redirect(reqwest::redirect::Policy::none())
    .timeout(Duration::from_secs(120))
    .build()
    .unwrap()
}

pub fn fetch(
  client: &reqwest::blocking::Client,
  method: reqwest::Method,
  port: u16,
  path: &str,
  ae: Option<&[u8]>,
  body: Option<(&str, Vec<u8>)>,
) -> Result<Seen, String> {
  let mut rb = client.request(method, format!("http://127.0.0.1:{port}{path}"));
  if let Some(ae) = ae {
    rb = rb.header(
      reqwest::header::ACCEPT_ENCODING,
      reqwest::header::HeaderValue::from_bytes(ae).map_err(|e| e.to_string())?,
    );
  }
  if let Some((ct, b)) = body {
    rb = rb.header(reqwest::header::CONTENT_TYPE, ct).body(b);
  }
  let resp = rb.send().map_err(|e| format!("{e:?}"))?;
  let status = resp.status().as_u16();
  let h = resp.headers().clone();
  let mut body = resp.bytes().map_err(|e| format!("{e:?}"))?.to_vec();
  let get = |n: &str| h.get(n).map(|v| v.as_bytes().to_vec());
  let mut ce = get("content-encoding");
  let vary_ae = h
    .get_all("vary")
    .iter()
    .any(|v| String::from_utf8_lossy(v.as_bytes()).to_ascii_lowercase().contains("accept-encoding"));
  // undo the outermost tower-http CompressionLayer (transport): it only ever compresses a response
  // that had no content-encoding, and marks what it did with `vary: accept-encoding`
  let mut layer = None;
  if vary_ae {
    match ce.as_deref() {
      Some(b"gzip") => {
        let mut out = Vec::new();
        flate2::read::GzDecoder::new(body.as_slice()).read_to_end(&mut out).map_err(|e| e.to_string())?;
        body = out;
        ce = None;
        layer = Some("gzip");
      }
      Some(b"br") => {
        let mut out = Vec::new();
        brotli::Decompressor::new(body.as_slice(), 4096).read_to_end(&mut out).map_err(|e| e.to_string())?;
        body = out;
        ce = None;
        layer = Some("br");
      }
      _ => {}
    }
  }
  Ok(Seen {
    status,
    ct: get("content-type").unwrap_or_default(),
    ce,
    cc: get("cache-control").map(|v| String::from_utf8_lossy(&v).to_string()),
    csp: h.get_all("content-security-policy").iter().map(|v| v.as_bytes().to_vec()).collect(),
    body,
    layer,
  })
}

fn opt_hex(v: &Option<Vec<u8>>) -> String {
  match v {
    None => "none".into(),
    Some(b) => hex(b),
  }
}

fn csp_text(csp: &[Vec<u8>]) -> String {
  if csp.is_empty() { "-".into() } else { csp.iter().map(|v| hex(v)).collect::<Vec<_>>().join(",") }
}

const PREVIEW_UNKNOWN: &str = "<!doctype html>\n<html lang=en>\n  <head>\n    <meta charset=utf-8>\n  </head>\n  <body>\n  </body>\n</html>\n";

struct Canon<'a> {
  ids: &'a HashMap<String, usize>,
  id_re: regex::Regex,
}

impl Canon<'_> {
  fn replace_ids(&self, text: &[u8]) -> Vec<u8> {
    let s = String::from_utf8_lossy(text).to_string();
    self
      .id_re
      .replace_all(&s, |c: &regex::Captures| match self.ids.get(&c[0]) {
        Some(n) => format!("#{n}"),
        None => c[0].to_string(),
      })
      .into_owned()
      .into_bytes()
  }

  fn template(&self, body: &[u8]) -> Option<String> {
    let s = std::str::from_utf8(body).ok()?;
    if s == PREVIEW_UNKNOWN {
      return Some("tmpl:unknown".into());
    }
    if !s.starts_with("<!doctype html>\n<html lang=en") || !s.contains("<title>Inscription ") {
      return None;
    }
    let cap = |prefix: &str| {
      s.find(prefix).map(|k| s[k + prefix.len()..].chars().take_while(|c| c.is_ascii_lowercase()).collect::<String>())
    };
    let kind = if s.contains("<audio controls>") {
      "audio".to_string()
    } else if let Some(l) = cap("data-language=") {
      format!("code:{l}")
    } else if s.contains("font-family: 'Inscription'") {
      "font".into()
    } else if let Some(r) = cap("image-rendering: ") {
      format!("image:{r}")
    } else if s.contains("preview-markdown.css") {
      "markdown".into()
    } else if s.contains("<model-viewer") {
      "model".into()
    } else if s.contains("preview-pdf.css") {
      "pdf".into()
    } else if s.contains("preview-text.css") {
      "text".into()
    } else if s.contains("<video") {
      "video".into()
    } else {
      return None;
    };
    let id = self.id_re.find(s).and_then(|m| self.ids.get(m.as_str())).map(|n| format!("#{n}")).unwrap_or("?".into());
    Some(format!("tmpl:{kind}:{id}"))
  }

  /// (canonical body text, is it raw inscription bytes)
  fn body(&self, s: &Seen) -> (String, bool) {
    match s.status {
      200 => match self.template(&s.body) {
        Some(t) => (t, false),
        None => (format!("raw:{}", hex(&s.body)), true),
      },
      404 | 406 | 500 => (format!("msg:{}", hex(&self.replace_ids(&s.body))), false),
      _ => ("-".into(), false),
    }
  }

  fn line(&self, s: &Seen) -> String {
    format!(
      "{}|ct={}|ce={}|cc={}|csp={}|body={}",
      s.status,
      hex(&s.ct),
      opt_hex(&s.ce),
      s.cc.clone().unwrap_or("none".into()),
      csp_text(&s.csp),
      self.body(s).0
    )
  }
}

fn seen_tokens(s: &Seen) -> String {
  format!(
    "status={} ct={} ce={} cc={} csp={} body={}",
    s.status,
    hex(&s.ct),
    opt_hex(&s.ce),
    s.cc.clone().unwrap_or("none".into()).replace(' ', "_"),
    csp_text(&s.csp),
    hex(&s.body)
  )
}

// ------------------------------------------------------------------------------------------ plan

#[derive(Clone, Debug)]
enum Del {
  None,
  Id(usize),
  Bad,
}

#[derive(Clone, Debug)]
struct InsSpec {
  n: usize,
  sat: u64,
  tx: usize,
  body: Option<Vec<u8>>,
  ct: Option<Vec<u8>>,
  ce: Option<Vec<u8>>,
  del: Del,
}

fn field<'a>(ts: &'a [&'a str], key: &str) -> Option<&'a str> {
  ts.iter().find_map(|t| t.strip_prefix(key).and_then(|r| r.strip_prefix('=')))
}

fn parse_opt_hex(s: &str) -> Option<Vec<u8>> {
  if s == "none" { None } else { Some(unhex(s).expect("hex")) }
}

impl InsSpec {
  fn line(&self) -> String {
    format!(
      "ins {} sat={} tx={} body={} ct={} ce={} del={}",
      self.n,
      self.sat,
      self.tx,
      opt_hex(&self.body),
      opt_hex(&self.ct),
      opt_hex(&self.ce),
      match self.del {
        Del::None => "none".to_string(),
        Del::Id(d) => d.to_string(),
        Del::Bad => "bad".into(),
      }
    )
  }
  fn parse(ts: &[&str]) -> InsSpec {
    InsSpec {
      n: ts[1].parse().unwrap(),
      sat: field(ts, "sat").unwrap().parse().unwrap(),
      tx: field(ts, "tx").unwrap().parse().unwrap(),
      body: parse_opt_hex(field(ts, "body").unwrap()),
      ct: parse_opt_hex(field(ts, "ct").unwrap()),
      ce: parse_opt_hex(field(ts, "ce").unwrap()),
      del: match field(ts, "del").unwrap() {
        "none" => Del::None,
        "bad" => Del::Bad,
        d => Del::Id(d.parse().unwrap()),
      },
    }
  }
}

/// `InscriptionId::value` (crate-private in ord): txid bytes ++ little-endian index without trailing zeros
pub fn id_value(id: InscriptionId) -> Vec<u8> {
  let mut v = id.txid.to_byte_array().to_vec();
  let mut idx = id.index.to_le_bytes().to_vec();
  while idx.last() == Some(&0) {
    idx.pop();
  }
  v.extend(idx);
  v
}

pub fn missing_id(k: usize) -> InscriptionId {
  let h = bitcoin::hashes::sha256d::Hash::hash(format!("missing-{k}").as_bytes());
  InscriptionId { txid: Txid::from_raw_hash(h), index: (k % 3) as u32 }
}

pub fn brotli_compress(data: &[u8]) -> Vec<u8> {
  let mut out = Vec::new();
  {
    let mut w = brotli::CompressorWriter::new(&mut out, 4096, 5, 22);
    std::io::Write::write_all(&mut w, data).unwrap();
  }
  out
}

fn brotli_decompress(data: &[u8]) -> Option<Vec<u8>> {
  let mut out = Vec::new();
  brotli::Decompressor::new(data, 4096).read_to_end(&mut out).ok()?;
  Some(out)
}

// ------------------------------------------------------------------------------------------ world

pub struct World {
  pub node: Node,
  pub ix: env::Ix,
  pub flags: Flags,
  pub ids: Vec<InscriptionId>,
  /// id text -> ordinal, incl. the fabricated missing ids
  pub names: HashMap<String, usize>,
}

/// mine the plan: one reveal transaction per `tx` ordinal (all envelopes of that ordinal in one
/// tapscript), spending the output that currently holds the first sat of coinbase `sat / 50 BTC`
fn realize(plan: &[InsSpec], sats: bool, scratch: &Path) -> World {
  let node = Node::new("regtest", scratch);
  let core = &node.core;
  let max_chain = plan.iter().map(|p| p.sat / (50 * COIN)).max().unwrap_or(1).max(3);
  core.mine_blocks(max_chain);
  let mut tip: HashMap<u64, (usize, usize)> = HashMap::new();
  let mut ids: Vec<InscriptionId> = Vec::new();
  let mut i = 0;
  while i < plan.len() {
    let mut j = i;
    while j < plan.len() && plan[j].tx == plan[i].tx {
      j += 1;
    }
    let group = &plan[i..j];
    let sat = group[0].sat;
    let mut builder = script::Builder::new();
    for spec in group {
      assert_eq!(spec.n, ids.len() + (spec.n - group[0].n), "ordinals must be dense and in order");
      let delegate = match spec.del {
        Del::None => None,
        Del::Bad => Some(vec![7u8; 10]),
        Del::Id(d) if d >= MISSING_BASE => Some(id_value(missing_id(d))),
        Del::Id(d) => Some(id_value(*ids.get(d).expect("delegate must refer to an earlier transaction"))),
      };
      let ins = Inscription {
        body: spec.body.clone(),
        content_type: spec.ct.clone(),
        content_encoding: spec.ce.clone(),
        delegate,
        ..Default::default()
      };
      builder = ins.append_reveal_script_to_builder(builder);
    }
    let witness = Witness::from_slice(&[builder.into_script().into_bytes(), Vec::new()]);
    let (h, t) = *tip.get(&sat).unwrap_or(&((sat / (50 * COIN)) as usize, 0));
    let txid = core.broadcast_tx(mockcore::TransactionTemplate {
      inputs: &[(h, t, 0, witness)],
      ..Default::default()
    });
    core.mine_blocks(1);
    tip.insert(sat, (core.height() as usize, 1));
    for k in 0..group.len() {
      ids.push(InscriptionId { txid, index: k as u32 });
    }
    i = j;
  }
  let flags = Flags { sats, addr: false, tx: true, ins: true, runes: false };
  let ix = env::open(&node, scratch, flags, &[], false);
  match env::update(&ix, Duration::from_secs(300)) {
    env::UpdateOutcome::Ok => {}
    _ => panic!("index update failed"),
  }
  let mut names = HashMap::new();
  for (n, id) in ids.iter().enumerate() {
    names.insert(id.to_string(), n);
  }
  for k in MISSING_BASE..MISSING_BASE + 8 {
    names.insert(missing_id(k).to_string(), k);
  }
  World { node, ix, flags, ids, names }
}

impl World {
  fn id_of(&self, n: usize) -> InscriptionId {
    if n >= MISSING_BASE { missing_id(n) } else { self.ids[n] }
  }
}

// ------------------------------------------------------------------------------------------ executor

struct Exec<'a> {
  out: &'a mut Streams,
  dist: &'a mut Dist,
  scratch: std::path::PathBuf,
  client: reqwest::blocking::Client,
  sats: bool,
  plan: Vec<InsSpec>,
  world: Option<World>,
  server: Option<Running>,
  /// per ordinal: `Inscription::delegate()` as the real index reports it
  delegates: Vec<Option<usize>>,
  /// hidden list of the running configuration (ordinals)
  hidden: Vec<usize>,
  id_re: regex::Regex,
}

impl Exec<'_> {
  fn ensure_world(&mut self) {
    if self.world.is_some() {
      return;
    }
    let w = realize(&self.plan, self.sats, &self.scratch);
    self.delegates.clear();
    // the handlers' view, read through the real index
    for n in 0..w.ids.len() {
      let ins = w.ix.index.get_inscription_by_id(w.ids[n]).unwrap();
      self.delegates.push(ins.as_ref().and_then(|i| i.delegate()).and_then(|d| w.names.get(&d.to_string()).copied()));
      match ins {
        None => self.out.emit(&format!("view {n} absent"), "ok"),
        Some(ins) => {
          let del = match ins.delegate() {
            None => "none".to_string(),
            Some(d) => w.names.get(&d.to_string()).map(|k| k.to_string()).unwrap_or("99999".into()),
          };
          let br = match &ins.body {
            None => "na".to_string(),
            Some(b) => match brotli_decompress(b) {
              Some(d) => hex(&d),
              None => "err".into(),
            },
          };
          if br != "na" && br != "err" {
            self.dist.hit("view.brotli_ok");
          }
          self.out.emit(
            &format!(
              "view {n} body={} ct={} ce={} del={del} br={br}",
              opt_hex(&ins.body),
              opt_hex(&ins.content_type),
              opt_hex(&ins.content_encoding)
            ),
            "ok",
          );
        }
      }
    }
    if self.sats {
      let mut sats: Vec<u64> = self.plan.iter().map(|p| p.sat).collect();
      sats.sort();
      sats.dedup();
      for s in sats {
        let l = w.ix.index.get_inscription_ids_by_sat(ordinals::Sat(s)).unwrap();
        let t: Vec<String> = l.iter().map(|i| w.names[&i.to_string()].to_string()).collect();
        self.out.emit(&format!("satview {s} {}", if t.is_empty() { "-".into() } else { t.join(",") }), "ok");
      }
    }
    self.world = Some(w);
  }

  fn line(&mut self, l: &str) {
    let ts: Vec<&str> = l.split(' ').filter(|t| !t.is_empty()).collect();
    match ts[0] {
      "case" => {
        self.server = None;
        self.world = None;
        self.plan.clear();
        self.sats = field(&ts, "sats") != Some("0");
        self.out.emit(l, "ok");
        self.dist.hit("case");
      }
      "ins" => {
        self.plan.push(InsSpec::parse(&ts));
        self.out.emit(l, "ok");
        self.dist.hit("ins");
      }
      "cfg" => {
        let t0 = std::time::Instant::now();
        self.ensure_world();
        let t1 = std::time::Instant::now();
        self.server = None;
        if std::env::var("VERIF_TIMING").is_ok() {
          eprintln!("timing: ensure_world {:?}", t1 - t0);
        }
        let w = self.world.as_ref().unwrap();
        let origin = match field(&ts, "origin").unwrap() {
          "none" => None,
          h => Some(String::from_utf8(unhex(h).unwrap()).unwrap()),
        };
        let decompress = field(&ts, "decompress") == Some("1");
        let hidden: Vec<InscriptionId> = match field(&ts, "hidden").unwrap() {
          "-" => vec![],
          l => l.split(',').map(|n| w.id_of(n.parse().unwrap())).collect(),
        };
        self.hidden = match field(&ts, "hidden").unwrap() {
          "-" => vec![],
          l => l.split(',').map(|n| n.parse().unwrap()).collect(),
        };
        let settings = server_settings(&w.node, w.ix.dir.path(), w.flags, &hidden, false);
        let t2 = std::time::Instant::now();
        self.server = Some(start_server(settings, w.ix.index.clone(), origin.as_deref(), decompress));
        if std::env::var("VERIF_TIMING").is_ok() {
          eprintln!("timing: stop+settings {:?} start_server {:?}", t2 - t1, t2.elapsed());
        }
        self.out.emit(l, "ok");
        self.dist.hit("cfg");
        self.dist.hit(if origin.is_some() { "cfg.origin" } else { "cfg.no_origin" });
        if decompress {
          self.dist.hit("cfg.decompress");
        }
      }
      "req" => self.req(l, &ts),
      // regenerated, never replayed
      "view" | "satview" => {}
      op if op.starts_with("content.oracle.") => {}
      _ => panic!("unknown line {l}"),
    }
  }

  fn req(&mut self, l: &str, ts: &[&str]) {
    let w = self.world.as_ref().expect("req before cfg");
    let port = self.server.as_ref().expect("req before cfg").port;
    let route = ts[1];
    let seg = |a: &str| -> String {
      if a == "bad" { "not-an-id".into() } else { w.id_of(a.parse().unwrap()).to_string() }
    };
    let (path, valid_arg) = match route {
      "content" => (format!("/content/{}", seg(ts[2])), ts[2] != "bad"),
      "undelegated" => (format!("/r/undelegated-content/{}", seg(ts[2])), ts[2] != "bad"),
      "preview" => (format!("/preview/{}", seg(ts[2])), ts[2] != "bad"),
      "satcontent" => (
        format!(
          "/r/sat/{}/at/{}/content",
          if ts[2] == "bad" { "!!" } else { ts[2] },
          if ts[3] == "bad" { "x" } else { ts[3] }
        ),
        ts[2] != "bad" && ts[3] != "bad",
      ),
      _ => panic!("unknown route {route}"),
    };
    let ae = parse_opt_hex(field(ts, "ae").unwrap());
    let seen = match fetch(&self.client, reqwest::Method::GET, port, &path, ae.as_deref(), None) {
      Ok(s) => s,
      Err(e) => {
        self.out.emit(l, &format!("transport-error {}", hextext(&e)));
        self.dist.hit("req.transport_error");
        return;
      }
    };
    let canon = Canon { ids: &w.names, id_re: self.id_re.clone() };
    let (body_text, raw) = canon.body(&seen);
    self.out.emit(l, &canon.line(&seen));
    self.dist.hit("req");
    self.dist.hit(&format!("req.{route}.{}", seen.status));
    if let Some(layer) = seen.layer {
      self.dist.hit(&format!("transport.compression_layer.{layer}"));
    }
    if raw {
      self.dist.hit("body.raw");
      if seen.ce.is_some() {
        self.dist.hit("body.raw.encoded_passthrough");
      }
    } else if body_text.starts_with("tmpl:") {
      self.dist.hit(&format!("body.{}", body_text.split(':').take(2).collect::<Vec<_>>().join(".")));
    }
    if seen.csp.len() == 2 {
      self.dist.hit("csp.two_headers");
    }
    // oracle lines: the property's clauses evaluated on this very response
    let st = seen_tokens(&seen);
    self.out.emit(&format!("content.oracle.csp {st}"), "true");
    if seen.status == 200 {
      // the op name tells the request class (it does not depend on the answer): `viadelegate` = a
      // delegate-following route asked for a visible inscription whose delegate is on the hidden list
      let requested: Option<usize> = match route {
        "content" | "preview" | "undelegated" => ts[2].parse().ok(),
        "satcontent" => match (ts[2].parse::<u64>(), ts[3].parse::<isize>()) {
          (Ok(s), Ok(i)) if s <= 2099999997689999 && self.sats => w
            .ix
            .index
            .get_inscription_id_by_sat_indexed(ordinals::Sat(s), i)
            .unwrap()
            .and_then(|id| w.names.get(&id.to_string()).copied()),
          _ => None,
        },
        _ => None,
      };
      let via = route != "undelegated"
        && requested.is_some_and(|n| {
          !self.hidden.contains(&n)
            && self.delegates.get(n).copied().flatten().is_some_and(|d| self.hidden.contains(&d))
        });
      if via {
        self.dist.hit("req.visible_delegating_to_hidden");
        self.out.emit(&format!("content.oracle.hidden.viadelegate {} {st}", ts[1..ts.len() - 1].join(" ")), "true");
      } else {
        self.out.emit(&format!("content.oracle.hidden.direct {st}"), "true");
      }
    }
    if valid_arg && (raw || seen.status == 406) {
      let args = ts[1..].join(" ");
      self.out.emit(&format!("content.oracle.faithful {args} {st}"), "true");
    }
    if route == "satcontent" && ts[3] != "bad" {
      self.out.emit(&format!("content.oracle.notimmutable {} {st}", ts[3]), "true");
    }
  }
}

// ------------------------------------------------------------------------------------------ generator

const CONTENT_TYPES: &[&str] = &[
  "text/html",
  "text/html;charset=utf-8",
  "image/svg+xml",
  "text/plain",
  "text/plain;charset=utf-8",
  "image/png",
  "image/avif",
  "application/json",
  "text/javascript",
  "text/css",
  "application/yaml",
  "text/x-python",
  "text/markdown",
  "audio/mpeg",
  "font/woff2",
  "model/gltf+json",
  "application/pdf",
  "video/mp4",
  "application/octet-stream",
  "model/stl",
];

fn gen_ct(rng: &mut Rng) -> Option<Vec<u8>> {
  Some(match rng.below(100) {
    0..=54 => rng.pick(CONTENT_TYPES).as_bytes().to_vec(),
    55..=62 => return None,
    63..=67 => vec![0x74, 0xff, 0xfe],                       // invalid UTF-8
    68..=71 => "text/plain;é".as_bytes().to_vec(),           // valid UTF-8, not ASCII
    72..=75 => b"text/\x01plain".to_vec(),                   // control character
    76..=78 => b"text/plain;\tcharset=utf-8".to_vec(),       // tab is a valid header byte
    79..=82 => b" text/html ".to_vec(),                      // not in the media table; OWS on the wire
    83..=85 => Vec::new(),
    86..=88 => b"text/html\x7f".to_vec(),                    // DEL
    89..=91 => b"TEXT/HTML".to_vec(),
    92..=94 => vec![0xc0, 0x80],                             // overlong encoding
    _ => (0..rng.range(1, 12)).map(|_| rng.range(0x20, 0x7e) as u8).collect(),
  })
}

fn gen_ce(rng: &mut Rng, brotli_body: bool) -> Option<Vec<u8>> {
  if brotli_body && rng.chance(4, 5) {
    return Some(b"br".to_vec());
  }
  Some(match rng.below(100) {
    0..=54 => return None,
    55..=64 => b"br".to_vec(),
    65..=72 => b"gzip".to_vec(),
    73..=75 => b"identity".to_vec(),
    76..=78 => Vec::new(),
    79..=81 => b" br".to_vec(),
    82..=83 => b"BR".to_vec(),
    84..=86 => vec![0x62, 0x72, 0xff],            // invalid UTF-8 -> ""
    87..=89 => b"b\x01r".to_vec(),                // invalid header value -> None
    90..=92 => "bré".as_bytes().to_vec(),         // valid header value, to_str fails
    93..=94 => b"br;q=1".to_vec(),
    95..=96 => b"deflate".to_vec(),
    _ => b"b\tr".to_vec(),
  })
}

const ACCEPT: &[&[u8]] = &[
  b"br",
  b"gzip",
  b"gzip, deflate, br",
  b"deflate;q=0.5, gzip;q=1.0, br;q=0.8",
  b"*",
  b"identity",
  b"BR",
  b" br ",
  b"gzip,br",
  b",",
  b"",
  b"br\xff",
  b"deflate",
  b"br ;q=0",
  b"x, ;q=1",
  b"bre\xcc\x81",
  b"b\tr, identity",
];

fn gen_ae(rng: &mut Rng) -> String {
  if rng.chance(1, 6) { "none".into() } else { hex(*rng.pick(ACCEPT)) }
}

const ORIGINS: &[&str] = &["https://ord.example", "http://localhost:8080", "https://é.example", "https://bad\u{7f}origin", "", "'self'", "https://a b"];

fn gen_case(rng: &mut Rng, case: u64, big: bool) -> Vec<String> {
  let mut lines = Vec::new();
  let sats = !rng.chance(1, 8);
  lines.push(format!("case {case} sats={}", sats as u8));
  let chains = rng.range(1, 3);
  let txs = rng.range(2, if big { 9 } else { 6 }) as usize;
  let mut plan: Vec<InsSpec> = Vec::new();
  let mut sat_members: BTreeMap<u64, Vec<usize>> = BTreeMap::new();
  for tx in 0..txs {
    let sat = rng.range(1, chains) * 50 * COIN;
    let first_of_tx = plan.len();
    let envelopes = match rng.below(10) {
      0..=6 => 1,
      7..=8 => 2,
      _ => 3,
    };
    for _ in 0..envelopes {
      let n = plan.len();
      let text: Vec<u8> = {
        let len = *rng.pick(&[3usize, 8, 20, 31, 32, 33, 60, 200]);
        let mut t = format!("body-{case}-{n}-").into_bytes();
        while t.len() < len {
          t.push(b'a' + rng.below(26) as u8);
        }
        t
      };
      let (body, brotli_body) = match rng.below(100) {
        0..=59 => (Some(text), false),
        60..=84 => (Some(brotli_compress(&text)), true),
        85..=89 => (Some(format!("<html>{}</html>", String::from_utf8_lossy(&text)).into_bytes()), false),
        _ => (None, false),
      };
      // delegates may only name inscriptions of earlier transactions (their txid must be known)
      let del = match rng.below(100) {
        0..=49 => Del::None,
        50..=84 if first_of_tx > 0 => {
          // prefer targets that themselves delegate / are likely to be hidden
          let cands: Vec<usize> = (0..first_of_tx).collect();
          let delegating: Vec<usize> = cands.iter().copied().filter(|&k| !matches!(plan[k].del, Del::None)).collect();
          if !delegating.is_empty() && rng.chance(1, 3) { Del::Id(*rng.pick(&delegating)) } else { Del::Id(*rng.pick(&cands)) }
        }
        50..=84 => Del::None,
        85..=92 => Del::Id(MISSING_BASE + rng.below(3) as usize),
        _ => Del::Bad,
      };
      plan.push(InsSpec { n, sat, tx, body, ct: gen_ct(rng), ce: gen_ce(rng, brotli_body), del });
      sat_members.entry(sat).or_default().push(n);
    }
  }
  for p in &plan {
    lines.push(p.line());
  }
  let n = plan.len();
  let targets: Vec<usize> = plan.iter().filter_map(|p| if let Del::Id(d) = p.del { Some(d) } else { None }).collect();
  let cfgs = if big { 4 } else { 3 };
  for _ in 0..cfgs {
    let origin = if rng.chance(9, 20) { "none".to_string() } else { hextext(*rng.pick(ORIGINS)) };
    let origin = if origin == "-" { "none".to_string() } else { origin };
    let decompress = rng.chance(1, 2);
    let mut hidden: Vec<usize> = Vec::new();
    for k in 0..n {
      let p = if targets.contains(&k) { 2 } else { 5 };
      if rng.chance(1, p) {
        hidden.push(k);
      }
    }
    if rng.chance(1, 4) {
      hidden.push(MISSING_BASE + rng.below(3) as usize);
    }
    if rng.chance(1, 6) {
      hidden.clear();
    }
    let hl = if hidden.is_empty() { "-".to_string() } else { hidden.iter().map(|k| k.to_string()).collect::<Vec<_>>().join(",") };
    lines.push(format!("cfg origin={origin} decompress={} hidden={hl}", decompress as u8));
    let mut args: Vec<String> = (0..n).map(|k| k.to_string()).collect();
    args.push((MISSING_BASE + rng.below(3) as usize).to_string());
    args.push("bad".into());
    for a in &args {
      for route in ["content", "undelegated", "preview"] {
        lines.push(format!("req {route} {a} ae=none"));
        for _ in 0..2 {
          lines.push(format!("req {route} {a} ae={}", gen_ae(rng)));
        }
      }
    }
    let mut sat_list: Vec<(u64, usize)> = sat_members.iter().map(|(s, v)| (*s, v.len())).collect();
    sat_list.push((3 * 50 * COIN + 17, 0));
    for (s, len) in sat_list {
      let len = len as i64;
      for idx in -(len + 1)..=len {
        lines.push(format!("req satcontent {s} {idx} ae={}", gen_ae(rng)));
      }
      lines.push(format!("req satcontent {s} bad ae=none"));
    }
    lines.push("req satcontent bad 0 ae=none".into());
    lines.push(format!("req satcontent {} -1 ae=none", 50 * COIN));
    lines.push("req satcontent 2099999997690000 0 ae=none".into());
    lines.push("req satcontent 5000000000 9223372036854775807 ae=none".into());
    lines.push("req satcontent 5000000000 -9223372036854775808 ae=none".into());
    lines.push("req satcontent 5000000000 9223372036854775808 ae=none".into());
  }
  lines
}

fn main() {
  // tokio's documented knob for `Runtime::new()` (which `Server::run` uses): a few workers per server
  // instead of one per core, so that 16 shards with several servers each do not oversubscribe the machine
  if std::env::var_os("TOKIO_WORKER_THREADS").is_none() {
    // SAFETY: no other thread exists yet
    unsafe { std::env::set_var("TOKIO_WORKER_THREADS", "2") };
  }
  let args = Args::parse();
  let mut out = Streams::create(&args.out);
  let mut dist = Dist::default();
  let scratch = args.out.join("scratch");
  std::fs::create_dir_all(&scratch).unwrap();
  match args.stream.as_str() {
    "content" => {
      let mut ex = Exec {
        out: &mut out,
        dist: &mut dist,
        scratch: scratch.clone(),
        client: client(),
        sats: true,
        plan: Vec::new(),
        world: None,
        server: None,
        delegates: Vec::new(),
        hidden: Vec::new(),
        id_re: regex::Regex::new(r"[0-9a-f]{64}i[0-9]+").unwrap(),
      };
      if let Some(path) = &args.replay {
        for l in replay_lines(path) {
          ex.line(&l);
        }
      } else {
        let mut rng = Rng::new(args.seed);
        let big = args.get("big") == Some("1");
        for case in 0..args.cases {
          let mut r = rng.fork();
          for l in gen_case(&mut r, case, big) {
            ex.line(&l);
          }
        }
      }
      ex.server = None;
      ex.world = None;
    }
    "crawl" => crawl::run(&args, &mut out, &mut dist, &scratch),
    s => panic!("unknown stream {s}"),
  }
  out.finish();
  dist.write(&args.out);
  let _ = std::fs::remove_dir_all(&scratch);
  // the explorer's index-polling threads sleep for an hour: do not wait for them
  std::process::exit(0);
}
