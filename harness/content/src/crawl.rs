//! Stream `crawl`: request every route of the real router and assert that each response — 200, 3xx, 400,
//! 404, 405, 406, 500 alike — carries a Content-Security-Policy header (C19 clause 3, directly on the
//! implementation).  The route list is re-read from the source text of `Server::run` on every run; the Lean
//! driver answers `unknown-route` for a template that is not in the table extracted by
//! tools/extractors/server_layers.py, so the two readings are tied together.
use {
  super::*,
  ord::{Inscription, InscriptionId},
};

fn routes(repo: &str) -> Vec<(String, String)> {
  let src = std::fs::read_to_string(format!("{repo}/src/subcommand/server.rs")).unwrap();
  let end = src.find("#[cfg(test)]\nmod tests").unwrap_or(src.len());
  let re = regex::Regex::new(r#"\.route\(\s*"([^"]+)",\s*(get|post)\("#).unwrap();
  re.captures_iter(&src[..end]).map(|c| (c[2].to_uppercase(), c[1].to_string())).collect()
}

struct Fill {
  id: InscriptionId,
  txid: Txid,
  address: String,
  tip: String,
}

/// candidate values per path parameter: [plausible…], last one is garbage
fn values(f: &Fill, param: &str) -> Vec<String> {
  let s = |v: &[&str]| v.iter().map(|x| x.to_string()).collect::<Vec<_>>();
  match param {
    "address" => vec![f.address.clone(), "xyz".into()],
    "query" => vec!["0".into(), f.tip.clone(), "999999".into(), "zzz".into()],
    "inscription_id" => vec![f.id.to_string(), missing_id(MISSING_BASE).to_string(), "zz".into()],
    "inscription_query" => vec![f.id.to_string(), "0".into(), "-1".into(), "5000000000".into(), "zz".into()],
    "page" | "child" | "item" | "input" | "transaction" | "block" => s(&["0", "1", "x"]),
    "index" => s(&["0", "-1", "x"]),
    "height" => s(&["0", "1", "99999", "-1"]),
    "txid" => vec![f.txid.to_string(), Txid::all_zeros().to_string(), "zz".into()],
    "sat" | "sat_number" => s(&["0", "5000000000", "2099999997690000", "abc"]),
    "output" | "outpoint" => vec![format!("{}:0", f.txid), format!("{}:7", Txid::all_zeros()), "zz".into()],
    "rune" => s(&["AAAAAAAAAAAAA", "1:0", "zz!"]),
    "satpoint" => vec![format!("{}:0:0", f.txid), "zz".into()],
    "*query" => s(&["0", "foo/bar", "%ff"]),
    "*path" => s(&["index.css", "nope.txt", "%ff"]),
    p => panic!("crawl: no values for path parameter {{{p}}}"),
  }
}

fn fill(template: &str, f: &Fill, pick: &dyn Fn(&[String]) -> String) -> String {
  let re = regex::Regex::new(r"\{([^}]+)\}").unwrap();
  re.replace_all(template, |c: &regex::Captures| pick(&values(f, &c[1]))).into_owned()
}

pub fn run(args: &Args, out: &mut Streams, dist: &mut Dist, scratch: &Path) {
  let repo = args.get("repo").map(|s| s.to_string()).or_else(|| std::env::var("VERIF_REPO").ok()).unwrap_or("/repo".into());
  let routes = routes(&repo);
  out.emit("crawl.routes", &routes.len().to_string());
  let mut rng = Rng::new(args.seed);
  let client = client();
  for case in 0..args.cases {
    // a small world: two inscriptions (one delegating), sat index on for even cases
    let node = Node::new("regtest", scratch);
    node.core.mine_blocks(3);
    let a = Inscription {
      body: Some(b"crawl body".to_vec()),
      content_type: Some(b"text/plain;charset=utf-8".to_vec()),
      ..Default::default()
    };
    let w = Witness::from_slice(&[a.append_reveal_script_to_builder(script::Builder::new()).into_script().into_bytes(), Vec::new()]);
    let txid = node.core.broadcast_tx(mockcore::TransactionTemplate { inputs: &[(1, 0, 0, w)], ..Default::default() });
    node.core.mine_blocks(1);
    let id = InscriptionId { txid, index: 0 };
    let sats = (case + args.seed) % 2 == 0;
    let flags = Flags { sats, addr: sats, tx: false, ins: true, runes: sats };
    let ix = env::open(&node, scratch, flags, &[], false);
    match env::update(&ix, Duration::from_secs(300)) {
      env::UpdateOutcome::Ok => {}
      _ => panic!("index update failed"),
    }
    let address = {
      let tx = node.core.tx(1, 0);
      bitcoin::Address::from_script(&tx.output[0].script_pubkey, bitcoin::Network::Regtest).unwrap().to_string()
    };
    let f = Fill { id, txid, address, tip: node.tip().to_string() };
    let origin = if rng.chance(1, 2) { Some("https://ord.example") } else { None };
    let hidden = if rng.chance(1, 2) { vec![id] } else { vec![] };
    let settings = server_settings(&node, ix.dir.path(), flags, &hidden, false);
    let server = start_server(settings, ix.index.clone(), origin, rng.chance(1, 2));
    let one = |method: &str, tmpl: &str, path: &str, body: Option<(&str, Vec<u8>)>, ae: Option<&[u8]>, out: &mut Streams, dist: &mut Dist| {
      let m = reqwest::Method::from_bytes(method.as_bytes()).unwrap();
      let label = if method == "GET" || method == "POST" { method } else { "OTHER" };
      match fetch(&client, m, server.port, path, ae, body) {
        Ok(s) => {
          dist.hit(&format!("crawl.status.{}", s.status));
          out.emit(
            &format!("crawl.oracle.csp {label} {} path={} status={} csp={}", hextext(tmpl), hextext(path), s.status, csp_text(&s.csp)),
            "true",
          );
        }
        Err(e) => {
          dist.hit("crawl.transport_error");
          out.emit(&format!("crawl.oracle.csp {label} {} path={} error={}", hextext(tmpl), hextext(path), hextext(&e)), "true");
        }
      }
    };
    for (method, tmpl) in &routes {
      let params = regex::Regex::new(r"\{([^}]+)\}").unwrap().captures_iter(tmpl).count();
      let mut paths: Vec<String> = Vec::new();
      paths.push(fill(tmpl, &f, &|v| v[0].clone()));
      if params > 0 {
        paths.push(fill(tmpl, &f, &|v| v[1.min(v.len() - 1)].clone()));
        paths.push(fill(tmpl, &f, &|v| v[v.len() - 1].clone()));
        let seed = rng.next_u64();
        let cell = std::cell::Cell::new(seed);
        paths.push(fill(tmpl, &f, &|v| {
          let x = cell.get();
          cell.set(x.wrapping_mul(6364136223846793005).wrapping_add(1442695040888963407));
          v[((x >> 33) as usize) % v.len()].clone()
        }));
      }
      paths.dedup();
      for p in &paths {
        if method == "GET" {
          one("GET", tmpl, p, None, None, out, dist);
          one("GET", tmpl, p, None, Some(b"gzip, br"), out, dist);
          one("HEAD", tmpl, p, None, None, out, dist);
          one("POST", tmpl, p, Some(("application/json", b"[]".to_vec())), None, out, dist);
        } else {
          one("POST", tmpl, p, Some(("application/json", b"[]".to_vec())), None, out, dist);
          one("POST", tmpl, p, Some(("application/json", format!("[\"{}\"]", f.id).into_bytes())), None, out, dist);
          one("POST", tmpl, p, Some(("text/plain", b"garbage".to_vec())), None, out, dist);
          one("POST", tmpl, p, None, None, out, dist);
          one("GET", tmpl, p, None, None, out, dist);
        }
      }
    }
    // JSON API, search, fallback
    for p in ["/inscriptions", "/status", "/blocks", "/runes"] {
      let m = reqwest::Method::GET;
      if let Ok(s) = client
        .request(m, format!("http://127.0.0.1:{}{p}", server.port))
        .header("accept", "application/json")
        .send()
      {
        let csp: Vec<Vec<u8>> = s.headers().get_all("content-security-policy").iter().map(|v| v.as_bytes().to_vec()).collect();
        out.emit(
          &format!("crawl.oracle.csp GET {} path={} status={} csp={}", hextext(p), hextext(p), s.status().as_u16(), csp_text(&csp)),
          "true",
        );
      }
    }
    for p in [
      "/nonexistent".to_string(),
      "/a/b/c/d/e".to_string(),
      format!("/{}", f.id),
      format!("/{}", f.txid),
      format!("/{}:0", f.txid),
      "/%ff".to_string(),
      "/search?query=0".to_string(),
      "/search?query=".to_string(),
      "/search".to_string(),
      "//".to_string(),
      "/content".to_string(),
      "/r".to_string(),
    ] {
      let tmpl = if p.starts_with("/search") { "/search" } else { "<fallback>" };
      one("GET", tmpl, &p, None, None, out, dist);
      one("DELETE", tmpl, &p, None, None, out, dist);
    }
    drop(server);
    dist.hit("crawl.case");
  }
}
