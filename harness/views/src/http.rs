//! The REAL explorer: `ord::subcommand::server::Server::run` on the chain's `Arc<Index>`, bound to
//! an ephemeral localhost port, queried over HTTP with `Accept: application/json`.
use {
  clap::Parser,
  ord::{Index, settings::Settings, subcommand::server::Server},
  std::{net::SocketAddr, sync::Arc, time::Duration},
};

pub enum R {
  Ok(String),
  /// HTTP status other than 200
  Status(u16),
  /// the connection broke (the handler panicked)
  Broken,
}

impl R {
  pub fn status(&self) -> String {
    match self {
      R::Ok(_) => "200".into(),
      R::Status(s) => s.to_string(),
      R::Broken => "panic".into(),
    }
  }
}

pub struct Srv {
  pub base: String,
  client: reqwest::blocking::Client,
  handle: axum_server::Handle<SocketAddr>,
  pub requests: u64,
}

impl Srv {
  pub fn start(index: Arc<Index>, settings: Settings) -> Srv {
    let server = Server::try_parse_from([
      "server",
      "--address",
      "127.0.0.1",
      "--http-port",
      "0",
      "--no-sync",
      "--polling-interval",
      "3600s",
    ])
    .unwrap();
    let handle = axum_server::Handle::new();
    let (tx, rx) = std::sync::mpsc::channel();
    {
      let handle = handle.clone();
      std::thread::spawn(move || {
        let _ = server.run(settings, index, handle, Some(tx));
      });
    }
    let port = rx.recv_timeout(Duration::from_secs(60)).expect("server did not start");
    let client = reqwest::blocking::Client::builder()
      .no_brotli()
      .no_proxy()
      .timeout(Duration::from_secs(60))
      .build()
      .unwrap();
    Srv { base: format!("http://127.0.0.1:{port}"), client, handle, requests: 0 }
  }

  fn finish(&mut self, r: Result<reqwest::blocking::Response, reqwest::Error>) -> R {
    self.requests += 1;
    match r {
      Err(_) => R::Broken,
      Ok(resp) => {
        let status = resp.status().as_u16();
        match resp.text() {
          Err(_) => R::Broken,
          Ok(body) => {
            if status == 200 {
              R::Ok(body)
            } else {
              R::Status(status)
            }
          }
        }
      }
    }
  }

  pub fn get(&mut self, path: &str) -> R {
    let r = self.client.get(format!("{}{path}", self.base)).header("accept", "application/json").send();
    self.finish(r)
  }

  /// status and body whatever the status (the inscription route answers `404 null`)
  pub fn get_any(&mut self, path: &str) -> Option<(u16, String)> {
    self.requests += 1;
    let r = self.client.get(format!("{}{path}", self.base)).header("accept", "application/json").send().ok()?;
    let status = r.status().as_u16();
    Some((status, r.text().ok()?))
  }

  pub fn post(&mut self, path: &str, body: String) -> R {
    let r = self
      .client
      .post(format!("{}{path}", self.base))
      .header("accept", "application/json")
      .header("content-type", "application/json")
      .body(body)
      .send();
    self.finish(r)
  }

  pub fn stop(&self) {
    self.handle.shutdown();
  }
}
