//! Stream `big`: hand-built chains that push every listing over the explorer's fixed page size
//! (100): one parent with `n` children, all revealed in one block, all on one sat, then one
//! child naming all of them as parents.  `n` runs over page-boundary sizes, so pages with exactly
//! 99 / 100 / 101 / 200 / 201 entries, `more` flips and the look-ahead `pop` are all exercised
//! against the real server; the Lean index model follows the same blocks.
use {
  crate::probe::Views,
  bitcoin::{
    Amount, Block, OutPoint, ScriptBuf, Sequence, Transaction, TxIn, TxOut, Witness,
    absolute::LockTime,
    opcodes,
    script::{self, PushBytesBuf},
    transaction::Version,
  },
  common::{Args, Dist, Rng, Streams},
  ixlib::{
    Ctx, Flags, Node, UpdateOutcome,
    chaingen::{Gen, p2tr},
    emit, env,
  },
  ord::InscriptionId,
  std::time::Duration,
};

fn push(b: script::Builder, data: &[u8]) -> script::Builder {
  b.push_slice(PushBytesBuf::try_from(data.to_vec()).unwrap())
}

/// `InscriptionId::value()`: txid bytes then the index little-endian without trailing zeros
fn id_value(id: InscriptionId) -> Vec<u8> {
  use bitcoin::hashes::Hash;
  let mut v = id.txid.to_byte_array().to_vec();
  let mut idx = id.index.to_le_bytes().to_vec();
  while idx.last() == Some(&0) {
    idx.pop();
  }
  v.extend(idx);
  v
}

fn envelope(mut b: script::Builder, parents: &[InscriptionId], body: &[u8]) -> script::Builder {
  b = b.push_opcode(opcodes::OP_FALSE).push_opcode(opcodes::all::OP_IF);
  b = push(b, b"ord");
  b = push(b, &[1]);
  b = push(b, b"text/plain");
  for p in parents {
    b = push(b, &[3]);
    b = push(b, &id_value(*p));
  }
  b = b.push_opcode(opcodes::OP_FALSE);
  b = push(b, body);
  b.push_opcode(opcodes::all::OP_ENDIF)
}

fn reveal_witness(script: ScriptBuf) -> Witness {
  let mut w = Witness::new();
  w.push(script.as_bytes());
  w.push([]);
  w
}

fn coinbase(height: u32, value: u64) -> Transaction {
  Transaction {
    version: Version(2),
    lock_time: LockTime::ZERO,
    input: vec![TxIn {
      previous_output: OutPoint::null(),
      script_sig: script::Builder::new().push_int(i64::from(height)).push_int(7777).into_script(),
      sequence: Sequence::MAX,
      witness: Witness::new(),
    }],
    output: vec![TxOut { value: Amount::from_sat(value), script_pubkey: p2tr(9) }],
  }
}

fn spend(prev: OutPoint, witness: Witness, outs: Vec<(u64, ScriptBuf)>) -> Transaction {
  Transaction {
    version: Version(2),
    lock_time: LockTime::ZERO,
    input: vec![TxIn { previous_output: prev, script_sig: ScriptBuf::new(), sequence: Sequence::MAX, witness }],
    output: outs.into_iter().map(|(v, s)| TxOut { value: Amount::from_sat(v), script_pubkey: s }).collect(),
  }
}

fn one_chain(n: usize, case: u64, views: &mut Views, rng: &mut Rng, out: &mut Streams, dist: &mut Dist, scratch: &std::path::Path) {
  let flags = Flags::all();
  let node = Node::new("regtest", scratch);
  let ix = env::open(&node, scratch, flags, &[], false);
  let mut g = Gen::new(rng.fork(), node.core.state().network);
  out.emit("cfg sats=1 addr=1 tx=1 ins=1 runes=1 first_ins=0 jubilee=110 first_rune=0", "ok");
  let genesis = node.block_at(0);
  g.absorb(&genesis, 0);
  emit::emit_block(out, 0, &genesis, g.network, &g.txs);
  out.emit("endblock", "ok");

  let subsidy = 50 * 100_000_000u64;
  let mut blocks: Vec<Vec<Transaction>> = Vec::new();
  // block 1: funds
  let cb1 = coinbase(1, subsidy);
  let fund = OutPoint { txid: cb1.compute_txid(), vout: 0 };
  blocks.push(vec![cb1]);
  // block 2: the parent P
  let p_tx = spend(
    fund,
    reveal_witness(envelope(script::Builder::new(), &[], b"parent").into_script()),
    vec![(10_000, p2tr(7)), (subsidy - 10_000, p2tr(9))],
  );
  let p_id = InscriptionId { txid: p_tx.compute_txid(), index: 0 };
  let p_out = OutPoint { txid: p_tx.compute_txid(), vout: 0 };
  blocks.push(vec![coinbase(2, subsidy), p_tx]);
  // block 3: n children of P in one input, all on P's sat
  let mut b = script::Builder::new();
  for i in 0..n {
    b = envelope(b, &[p_id], format!("child {i}").as_bytes());
  }
  let kids_tx = spend(p_out, reveal_witness(b.into_script()), vec![(10_000, p2tr(8))]);
  let kids_txid = kids_tx.compute_txid();
  let kids_out = OutPoint { txid: kids_txid, vout: 0 };
  blocks.push(vec![coinbase(3, subsidy), kids_tx]);
  // block 4: one inscription naming P and every child as parents
  let mut parents = vec![p_id];
  parents.extend((0..n as u32).map(|index| InscriptionId { txid: kids_txid, index }));
  let many_tx = spend(
    kids_out,
    reveal_witness(envelope(script::Builder::new(), &parents, b"many parents").into_script()),
    vec![(10_000, p2tr(7))],
  );
  blocks.push(vec![coinbase(4, subsidy), many_tx]);

  for (i, txdata) in blocks.into_iter().enumerate() {
    let height = i as u32 + 1;
    let block = Block { header: env::make_header(node.tip(), height, rng.next_u64() as u32), txdata };
    g.absorb(&block, height);
    node.push_block(block.clone());
    match env::update(&ix, Duration::from_secs(300)) {
      UpdateOutcome::Ok => {}
      _ => {
        out.emit("endblock", "update-failed");
        return;
      }
    }
    emit::emit_block(out, height, &block, g.network, &g.txs);
    out.emit("endblock", "ok");
    let rows = ix.index.verif_dump().unwrap();
    let secs = env::sections(&rows);
    for name in ["chain", "stats", "utxo", "sat2satpoint", "ins", "tx", "addr", "runes"] {
      out.emit(&format!("dump {name}"), &secs[name]);
    }
    if height >= 3 {
      let ctx = Ctx { ix: &ix, node: &node, g: &g, flags, chain: "regtest", case, rows: &rows, secs, events: "-", first_new_height: height };
      views.probe_now(&ctx, rng, out, dist);
    }
  }
  dist.hit(&format!("big_chain_n{n}"));
}

pub fn run(args: &Args) {
  let mut out = Streams::create(&args.out);
  let mut dist = Dist::default();
  let mut rng = Rng::new(args.seed);
  let scratch = args.out.join("scratch");
  std::fs::create_dir_all(&scratch).unwrap();
  // listing sizes: n children, n + 1 on the sat / in the table, n + 1 parents
  let sizes: Vec<usize> = match args.get("sizes") {
    Some(s) => s.split(',').map(|x| x.parse().unwrap()).collect(),
    None => vec![99, 100, 101, 199, 200, 201, 250],
  };
  let mut views = Views::new(args);
  for case in 0..args.cases {
    let n = sizes[((args.seed + case) % sizes.len() as u64) as usize];
    let mut r = rng.fork();
    one_chain(n, case, &mut views, &mut r, &mut out, &mut dist, &scratch);
  }
  views.finish();
  let _ = std::fs::remove_dir_all(&scratch);
  dist.write(&args.out);
  out.finish();
}
