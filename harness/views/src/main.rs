//! Work stream "views" (C18): explorer JSON routes and recursive endpoints of the REAL server,
//! fetched over HTTP for every object of the implementation's dump, canonicalised, and compared
//! with `OrdModel.Server.Views` evaluated by the Lean driver on the model state; plus oracle lines
//! that evaluate the views / pagination clauses on the implementation's own rows and answers.
//!
//! Compared fields (everything that is a function of the index state):
//!   inscription: id number height fee sat satpoint timestamp charms value address parents children
//!                child_count next previous rune        (not: content_*, metaprotocol, properties)
//!   output:      indexed inscriptions runes sat_ranges spent value script_pubkey address outpoint
//!                transaction                             (not: confirmations)
//!   listings:    ids / more / page       sat: inscriptions satpoint address charms number
//!   block:       best_height hash height inscriptions runes   (not: target, transactions)
//!   rune:        entry id mintable parent               address: outputs inscriptions sat_balance runes
mod big;
mod http;
mod probe;

use common::Args;

fn main() {
  let args = Args::parse();
  common::silence_panics();
  match args.stream.as_str() {
    "chain" => {
      let mut p = probe::Views::new(&args);
      ixlib::run(&args, &mut |ctx, rng, out, dist| p.probe(ctx, rng, out, dist));
      p.finish();
    }
    "big" => big::run(&args),
    s => panic!("unknown stream {s}"),
  }
}
