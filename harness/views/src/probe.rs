use {
  crate::http::{R, Srv},
  bitcoin::{Address, OutPoint, Txid, hashes::Hash},
  common::{Args, Dist, Rng, Streams, hex},
  ixlib::Ctx,
  ord::{InscriptionId, api},
  ordinals::{Charm, RuneId, Sat, SatPoint, SpacedRune},
  std::{
    collections::{BTreeMap, BTreeSet, HashMap},
    str::FromStr,
  },
};

/// first page number whose `page * 100` does not fit a u64
pub const OVERFLOW_PAGE: u64 = 184467440737095517;

pub struct Views {
  srv: Option<Srv>,
  case: u64,
  calls: u64,
  every: u64,
  states: u64,
  max_states: u64,
  /// cap on objects of one kind per state (the rest is sampled)
  cap: usize,
  first_of_chain: bool,
}

fn field<'a>(row: &'a str, key: &str) -> Option<&'a str> {
  row.split(' ').find_map(|t| t.strip_prefix(key))
}

fn opt<T: ToString>(o: Option<T>) -> String {
  o.map(|x| x.to_string()).unwrap_or("-".into())
}

fn join<T: ToString>(l: &[T]) -> String {
  if l.is_empty() { "-".into() } else { l.iter().map(|x| x.to_string()).collect::<Vec<_>>().join(",") }
}

fn charms_bits(cs: &[Charm]) -> u16 {
  cs.iter().fold(0, |acc, c| acc | c.flag())
}

fn unbound() -> OutPoint {
  OutPoint { txid: Txid::all_zeros(), vout: 0 }
}

fn spaced(s: &SpacedRune) -> String {
  format!("{}.{}", s.rune.0, s.spacers)
}

fn addr_script(a: &str) -> String {
  match Address::from_str(a) {
    Ok(a) => hex(a.assume_checked().script_pubkey().as_bytes()),
    Err(_) => "BADADDRESS".into(),
  }
}

pub struct EntryRow {
  pub seq: u32,
  pub id: InscriptionId,
  pub number: i32,
  pub sat: Option<u64>,
  pub parents: Vec<u32>,
}

/// the implementation's dump rows, indexed
pub struct Rows<'a> {
  pub entries: Vec<EntryRow>,
  pub entry_rows: Vec<&'a str>,
  pub seq2sp: HashMap<u32, SatPoint>,
  pub children: BTreeMap<u32, Vec<u32>>,
  pub sat2seq: BTreeMap<u64, Vec<u32>>,
  pub rare: Vec<u64>,
  pub utxos: Vec<(OutPoint, &'a str, Vec<u32>)>,
  pub balances: HashMap<OutPoint, &'a str>,
  pub runes: Vec<(RuneId, &'a str)>,
  pub marks: Vec<(u32, u32)>,
  pub scripts: Vec<Vec<u8>>,
  pub other_ins_rows: Vec<&'a str>,
}

fn nums<T: FromStr>(s: &str) -> Vec<T> {
  if s == "-" || s.is_empty() { Vec::new() } else { s.split(',').filter_map(|x| x.parse().ok()).collect() }
}

impl<'a> Rows<'a> {
  pub fn parse(rows: &'a [String]) -> Rows<'a> {
    let mut r = Rows {
      entries: Vec::new(),
      entry_rows: Vec::new(),
      seq2sp: HashMap::new(),
      children: BTreeMap::new(),
      sat2seq: BTreeMap::new(),
      rare: Vec::new(),
      utxos: Vec::new(),
      balances: HashMap::new(),
      runes: Vec::new(),
      marks: Vec::new(),
      scripts: Vec::new(),
      other_ins_rows: Vec::new(),
    };
    for row in rows {
      let mut it = row.split(' ');
      let head = it.next().unwrap();
      match head {
        "entry" => {
          r.entries.push(EntryRow {
            seq: it.next().unwrap().parse().unwrap(),
            id: InscriptionId::from_str(field(row, "id=").unwrap()).unwrap(),
            number: field(row, "number=").unwrap().parse().unwrap(),
            sat: field(row, "sat=").unwrap().parse().ok(),
            parents: nums(field(row, "parents=").unwrap()),
          });
          r.entry_rows.push(row);
        }
        "seq2satpoint" => {
          let s: u32 = it.next().unwrap().parse().unwrap();
          r.seq2sp.insert(s, SatPoint::from_str(it.next().unwrap()).unwrap());
          r.other_ins_rows.push(row);
        }
        "children" => {
          let k: u32 = it.next().unwrap().parse().unwrap();
          r.children.insert(k, nums(it.next().unwrap()));
          r.other_ins_rows.push(row);
        }
        "sat2seq" => {
          let k: u64 = it.next().unwrap().parse().unwrap();
          r.sat2seq.insert(k, nums(it.next().unwrap()));
          r.other_ins_rows.push(row);
        }
        "id2seq" | "num2seq" | "seq2runeid" => r.other_ins_rows.push(row),
        "sat2satpoint" => r.rare.push(it.next().unwrap().parse().unwrap()),
        "utxo" => {
          let op = OutPoint::from_str(it.next().unwrap()).unwrap();
          let ins = field(row, "ins=").map(|s| {
            if s == "-" { Vec::new() } else { s.split(',').map(|p| p.split('@').next().unwrap().parse().unwrap()).collect() }
          });
          r.utxos.push((op, row, ins.unwrap_or_default()));
        }
        "balances" => {
          r.balances.insert(OutPoint::from_str(it.next().unwrap()).unwrap(), row);
        }
        "rune" => r.runes.push((RuneId::from_str(it.next().unwrap()).unwrap(), row)),
        "height2lastseq" => r.marks.push((it.next().unwrap().parse().unwrap(), it.next().unwrap().parse().unwrap())),
        "script2outpoints" => r.scripts.push(common::unhex(it.next().unwrap()).unwrap()),
        _ => {}
      }
    }
    r.entries.sort_by_key(|e| e.seq);
    r.runes.sort_by_key(|x| (x.0.block, x.0.tx));
    r
  }

  pub fn id_of(&self, seq: u32) -> Option<InscriptionId> {
    self.entries.get(seq as usize).filter(|e| e.seq == seq).map(|e| e.id)
  }

  pub fn seq_of(&self, id: InscriptionId) -> Option<u32> {
    self.entries.iter().find(|e| e.id == id).map(|e| e.seq)
  }

  fn ids_of(&self, seqs: &[u32]) -> Vec<InscriptionId> {
    seqs.iter().filter_map(|s| self.id_of(*s)).collect()
  }
}

fn rel(r: &api::RelativeInscriptionRecursive) -> String {
  format!(
    "{}/{}/{}/{}/{}/{}/{}/{}/{}",
    r.id,
    r.number,
    r.height,
    r.fee,
    opt(r.sat.map(|s| s.n())),
    r.satpoint,
    r.output,
    r.timestamp,
    charms_bits(&r.charms)
  )
}

fn piles(m: &BTreeMap<SpacedRune, ordinals::Pile>) -> String {
  if m.is_empty() {
    return "-".into();
  }
  m.iter()
    .map(|(k, p)| format!("{}.{}.{}.{}", spaced(k), p.amount, p.divisibility, opt(p.symbol.map(u32::from))))
    .collect::<Vec<_>>()
    .join(",")
}

fn ranges(l: &[(u64, u64)]) -> String {
  if l.is_empty() { "-".into() } else { l.iter().map(|(a, b)| format!("{a}-{b}")).collect::<Vec<_>>().join(",") }
}

fn optl<T>(o: &Option<T>, f: impl Fn(&T) -> String) -> String {
  match o {
    None => "none".into(),
    Some(x) => f(x),
  }
}

fn other(r: &R) -> String {
  match r {
    R::Ok(_) => "unparsed".into(),
    R::Status(s) => s.to_string(),
    R::Broken => "panic".into(),
  }
}

fn canon<T: for<'de> serde::Deserialize<'de>>(r: &R, f: impl Fn(&T) -> String) -> String {
  match r {
    R::Ok(body) => match serde_json::from_str::<T>(body) {
      Ok(v) => format!("ok {}", f(&v)),
      Err(e) => format!("unparsed {e}").replace([' ', '\n'], "_"),
    },
    o => other(o),
  }
}

fn ins_view(v: &api::Inscription) -> String {
  format!(
    "id={} number={} height={} fee={} sat={} satpoint={} ts={} charms={} value={} addr={} parents={} children={} child_count={} next={} prev={} rune={}",
    v.id,
    v.number,
    v.height,
    v.fee,
    opt(v.sat.map(|s| s.n())),
    v.satpoint,
    v.timestamp,
    charms_bits(&v.charms),
    opt(v.value),
    v.address.as_deref().map(addr_script).unwrap_or("-".into()),
    join(&v.parents),
    join(&v.children),
    v.child_count,
    opt(v.next),
    opt(v.previous),
    v.rune.as_ref().map(spaced).unwrap_or("-".into()),
  )
}

fn rins_view(v: &api::InscriptionRecursive) -> String {
  format!(
    "id={} number={} height={} fee={} sat={} satpoint={} output={} ts={} charms={} value={} addr={}",
    v.id,
    v.number,
    v.height,
    v.fee,
    opt(v.sat.map(|s| s.n())),
    v.satpoint,
    v.output,
    v.timestamp,
    charms_bits(&v.charms),
    opt(v.value),
    v.address.as_deref().map(addr_script).unwrap_or("-".into()),
  )
}

fn out_view(v: &api::Output, op: OutPoint) -> String {
  let addr = match &v.address {
    None => "false".to_string(),
    Some(a) => {
      if a.clone().assume_checked().script_pubkey() == v.script_pubkey { "true".into() } else { "MISMATCH".into() }
    }
  };
  let ident = if v.outpoint == op && v.transaction == op.txid { "" } else { " IDENTMISMATCH" };
  format!(
    "indexed={} ins={} runes={} ranges={} spent={} value={} script={} addr={addr}{ident}",
    v.indexed,
    optl(&v.inscriptions, |l| join(l)),
    optl(&v.runes, piles),
    optl(&v.sat_ranges, |l| ranges(l)),
    v.spent,
    v.value,
    hex(v.script_pubkey.as_bytes()),
  )
}

fn utxo_view(v: &api::UtxoRecursive) -> String {
  format!(
    "ins={} runes={} ranges={} value={}",
    optl(&v.inscriptions, |l| join(l)),
    optl(&v.runes, piles),
    optl(&v.sat_ranges, |l| ranges(l)),
    v.value
  )
}

fn rune_view(v: &api::Rune) -> String {
  let e = &v.entry;
  let terms = match e.terms {
    None => "-".to_string(),
    Some(t) => format!(
      "amount:{}/cap:{}/height:{}:{}/offset:{}:{}",
      opt(t.amount),
      opt(t.cap),
      opt(t.height.0),
      opt(t.height.1),
      opt(t.offset.0),
      opt(t.offset.1)
    ),
  };
  format!(
    "rune {} block={} burned={} divisibility={} etching={} mints={} number={} premine={} rune={} spacers={} symbol={} terms={} timestamp={} turbo={} mintable={} parent={}",
    v.id,
    e.block,
    e.burned,
    e.divisibility,
    e.etching,
    e.mints,
    e.number,
    e.premine,
    e.spaced_rune.rune.0,
    e.spaced_rune.spacers,
    opt(e.symbol.map(u32::from)),
    terms,
    e.timestamp,
    e.turbo,
    v.mintable,
    opt(v.parent),
  )
}

/// pages of one listing as fetched: `(items, more)`; `None` = a request did not answer 200
struct Fetched {
  pages: Vec<(Vec<String>, bool)>,
}

impl Fetched {
  fn oracle(&self, size: usize, full: &[String]) -> String {
    format!(
      "v.oracle.pages {size} {} {}",
      join(full),
      self.pages.iter().map(|(i, m)| format!("{}/{m}", join(i))).collect::<Vec<_>>().join(" ")
    )
  }
}

impl Views {
  pub fn new(args: &Args) -> Self {
    let num = |k: &str, d: u64| args.get(k).map(|v| v.parse().unwrap()).unwrap_or(d);
    Views {
      srv: None,
      case: u64::MAX,
      calls: 0,
      every: num("every", 2),
      states: 0,
      max_states: num("states", u64::MAX),
      cap: num("cap", 60) as usize,
      first_of_chain: false,
    }
  }

  pub fn finish(&mut self) {
    if let Some(s) = self.srv.take() {
      s.stop();
    }
  }

  /// the node's `TxOut` for an outpoint, as the `<node>` parameter of the model's views
  fn node_param(ctx: &Ctx, genesis: Txid, op: OutPoint) -> String {
    let st = ctx.node.core.state();
    // the index answers for the genesis coinbase from its own copy of the genesis block
    let genesis_tx = (op.txid == genesis).then(|| st.blocks[&st.hashes[0]].txdata[0].clone());
    let Some(tx) = genesis_tx.as_ref().or_else(|| st.transactions.get(&op.txid)) else { return "-".into() };
    let Some(o) = tx.output.get(op.vout as usize) else { return "-".into() };
    let addressable = Address::from_script(&o.script_pubkey, ctx.g.network).is_ok();
    let unspent = st.utxos.contains_key(&op) || op.txid == genesis;
    format!("{},{},{},{}", o.value.to_sat(), hex(o.script_pubkey.as_bytes()), addressable as u8, unspent as u8)
  }

  /// fetch pages `0, 1, …` of a listing until `more = false`, and one page beyond
  fn fetch_pages(
    srv: &mut Srv,
    out: &mut Streams,
    op_prefix: &str,
    path: impl Fn(u64) -> String,
    parse: impl Fn(&R, u64) -> (String, Option<(Vec<String>, bool)>),
  ) -> Option<Fetched> {
    let mut pages = Vec::new();
    let mut page = 0u64;
    let mut beyond = false;
    loop {
      let r = srv.get(&path(page));
      let (line, parsed) = parse(&r, page);
      out.emit(&format!("{op_prefix} {page}"), &line);
      let (items, more) = parsed?;
      pages.push((items, more));
      if beyond || page > 40 {
        break;
      }
      if !more {
        beyond = true;
      }
      page += 1;
    }
    Some(Fetched { pages })
  }

  pub fn probe(&mut self, ctx: &Ctx, rng: &mut Rng, out: &mut Streams, dist: &mut Dist) {
    if self.case != ctx.case {
      self.finish();
      self.case = ctx.case;
      self.calls = 0;
    }
    self.calls += 1;
    if self.calls % self.every != 0 || self.states >= self.max_states {
      return;
    }
    self.probe_now(ctx, rng, out, dist);
  }

  /// probe this state whatever the schedule says (one server per chain)
  pub fn probe_now(&mut self, ctx: &Ctx, rng: &mut Rng, out: &mut Streams, dist: &mut Dist) {
    if self.case != ctx.case {
      self.finish();
      self.case = ctx.case;
      self.calls = 0;
    }
    self.states += 1;
    self.first_of_chain = self.srv.is_none();
    if self.srv.is_none() {
      let settings = ixlib::env::settings(ctx.node, ctx.ix.dir.path(), ctx.flags, &[]);
      self.srv = Some(Srv::start(ctx.ix.index.clone(), settings));
      dist.hit("server_started");
    }
    dist.hit("state_probed");
    let before = self.srv.as_ref().unwrap().requests;
    self.probe_state(ctx, rng, out, dist);
    dist.add("http_requests", self.srv.as_ref().unwrap().requests - before);
  }

  pub fn probe_state(&mut self, ctx: &Ctx, rng: &mut Rng, out: &mut Streams, dist: &mut Dist) {
    let srv = self.srv.as_mut().unwrap();
    let rows = Rows::parse(ctx.rows);
    let genesis = ctx.node.block_at(0).txdata[0].compute_txid();
    let height = ctx.node.height();
    let flags = ctx.flags;
    let cap = self.cap;
    let all_entry_rows = rows.entry_rows.join("|");
    let ins_rows = || format!("{}|{}", all_entry_rows, rows.other_ins_rows.join("|"));
    let rune_rows: String = rows.runes.iter().map(|(_, r)| *r).collect::<Vec<_>>().join("|");

    // ---- chain tip -------------------------------------------------------------------------
    for path in ["/r/blockheight", "/blockheight"] {
      let r = srv.get(path);
      out.emit("v.height", &match &r { R::Ok(b) => b.clone(), o => other(o) });
    }
    {
      let r = srv.get("/blockcount");
      out.emit(&format!("v.oracle.same {} {}", match &r { R::Ok(b) => b.clone(), o => other(o) }, height + 1), "true");
    }
    let hash_line = |r: &R, json: bool| match r {
      R::Ok(b) => {
        if json { serde_json::from_str::<String>(b).unwrap_or("unparsed".into()) } else { b.clone() }
      }
      R::Status(404) => "-".into(),
      o => other(o),
    };
    out.emit("v.hash -", &hash_line(&srv.get("/r/blockhash"), true));
    out.emit("v.hash -", &hash_line(&srv.get("/blockhash"), false));

    // ---- heights: block view, in-block listing ---------------------------------------------
    let mut inblock_answers = Vec::new();
    for h in 0..=height + 1 {
      out.emit(&format!("v.hash {h}"), &hash_line(&srv.get(&format!("/r/blockhash/{h}")), true));
      if h == height + 1 || h + 3 > height || rng.chance(1, 3) {
        out.emit(&format!("v.hash {h}"), &hash_line(&srv.get(&format!("/blockhash/{h}")), false));
      }
      let r = srv.get(&format!("/block/{h}"));
      out.emit(
        &format!("v.block {h}"),
        &canon::<api::Block>(&r, |b| {
          format!(
            "best={} hash={} height={} ins={} runes={}",
            b.best_height,
            b.hash,
            b.height,
            join(&b.inscriptions),
            if b.runes.is_empty() { "-".into() } else { b.runes.iter().map(spaced).collect::<Vec<_>>().join(",") }
          )
        }),
      );
      if !flags.ins {
        continue;
      }
      let unpaged = srv.get(&format!("/inscriptions/block/{h}"));
      let mut first = String::new();
      let fetched = Self::fetch_pages(
        srv,
        out,
        &format!("v.insblock {h}"),
        |p| format!("/inscriptions/block/{h}/{p}"),
        |r, _p| {
          let mut parsed = None;
          let line = canon::<api::Inscriptions>(r, |v| {
            format!("items={} more={} page={}", join(&v.ids), v.more, v.page_index)
          });
          if let R::Ok(b) = r {
            if let Ok(v) = serde_json::from_str::<api::Inscriptions>(b) {
              parsed = Some((v.ids.iter().map(|i| i.to_string()).collect(), v.more));
            }
          }
          (line, parsed)
        },
      );
      if let (R::Ok(a), Some(f)) = (&unpaged, &fetched) {
        if let Ok(v) = serde_json::from_str::<api::Inscriptions>(a) {
          first = format!("{}/{}", join(&v.ids), v.more);
        }
        let p0 = &f.pages[0];
        out.emit(&format!("v.oracle.same {first} {}/{}", join(&p0.0), p0.1), "true");
      }
      if let Some(f) = fetched {
        let all: Vec<String> = f.pages.iter().flat_map(|p| p.0.clone()).collect();
        let seqs: Vec<u32> =
          all.iter().filter_map(|i| rows.seq_of(InscriptionId::from_str(i).unwrap())).collect();
        if seqs.len() == all.len() {
          inblock_answers.push(format!("{h}={}", join(&seqs)));
        } else {
          inblock_answers.push(format!("{h}=UNKNOWNID"));
        }
        // pagination clauses on the implementation's own pages
        out.emit(&f.oracle(100, &all), "true");
        dist.hit("oracle_pages_inblock");
      }
    }
    if flags.ins {
      out.emit(
        &format!(
          "v.oracle.inblock {} {} {}",
          if rows.marks.is_empty() { "-".into() } else { rows.marks.iter().map(|(h, s)| format!("{h}:{s}")).collect::<Vec<_>>().join(",") },
          rows.entries.len(),
          inblock_answers.join(" ")
        ),
        "true",
      );
    }

    // ---- latest inscriptions, galleries ----------------------------------------------------
    if flags.ins {
      let n = rows.entries.len() as u64;
      let last_page = n.saturating_sub(1) / 100;
      for p in 0..=last_page + 2 {
        let r = srv.get(&format!("/inscriptions/{p}"));
        out.emit(
          &format!("v.latest {p}"),
          &canon::<api::Inscriptions>(&r, |v| format!("items={} more={} page={}", join(&v.ids), v.more, v.page_index)),
        );
        if p == 0 {
          let u = srv.get("/inscriptions");
          out.emit(
            "v.latest 0",
            &canon::<api::Inscriptions>(&u, |v| format!("items={} more={} page={}", join(&v.ids), v.more, v.page_index)),
          );
        }
      }
      for p in 0..2u64 {
        let r = srv.get(&format!("/galleries/{p}"));
        out.emit(
          &format!("v.galleries {p}"),
          &canon::<api::Inscriptions>(&r, |v| format!("items={} more={} page={}", join(&v.ids), v.more, v.page_index)),
        );
      }
    }

    // ---- inscriptions ----------------------------------------------------------------------
    let pick: Vec<usize> = sample(rng, rows.entries.len(), cap);
    for &k in &pick {
      let e = &rows.entries[k];
      let id = e.id;
      let sp = rows.seq2sp.get(&e.seq).copied();
      let node = sp.map(|sp| Self::node_param(ctx, genesis, sp.outpoint)).unwrap_or("-".into());
      dist.hit("inscription_probed");
      if let Some(sp) = sp {
        if sp.outpoint == OutPoint::null() {
          dist.hit("inscription_at_null");
        } else if sp.outpoint == unbound() {
          dist.hit("inscription_unbound");
        }
      }

      // JSON /inscription/<id>, /<number>, /<sat name>
      let by_id = srv.get_any(&format!("/inscription/{id}"));
      let line = |r: &Option<(u16, String)>| match r {
        None => "panic".to_string(),
        Some((200, b)) => canon::<api::Inscription>(&R::Ok(b.clone()), ins_view),
        Some((404, b)) if b == "null" => "404".into(),
        Some((s, _)) => s.to_string(),
      };
      let by_id_line = line(&by_id);
      out.emit(&format!("v.ins id:{id} - {node}"), &by_id_line);
      // the view as a function of the implementation's own rows
      out.emit(&format!("v.oracle.ins {id} {node} {by_id_line} || {}|{rune_rows}", ins_rows()), "true");
      dist.hit("oracle_ins");
      let by_num = srv.get_any(&format!("/inscription/{}", e.number));
      out.emit(&format!("v.ins num:{} - {node}", e.number), &line(&by_num));
      if flags.sats {
        if let Some(sat) = e.sat {
          // the first inscription on that sat is shown
          let first = rows.sat2seq.get(&sat).and_then(|l| l.first()).copied();
          let fnode = first
            .and_then(|s| rows.seq2sp.get(&s))
            .map(|sp| Self::node_param(ctx, genesis, sp.outpoint))
            .unwrap_or("-".into());
          let by_sat = srv.get_any(&format!("/inscription/{}", Sat(sat).name()));
          out.emit(&format!("v.ins sat:{sat} - {fnode}"), &line(&by_sat));
          dist.hit("inscription_by_sat");
        }
      }
      // /inscription/<id>/<child k>, one beyond the last child
      let kids = rows.children.get(&e.seq).cloned().unwrap_or_default();
      for k in 0..=kids.len().min(6) {
        let cnode = kids
          .get(k)
          .and_then(|s| rows.seq2sp.get(s))
          .map(|sp| Self::node_param(ctx, genesis, sp.outpoint))
          .unwrap_or("-".into());
        let r = srv.get_any(&format!("/inscription/{id}/{k}"));
        out.emit(&format!("v.ins id:{id} {k} {cnode}"), &line(&r));
      }

      // /r/inscription/<id>
      let r = srv.get(&format!("/r/inscription/{id}"));
      out.emit(&format!("v.rins {id} {node}"), &canon::<api::InscriptionRecursive>(&r, rins_view));
      // every indexed inscription is served by the recursive endpoint
      out.emit(&format!("v.oracle.served rins {id} {} {}", opt(sp), r.status()), "true");

      // children pages: JSON /children and /r/children agree and match the model
      let full: Vec<String> = rows.ids_of(&kids).iter().map(|i| i.to_string()).collect();
      let parse_children = |r: &R, _p: u64| {
        let mut parsed = None;
        if let R::Ok(b) = r {
          if let Ok(v) = serde_json::from_str::<api::Children>(b) {
            parsed = Some((v.ids.iter().map(|i| i.to_string()).collect(), v.more));
          }
        }
        (canon::<api::Children>(r, |v| format!("items={} more={} page={}", join(&v.ids), v.more, v.page)), parsed)
      };
      let f = Self::fetch_pages(srv, out, &format!("v.children {id}"), |p| format!("/r/children/{id}/{p}"), parse_children);
      if let Some(f) = &f {
        out.emit(&f.oracle(100, &full), "true");
        dist.hit("oracle_pages_children");
        if f.pages.len() > 2 {
          dist.hit("children_multi_page");
        }
        for p in 0..f.pages.len() as u64 {
          let a = srv.get(&format!("/children/{id}/{p}"));
          out.emit(&format!("v.children {id} {p}"), &parse_children(&a, p).0);
        }
        let a = srv.get(&format!("/children/{id}"));
        out.emit(&format!("v.children {id} 0"), &parse_children(&a, 0).0);
        let a = srv.get(&format!("/r/children/{id}"));
        out.emit(&format!("v.children {id} 0"), &parse_children(&a, 0).0);
        for p in 0..f.pages.len() as u64 {
          let a = srv.get(&format!("/r/children/{id}/inscriptions/{p}"));
          out.emit(
            &format!("v.rchildins {id} {p}"),
            &canon::<api::ChildInscriptions>(&a, |v| {
              format!("items={} more={} page={}", join(&v.children.iter().map(rel).collect::<Vec<_>>()), v.more, v.page)
            }),
          );
        }
        if !full.is_empty() {
          dist.hit("parent_with_children");
        }
      }

      // parents pages
      let pfull: Vec<String> = rows.ids_of(&e.parents).iter().map(|i| i.to_string()).collect();
      let parse_parents = |r: &R, _p: u64| {
        let mut parsed = None;
        if let R::Ok(b) = r {
          if let Ok(v) = serde_json::from_str::<api::Inscriptions>(b) {
            parsed = Some((v.ids.iter().map(|i| i.to_string()).collect(), v.more));
          }
        }
        (canon::<api::Inscriptions>(r, |v| format!("items={} more={} page={}", join(&v.ids), v.more, v.page_index)), parsed)
      };
      let f = Self::fetch_pages(srv, out, &format!("v.rparents {id}"), |p| format!("/r/parents/{id}/{p}"), parse_parents);
      if let Some(f) = &f {
        out.emit(&f.oracle(100, &pfull), "true");
        dist.hit("oracle_pages_parents");
        let a = srv.get(&format!("/r/parents/{id}"));
        out.emit(&format!("v.rparents {id} 0"), &parse_parents(&a, 0).0);
        for p in 0..f.pages.len() as u64 {
          let a = srv.get(&format!("/r/parents/{id}/inscriptions/{p}"));
          out.emit(
            &format!("v.rparentins {id} {p}"),
            &canon::<api::ParentInscriptions>(&a, |v| {
              format!("items={} more={} page={}", join(&v.parents.iter().map(rel).collect::<Vec<_>>()), v.more, v.page)
            }),
          );
        }
        if !pfull.is_empty() {
          dist.hit("child_with_parents");
        }
      }
    }
    // unknown inscription id
    if flags.ins {
      let id = InscriptionId { txid: Txid::from_byte_array(rng.bytes(32).try_into().unwrap()), index: 0 };
      let r = srv.get_any(&format!("/inscription/{id}"));
      out.emit(
        &format!("v.ins id:{id} - -"),
        &match r {
          Some((404, b)) if b == "null" => "404".into(),
          Some((s, _)) => s.to_string(),
          None => "panic".into(),
        },
      );
      out.emit(&format!("v.rins {id} -"), &other(&srv.get(&format!("/r/inscription/{id}"))));
      out.emit(&format!("v.children {id} 0"), &other(&srv.get(&format!("/r/children/{id}/0"))));
      out.emit(&format!("v.rparents {id} 0"), &other(&srv.get(&format!("/r/parents/{id}/0"))));
    }

    // ---- outputs ---------------------------------------------------------------------------
    let mut outpoints: Vec<OutPoint> = Vec::new();
    let upick = sample(rng, rows.utxos.len(), cap);
    let mut interesting: Vec<usize> =
      (0..rows.utxos.len()).filter(|i| !rows.utxos[*i].2.is_empty() || rows.balances.contains_key(&rows.utxos[*i].0)).collect();
    interesting.truncate(cap);
    let chosen: BTreeSet<usize> = upick.into_iter().chain(interesting).collect();
    for i in chosen {
      outpoints.push(rows.utxos[i].0);
    }
    // spent, never-existing and out-of-range outpoints
    {
      let known: BTreeSet<OutPoint> = rows.utxos.iter().map(|u| u.0).collect();
      let mut spent: Vec<OutPoint> = ctx
        .g
        .txs
        .values()
        .flat_map(|(tx, _)| tx.input.iter().map(|i| i.previous_output))
        .filter(|o| !o.is_null() && !known.contains(o))
        .collect();
      spent.sort();
      spent.dedup();
      for i in sample(rng, spent.len(), 12) {
        outpoints.push(spent[i]);
        dist.hit("output_spent");
      }
      for (op, _) in rows.balances.iter() {
        if !known.contains(op) {
          outpoints.push(*op);
        }
      }
      outpoints.push(OutPoint { txid: Txid::from_byte_array(rng.bytes(32).try_into().unwrap()), vout: 0 });
      outpoints.push(OutPoint { txid: genesis, vout: 0 });
      outpoints.push(OutPoint { txid: genesis, vout: 7 });
      if let Some(u) = rows.utxos.iter().find(|u| !u.0.is_null() && u.0 != unbound()) {
        outpoints.push(OutPoint { txid: u.0.txid, vout: 9999 });
      }
      outpoints.push(OutPoint::null());
      outpoints.push(unbound());
    }
    let mut seen = BTreeSet::new();
    outpoints.retain(|o| seen.insert(*o));
    let mut post_bodies = Vec::new();
    let mut post_ops = Vec::new();
    for op in &outpoints {
      let node = Self::node_param(ctx, genesis, *op);
      let r = srv.get(&format!("/output/{op}"));
      let line = canon::<api::Output>(&r, |v| out_view(v, *op));
      out.emit(&format!("v.out {op} {node}"), &line);
      dist.hit("output_probed");
      if let R::Ok(b) = &r {
        if post_ops.len() < 20 {
          post_ops.push(*op);
          post_bodies.push(b.clone());
        }
        // view = function of the implementation's own rows
        let urow = rows.utxos.iter().find(|u| u.0 == *op);
        let mut sel: Vec<&str> = Vec::new();
        if let Some(u) = urow {
          sel.push(u.1);
        }
        if let Some(b) = rows.balances.get(op) {
          sel.push(b);
        }
        out.emit(
          &format!("v.oracle.out {op} {node} {line} || {}|{all_entry_rows}|{rune_rows}", if sel.is_empty() { "-".to_string() } else { sel.join("|") }),
          "true",
        );
        dist.hit("oracle_out");
        // exactly the inscriptions whose stored satpoint is in this output
        if flags.ins {
          if let Ok(v) = serde_json::from_str::<api::Output>(b) {
            let mut located: Vec<(u32, InscriptionId)> = rows
              .seq2sp
              .iter()
              .filter(|(_, sp)| sp.outpoint == *op)
              .filter_map(|(s, _)| rows.id_of(*s).map(|i| (*s, i)))
              .collect();
            located.sort();
            out.emit(
              &format!(
                "v.oracle.located {} {}",
                join(&v.inscriptions.unwrap_or_default()),
                join(&located.iter().map(|x| x.1).collect::<Vec<_>>())
              ),
              "true",
            );
            dist.hit("oracle_located");
          }
        }
      }
      let r = srv.get(&format!("/r/utxo/{op}"));
      out.emit(&format!("v.utxo {op}"), &canon::<api::UtxoRecursive>(&r, utxo_view));
    }
    // POST /outputs answers the list of the individual views
    if !post_ops.is_empty() {
      let body = serde_json::to_string(&post_ops).unwrap();
      let r = srv.post("/outputs", body);
      let joined = match &r {
        R::Ok(b) => match (serde_json::from_str::<Vec<api::Output>>(b), post_bodies.iter().map(|x| serde_json::from_str::<api::Output>(x)).collect::<Result<Vec<_>, _>>()) {
          (Ok(a), Ok(b)) => (a == b).to_string(),
          _ => "unparsed".into(),
        },
        o => other(o),
      };
      out.emit(&format!("v.oracle.same outputs-post:{joined} outputs-post:true"), "true");
    }

    // ---- sats ------------------------------------------------------------------------------
    let mut sats: Vec<u64> = rows.sat2seq.keys().copied().chain(rows.rare.iter().copied()).collect();
    sats.sort();
    sats.dedup();
    let spick = sample(rng, sats.len(), cap);
    let mut sats: Vec<u64> = spick.into_iter().map(|i| sats[i]).collect();
    sats.push(rng.below(2_099_999_997_690_000));
    sats.push(0);
    for sat in sats {
      let seqs = rows.sat2seq.get(&sat).cloned().unwrap_or_default();
      let full: Vec<String> = rows.ids_of(&seqs).iter().map(|i| i.to_string()).collect();
      // /sat/<n>
      let shown = ctx
        .rows
        .iter()
        .find(|r| r.starts_with(&format!("sat2satpoint {sat} ")))
        .map(|r| SatPoint::from_str(r.split(' ').nth(2).unwrap()).unwrap())
        .or_else(|| seqs.first().and_then(|s| rows.seq2sp.get(s)).copied());
      let node = shown.map(|sp| Self::node_param(ctx, genesis, sp.outpoint)).unwrap_or("-".into());
      let r = srv.get(&format!("/sat/{sat}"));
      out.emit(
        &format!("v.sat {sat} {node}"),
        &canon::<api::Sat>(&r, |v| {
          format!(
            "ins={} satpoint={} addr={} charms={}{}",
            join(&v.inscriptions),
            opt(v.satpoint),
            v.address.as_deref().map(addr_script).unwrap_or("-".into()),
            charms_bits(&v.charms),
            if v.number == sat { "" } else { " NUMBERMISMATCH" }
          )
        }),
      );
      dist.hit("sat_probed");
      // the sat page of every sat answers
      out.emit(&format!("v.oracle.served sat {sat} {} {}", opt(shown), r.status()), "true");
      if let Some(sp) = shown {
        if sp.outpoint == OutPoint::null() {
          dist.hit("sat_at_null");
        }
      }
      // /r/sat/<n>/<page>
      let parse_sat = |r: &R, _p: u64| {
        let mut parsed = None;
        if let R::Ok(b) = r {
          if let Ok(v) = serde_json::from_str::<api::SatInscriptions>(b) {
            parsed = Some((v.ids.iter().map(|i| i.to_string()).collect(), v.more));
          }
        }
        (canon::<api::SatInscriptions>(r, |v| format!("items={} more={} page={}", join(&v.ids), v.more, v.page)), parsed)
      };
      let f = Self::fetch_pages(srv, out, &format!("v.rsat {sat}"), |p| format!("/r/sat/{sat}/{p}"), parse_sat);
      if let Some(f) = &f {
        out.emit(&f.oracle(100, &full), "true");
        dist.hit("oracle_pages_sat");
        let a = srv.get(&format!("/r/sat/{sat}"));
        out.emit(&format!("v.rsat {sat} 0"), &parse_sat(&a, 0).0);
      }
      // /r/sat/<n>/at/<i> for i in -n-1 ..= n
      let n = full.len() as i64;
      let mut answers = Vec::new();
      let mut idx: Vec<i64> = (-n - 1..=n).collect();
      if idx.len() > 24 {
        let extra: Vec<i64> = vec![-n - 1, -n, -n + 1, -101, -100, -99, -2, -1, 0, 1, 99, 100, 101, n - 1, n];
        idx = extra.into_iter().filter(|i| *i >= -n - 1 && *i <= n).collect();
        idx.sort();
        idx.dedup();
      }
      let mut all_ok = true;
      for i in idx {
        let r = srv.get(&format!("/r/sat/{sat}/at/{i}"));
        let line = canon::<api::SatInscription>(&r, |v| opt(v.id));
        out.emit(&format!("v.rsatat {sat} {i}"), &line);
        match line.strip_prefix("ok ") {
          Some(a) => answers.push(format!("{i}:{a}")),
          None => all_ok = false,
        }
      }
      if all_ok && flags.sats {
        out.emit(&format!("v.oracle.signed {} {}", join(&full), answers.join(" ")), "true");
        dist.hit("oracle_signed");
      }
    }

    // ---- runes -----------------------------------------------------------------------------
    {
      let rpick = sample(rng, rows.runes.len(), cap);
      for i in rpick {
        let (id, row) = rows.runes[i];
        let rune: u128 = field(row, "rune=").unwrap().parse().unwrap();
        let spacers: u32 = field(row, "spacers=").unwrap().parse().unwrap();
        let number: u64 = field(row, "number=").unwrap().parse().unwrap();
        let name = SpacedRune { rune: ordinals::Rune(rune), spacers };
        let a = srv.get(&format!("/rune/{name}"));
        let la = canon::<api::Rune>(&a, rune_view);
        out.emit(&format!("v.rune {rune}"), &la);
        dist.hit("rune_probed");
        let b = srv.get(&format!("/rune/{id}"));
        let lb = canon::<api::Rune>(&b, rune_view);
        out.emit(&format!("v.runeid {id}"), &match &b {
          R::Ok(x) => serde_json::from_str::<api::Rune>(x).map(|v| v.entry.spaced_rune.rune.0.to_string()).unwrap_or("unparsed".into()),
          _ => "-".into(),
        });
        out.emit(&format!("v.oracle.same {} {}", la.replace(' ', "_"), lb.replace(' ', "_")), "true");
        // by number = position in the table
        let pos = rows.runes.iter().position(|r| r.0 == id).unwrap();
        let c = srv.get(&format!("/rune/{pos}"));
        out.emit(&format!("v.runenum {pos}"), &match &c {
          R::Ok(x) => serde_json::from_str::<api::Rune>(x).map(|v| v.entry.spaced_rune.rune.0.to_string()).unwrap_or("unparsed".into()),
          _ => "-".into(),
        });
        let _ = number;
      }
      if flags.runes {
        let pos = rows.runes.len();
        let c = srv.get(&format!("/rune/{pos}"));
        out.emit(&format!("v.runenum {pos}"), &match &c { R::Ok(_) => "found".into(), _ => "-".to_string() });
        let unknown = ordinals::Rune(1234567890123456789012345);
        let r = srv.get(&format!("/rune/{unknown}"));
        out.emit(&format!("v.rune {}", unknown.0), &other(&r));
      }
      let pages = rows.runes.len() as u64 / 50 + 1;
      for p in 0..=(if flags.runes { pages } else { 0 }) {
        if !flags.runes {
          break;
        }
        let r = srv.get(&format!("/runes/{p}"));
        out.emit(
          &format!("v.runes {p}"),
          &canon::<api::Runes>(&r, |v| {
            format!("items={} more={} page={p}", join(&v.entries.iter().map(|e| e.0).collect::<Vec<_>>()), v.more)
          }),
        );
      }
    }

    // ---- addresses -------------------------------------------------------------------------
    {
      let mut scripts = rows.scripts.clone();
      scripts.push(ixlib::chaingen::p2wpkh(200).to_bytes());
      let apick = sample(rng, scripts.len(), cap.min(16));
      let div_of = |s: &SpacedRune| -> u8 {
        rows
          .runes
          .iter()
          .find(|(_, r)| field(r, "rune=").unwrap() == s.rune.0.to_string())
          .map(|(_, r)| field(r, "divisibility=").unwrap().parse().unwrap())
          .unwrap_or(0)
      };
      for i in apick {
        let script = bitcoin::ScriptBuf::from_bytes(scripts[i].clone());
        let Ok(addr) = Address::from_script(&script, ctx.g.network) else { continue };
        let r = srv.get(&format!("/address/{addr}"));
        out.emit(
          &format!("v.address {}", hex(script.as_bytes())),
          &canon::<api::AddressInfo>(&r, |v| {
            format!(
              "outs={} ins={} sat={} runes={}",
              join(&v.outputs),
              optl(&v.inscriptions, |l| join(l)),
              v.sat_balance,
              optl(&v.runes_balances, |l| {
                if l.is_empty() {
                  "-".into()
                } else {
                  l.iter()
                    .map(|(s, d, sy)| {
                      let div = div_of(s);
                      format!("{}.{}.{}.{}", spaced(s), d.to_integer(div).map(|x| x.to_string()).unwrap_or("BAD".into()), div, opt(sy.map(u32::from)))
                    })
                    .collect::<Vec<_>>()
                    .join(",")
                }
              })
            )
          }),
        );
        dist.hit("address_probed");
      }
    }

    // ---- the unchecked `page_index * page_size` of the children / parents accessors --------
    if flags.ins && self.first_of_chain {
      if let Some(e) = rows.entries.first() {
        let id = e.id;
        let kids = rows.children.get(&e.seq).map(|l| l.len()).unwrap_or(0);
        // `/r/parents/<id>/<page>` additionally converts the page to u32 (500 once the product no
        // longer panics): compared with the model only
        {
          let r = srv.get(&format!("/r/parents/{id}/{OVERFLOW_PAGE}"));
          out.emit(
            &format!("v.rparents {id} {OVERFLOW_PAGE}"),
            &canon::<api::Inscriptions>(&r, |v| format!("items={} more={} page={}", join(&v.ids), v.more, v.page_index)),
          );
        }
        for (op, label, path, len) in [
          ("v.children", "v.children", format!("/r/children/{id}/{OVERFLOW_PAGE}"), kids),
          ("v.rparentins", "v.rparents", format!("/r/parents/{id}/inscriptions/{OVERFLOW_PAGE}"), e.parents.len()),
        ] {
          let r = srv.get(&path);
          let status = match &r {
            R::Ok(b) => match serde_json::from_str::<serde_json::Value>(b) {
              Ok(v) => {
                let items = if v["ids"].is_array() { &v["ids"] } else { &v["parents"] };
                format!("200:{}:{}", items.as_array().map(|a| a.len()).unwrap_or(usize::MAX), v["more"])
              }
              Err(_) => "unparsed".into(),
            },
            o => other(o),
          };
          let line = if op == "v.children" {
            canon::<api::Children>(&r, |v| format!("items={} more={} page={}", join(&v.ids), v.more, v.page))
          } else {
            canon::<api::ParentInscriptions>(&r, |v| {
              format!("items={} more={} page={}", join(&v.parents.iter().map(rel).collect::<Vec<_>>()), v.more, v.page)
            })
          };
          out.emit(&format!("{op} {id} {OVERFLOW_PAGE}"), &line);
          // a page beyond the end is an empty page
          out.emit(&format!("v.oracle.beyond {label} {len} {OVERFLOW_PAGE} {status}"), "true");
          dist.hit("overflow_page_probed");
        }
      }
    }
  }
}

/// up to `cap` indices of `0..n`: all when they fit, else the first, the last and a random sample
pub fn sample(rng: &mut Rng, n: usize, cap: usize) -> Vec<usize> {
  if n <= cap {
    return (0..n).collect();
  }
  let mut s = BTreeSet::new();
  s.insert(0);
  s.insert(n - 1);
  while s.len() < cap {
    s.insert(rng.below(n as u64) as usize);
  }
  s.into_iter().collect()
}
