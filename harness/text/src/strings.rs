//! String generators shared by the text streams.
use common::*;

/// boundary integers around every width the parsers convert to
pub fn boundary_ints() -> Vec<String> {
  let mut v: Vec<String> = Vec::new();
  for k in [8u32, 16, 31, 32, 63, 64, 127] {
    let p = 1u128 << k;
    v.push((p - 1).to_string());
    v.push(p.to_string());
    v.push((p + 1).to_string());
  }
  v.push("0".into());
  v.push("1".into());
  v.push(u128::MAX.to_string()); // 2^128 - 1
  v.push("340282366920938463463374607431768211456".into()); // 2^128
  v.push("340282366920938463463374607431768211457".into()); // 2^128 + 1
  v.push((u128::MAX - 1).to_string());
  for k in [1u32, 2, 9, 10, 18, 19, 20, 37, 38] {
    let p = 10u128.pow(k);
    v.push((p - 1).to_string());
    v.push(p.to_string());
    v.push((p + 1).to_string());
  }
  v.push(format!("1{}", "0".repeat(39)));
  v.push(format!("9{}", "9".repeat(39)));
  v
}

pub fn digits(rng: &mut Rng, n: usize) -> String {
  (0..n).map(|_| char::from(b'0' + rng.below(10) as u8)).collect()
}

/// an unsigned integer literal: boundary / any-width random / long digit strings, optionally
/// decorated with sign characters and leading zeros
pub fn int_literal(rng: &mut Rng, bounds: &[String]) -> String {
  let mut s = match rng.below(10) {
    0..=2 => rng.pick(bounds).clone(),
    3..=5 => rng.u128_any_width().to_string(),
    6 => rng.u64_any_width().to_string(),
    7 => rng.below(100).to_string(),
    8 => {
      let n = rng.range(1, 45) as usize;
      digits(rng, n)
    }
    _ => {
      let n = rng.range(38, 300) as usize;
      digits(rng, n)
    }
  };
  if rng.chance(1, 6) {
    let hi = if rng.chance(1, 4) { 300 } else { 5 };
    let z = rng.range(1, hi) as usize;
    s = format!("{}{s}", "0".repeat(z));
  }
  match rng.below(16) {
    0 => format!("+{s}"),
    1 => format!("-{s}"),
    2 if rng.chance(1, 2) => format!("++{s}"),
    _ => s,
  }
}

pub const ODD_CHARS: &[char] = &[
  ' ', '\t', '\n', '_', '+', '-', '.', ':', 'i', 'e', 'E', 'x', '/', '%', '°', '′', '•', '٣', '７', '\u{A0}',
  '\u{2003}', '\u{0}', 'é', '漢', '🎉', 'a', 'z', 'A', 'Z', 'f', 'F', 'g', '0', '9', '\u{85}', '\u{1680}',
];

/// mutate a string at a char position: insert / replace / delete / duplicate
pub fn mutate(rng: &mut Rng, s: &str) -> String {
  let mut cs: Vec<char> = s.chars().collect();
  let n = rng.range(1, 2);
  for _ in 0..n {
    let at = rng.below(cs.len() as u64 + 1) as usize;
    match rng.below(4) {
      0 => cs.insert(at, *rng.pick(ODD_CHARS)),
      1 if at < cs.len() => cs[at] = *rng.pick(ODD_CHARS),
      2 if at < cs.len() => {
        cs.remove(at);
      }
      3 if at < cs.len() => {
        let c = cs[at];
        cs.insert(at, c);
      }
      _ => cs.insert(at, *rng.pick(ODD_CHARS)),
    }
  }
  cs.into_iter().collect()
}

pub fn random_string(rng: &mut Rng) -> String {
  let n = rng.below(12) as usize;
  (0..n)
    .map(|_| {
      if rng.chance(3, 4) {
        *rng.pick(ODD_CHARS)
      } else {
        char::from_u32(rng.below(0x11_0000) as u32).unwrap_or('?')
      }
    })
    .collect()
}

pub fn hex64(rng: &mut Rng) -> String {
  let upper = rng.chance(1, 5);
  let mixed = rng.chance(1, 8);
  (0..64)
    .map(|_| {
      let d = rng.below(16) as u32;
      let c = char::from_digit(d, 16).unwrap();
      if upper || (mixed && rng.chance(1, 2)) { c.to_ascii_uppercase() } else { c }
    })
    .collect()
}
