//! The body of `Decimal::from_str` **with `/verif/notes/fix-decimal.diff` applied**, copied here as
//! a free function so that the repaired parser can be validated against the model of the repaired
//! code (`Num/Decimal_fixed.lean`, op `decfix.parse`) *before* the repair lands in /repo.  Not
//! part of any registered check; run by hand: `eng_text decfix --seed 1 --cases N --out DIR`.
use {
  crate::decimal::{decimal_string, int_err, panic_class},
  crate::strings::boundary_ints,
  anyhow::{Context, Result, bail, ensure},
  common::*,
};

fn from_str_fixed(s: &str) -> Result<(u128, u8)> {
  if let Some((integer, decimal)) = s.split_once('.') {
    if integer.is_empty() && decimal.is_empty() {
      bail!("empty decimal");
    }

    let integer = if integer.is_empty() {
      0
    } else {
      integer.parse::<u128>()?
    };

    let (decimal, scale) = if decimal.is_empty() {
      (0, 0)
    } else {
      ensure!(
        decimal.bytes().all(|byte| byte.is_ascii_digit()),
        "invalid digit found in string",
      );

      let significant = decimal.trim_end_matches('0');

      if significant.is_empty() {
        (0, 0)
      } else {
        (
          significant.parse::<u128>()?,
          u8::try_from(significant.len()).context("excessive precision")?,
        )
      }
    };

    Ok((
      10u128
        .checked_pow(u32::from(scale))
        .and_then(|magnitude| integer.checked_mul(magnitude))
        .and_then(|integer| integer.checked_add(decimal))
        .context("decimal out of range")?,
      scale,
    ))
  } else {
    Ok((s.parse::<u128>()?, 0))
  }
}

fn parse(s: &str) -> String {
  let owned = s.to_string();
  match catch(move || from_str_fixed(&owned)) {
    Ok(Ok((v, sc))) => format!("ok {v} {sc}"),
    Ok(Err(e)) => {
      if let Some(p) = e.downcast_ref::<std::num::ParseIntError>() {
        format!("err int:{}", int_err(p.kind()))
      } else {
        format!("err {}", e.to_string().replace(' ', "-"))
      }
    }
    Err(msg) => format!("panic {}", panic_class(&msg)),
  }
}

fn emit(out: &mut Streams, dist: &mut Dist, s: &str) {
  let h = hextext(s);
  let r = parse(s);
  out.emit(&format!("decfix.parse {h}"), &r);
  out.emit(&format!("c31.oracle.dec {h} {}", r.replace(' ', ":")), "true");
  let mut it = r.split(' ');
  let k = it.next().unwrap_or("");
  let v = if k == "ok" { "value" } else { it.next().unwrap_or("") };
  dist.hit(&format!("decfix:{k}:{v}"));
}

pub fn replay(toks: &[&str], out: &mut Streams, dist: &mut Dist) -> bool {
  match toks {
    ["dec.parse", h] | ["decfix.parse", h] => match unhex(h).and_then(|b| String::from_utf8(b).ok()) {
      Some(s) => {
        emit(out, dist, &s);
        true
      }
      None => false,
    },
    _ => false,
  }
}

pub fn generate(args: &Args, rng: &mut Rng, out: &mut Streams, dist: &mut Dist) {
  let bounds = boundary_ints();
  for b in &bounds {
    emit(out, dist, b);
    emit(out, dist, &format!("{b}.{b}"));
    emit(out, dist, &format!(".{b}"));
  }
  for _ in 0..args.cases {
    let s = decimal_string(rng, &bounds);
    emit(out, dist, &s);
  }
}
