//! The remaining text parsers of C31 (this stream): `SatPoint`, `InscriptionId`, `Outgoing`, and
//! the explorer query types, each called on the real code under `common::catch`.
use {
  crate::{decimal::{int_err, panic_class}, strings::*},
  bitcoin::transaction::ParseOutPointError,
  common::*,
  ord::{
    InscriptionId,
    outgoing::Outgoing,
    verif::text::{self, InscriptionIdParseError, QueryBlock, QueryInscription, QueryRune, SnafuError},
  },
  ordinals::{RuneId, SatPoint, SpacedRune, sat_point, spaced_rune},
  std::{num::ParseIntError, str::FromStr},
};

fn int_msg(msg: &str) -> &'static str {
  if msg.contains("empty string") {
    "empty"
  } else if msg.contains("invalid digit") {
    "invalid-digit"
  } else if msg.contains("too large") {
    "pos-overflow"
  } else if msg.contains("too small") {
    "neg-overflow"
  } else {
    "other"
  }
}

fn satpoint_err(e: &sat_point::Error) -> String {
  match e {
    sat_point::Error::Colon(_) => "colon".into(),
    sat_point::Error::Offset { err, .. } => format!("offset:{}", int_err(err.kind())),
    sat_point::Error::Outpoint { err, .. } => match err {
      ParseOutPointError::Txid(_) => "outpoint:txid".into(),
      ParseOutPointError::Vout(_) => "outpoint:vout".into(),
      ParseOutPointError::Format => "outpoint:format".into(),
      ParseOutPointError::TooLong => "outpoint:toolong".into(),
      ParseOutPointError::VoutNotCanonical => "outpoint:vout-noncanonical".into(),
      _ => "outpoint:other".into(),
    },
  }
}

fn iid_err(e: &InscriptionIdParseError) -> String {
  match e {
    InscriptionIdParseError::Character(_) => "character".into(),
    InscriptionIdParseError::Length(_) => "length".into(),
    InscriptionIdParseError::Separator(_) => "separator".into(),
    InscriptionIdParseError::Txid(_) => "txid".into(),
    InscriptionIdParseError::Index(err) => format!("index:{}", int_err(err.kind())),
  }
}

fn sat_err(e: &ordinals::sat::Error) -> String {
  let d = format!("{e:?}");
  if d.contains("NameRange") {
    "sat:name-range".into()
  } else if d.contains("NameCharacter") {
    "sat:name-character".into()
  } else {
    "sat:other".into()
  }
}

fn spaced_err(e: &spaced_rune::Error) -> String {
  match e {
    spaced_rune::Error::LeadingSpacer => "rune:leading-spacer".into(),
    spaced_rune::Error::TrailingSpacer => "rune:trailing-spacer".into(),
    spaced_rune::Error::DoubleSpacer => "rune:double-spacer".into(),
    spaced_rune::Error::Character(_) => "rune:character".into(),
    spaced_rune::Error::Rune(r) => {
      if format!("{r:?}").contains("Range") {
        "rune:range".into()
      } else {
        "rune:character".into()
      }
    }
  }
}

fn runeid_err(e: &<RuneId as FromStr>::Err) -> String {
  let m = e.to_string();
  if m.contains("missing separator") {
    "runeid:separator".into()
  } else if let Some(rest) = m.strip_prefix("invalid height: ") {
    format!("runeid:block:{}", int_msg(rest))
  } else if let Some(rest) = m.strip_prefix("invalid index: ") {
    format!("runeid:tx:{}", int_msg(rest))
  } else {
    "runeid:other".into()
  }
}

fn wrap(r: Result<Result<String, String>, String>) -> String {
  match r {
    Ok(Ok(v)) => format!("ok {v}"),
    Ok(Err(e)) => format!("err {e}"),
    Err(msg) => format!("panic {}", panic_class(&msg)),
  }
}

pub fn satpoint(s: &str) -> String {
  let s = s.to_string();
  wrap(catch(move || s.parse::<SatPoint>().map(|p| p.to_string()).map_err(|e| satpoint_err(&e))))
}

pub fn inscription_id(s: &str) -> String {
  let s = s.to_string();
  wrap(catch(move || s.parse::<InscriptionId>().map(|p| p.to_string()).map_err(|e| iid_err(&e))))
}

fn decimal_err(e: &(dyn std::error::Error + 'static), msg: String) -> String {
  if let Some(p) = e.downcast_ref::<ParseIntError>() {
    format!("int:{}", int_err(p.kind()))
  } else {
    msg.replace(' ', "-")
  }
}

pub fn outgoing(s: &str) -> String {
  let s = s.to_string();
  let r = catch(move || match s.parse::<Outgoing>() {
    Ok(Outgoing::Amount(_)) => Err("DELEGATED".to_string()),
    Ok(Outgoing::InscriptionId(id)) => Ok(format!("inscription {id}")),
    Ok(Outgoing::Rune { decimal, rune }) => Ok(format!(
      "rune {} {} {} {}",
      decimal.value, decimal.scale, rune.rune.0, rune.spacers
    )),
    Ok(Outgoing::Sat(sat)) => Ok(format!("sat {}", sat.0)),
    Ok(Outgoing::SatPoint(p)) => Ok(format!("satpoint {p}")),
    Err(SnafuError::SatParse { source, .. }) => Err(sat_err(&source)),
    Err(SnafuError::SatPointParse { source, .. }) => Err(format!("satpoint:{}", satpoint_err(&source))),
    Err(SnafuError::InscriptionIdParse { source, .. }) => Err(format!("inscription:{}", iid_err(&source))),
    Err(SnafuError::AmountParse { .. }) => Err("DELEGATED".to_string()),
    Err(SnafuError::RuneAmountParse { source, .. }) => {
      let msg = source.to_string();
      Err(format!("rune-amount:{}", decimal_err(source.as_ref(), msg)))
    }
    Err(SnafuError::RuneParse { source, .. }) => Err(spaced_err(&source)),
    Err(SnafuError::OutgoingParse { .. }) => Err("unrecognized".to_string()),
    Err(_) => Err("other".to_string()),
  });
  match r {
    Ok(Err(e)) if e == "DELEGATED" => "delegated amount".into(),
    r => wrap(r),
  }
}

fn anyhow_int(e: &(dyn std::error::Error + 'static)) -> Option<&'static str> {
  e.downcast_ref::<ParseIntError>().map(|p| int_err(p.kind()))
}

pub fn query_block(s: &str) -> String {
  let s = s.to_string();
  wrap(catch(move || match text::parse_query_block(&s) {
    Ok(QueryBlock::Height(h)) => Ok(format!("height {h}")),
    Ok(QueryBlock::Hash(h)) => Ok(format!("hash {h}")),
    Err(e) => Err(match anyhow_int(e.as_ref()) {
      Some(k) => format!("height:{k}"),
      None => "hash".into(),
    }),
  }))
}

pub fn query_inscription(s: &str) -> String {
  let s = s.to_string();
  wrap(catch(move || match text::parse_query_inscription(&s) {
    Ok(QueryInscription::Id(id)) => Ok(format!("id {id}")),
    Ok(QueryInscription::Number(n)) => Ok(format!("number {n}")),
    Ok(QueryInscription::Sat(sat)) => Ok(format!("sat {}", sat.0)),
    Err(e) => Err(if let Some(p) = e.downcast_ref::<InscriptionIdParseError>() {
      format!("id:{}", iid_err(p))
    } else if let Some(k) = anyhow_int(e.as_ref()) {
      format!("number:{k}")
    } else if let Some(p) = e.downcast_ref::<ordinals::sat::Error>() {
      sat_err(p)
    } else if e.to_string().starts_with("bad inscription query") {
      "bad-query".into()
    } else {
      "other".into()
    }),
  }))
}

pub fn query_rune(s: &str) -> String {
  let s = s.to_string();
  wrap(catch(move || match text::parse_query_rune(&s) {
    Ok(QueryRune::Spaced(SpacedRune { rune, spacers })) => Ok(format!("spaced {} {spacers}", rune.0)),
    Ok(QueryRune::Id(id)) => Ok(format!("id {} {}", id.block, id.tx)),
    Ok(QueryRune::Number(n)) => Ok(format!("number {n}")),
    Err(e) => Err(if let Some(p) = e.downcast_ref::<<RuneId as FromStr>::Err>() {
      runeid_err(p)
    } else if let Some(k) = anyhow_int(e.as_ref()) {
      format!("number:{k}")
    } else if let Some(p) = e.downcast_ref::<spaced_rune::Error>() {
      spaced_err(p)
    } else {
      "other".into()
    }),
  }))
}

fn text_arg(h: &str) -> Option<String> {
  String::from_utf8(unhex(h)?).ok()
}

type Parser = fn(&str) -> String;

fn parser(op: &str) -> Option<(Parser, &'static str)> {
  Some(match op {
    "sp.parse" => (satpoint, "c31.oracle.sp"),
    "iid.parse" => (inscription_id, "c31.oracle.iid"),
    "out.parse" => (outgoing, "c31.oracle.out"),
    "qb.parse" => (query_block, "c31.oracle.qb"),
    "qi.parse" => (query_inscription, "c31.oracle.qi"),
    "qr.parse" => (query_rune, "c31.oracle.qr"),
    _ => return None,
  })
}

/// one parser call + its oracle line
fn emit(out: &mut Streams, dist: &mut Dist, op: &str, s: &str) {
  let (f, oracle) = parser(op).unwrap();
  let h = hextext(s);
  let r = f(s);
  out.emit(&format!("{op} {h}"), &r);
  out.emit(&format!("{oracle} {h} {}", r.replace(' ', "|")), "true");
  let mut it = r.split(' ');
  let k = it.next().unwrap_or("");
  let v = it.next().unwrap_or("");
  let v = if k == "ok" && it.next().is_some() { v } else if k == "ok" { "value" } else { v };
  dist.hit(&format!("{op}:{k}:{v}"));
}

/// exhaustive sweep of the two Unicode classes of the regexes through the real `Outgoing`
/// parser: `<c>:A` is recognised (rune amount alternative) iff `c` is in `\d`; `1<c>:A` iff `c` is
/// in `\s` (or is itself a `\d` / `.` continuing the number, which is excluded)
fn table(kind: &str) -> String {
  let mut ranges: Vec<(u32, u32)> = Vec::new();
  for cp in 0..=0x10_FFFFu32 {
    let Some(c) = char::from_u32(cp) else { continue };
    let probe = match kind {
      "digit" => format!("{c}:A"),
      _ => format!("1{c}:A"),
    };
    let r = outgoing(&probe);
    let hit = match kind {
      "digit" => r != "err unrecognized",
      _ => r == "ok rune 1 0 0 0",
    };
    let hit = hit && !(kind == "space" && (c == '.' || c.is_ascii_digit()));
    if hit {
      match ranges.last_mut() {
        Some((_, hi)) if *hi + 1 == cp => *hi = cp,
        _ => ranges.push((cp, cp)),
      }
    }
  }
  ranges.iter().map(|(a, b)| format!("{a}-{b}")).collect::<Vec<_>>().join(",")
}

pub fn replay(toks: &[&str], out: &mut Streams, dist: &mut Dist) -> bool {
  match toks {
    [op, h] if parser(op).is_some() => match text_arg(h) {
      Some(s) => {
        emit(out, dist, op, &s);
        true
      }
      None => false,
    },
    ["re.table.digit"] => {
      out.emit("re.table.digit", &table("digit"));
      true
    }
    ["re.table.space"] => {
      out.emit("re.table.space", &table("space"));
      true
    }
    _ => false,
  }
}

// ------------------------------------------------------------------ generators

fn txid_like(rng: &mut Rng) -> String {
  let mut t = hex64(rng);
  match rng.below(14) {
    0 => {
      t.pop();
    }
    1 => t.push(char::from_digit(rng.below(16) as u32, 16).unwrap()),
    2 => {
      // non-hex ASCII somewhere
      let at = rng.below(64) as usize;
      t.replace_range(at..=at, *rng.pick(&["g", "G", " ", ":", "i", "+", "-"]));
    }
    3 => {
      // multi-byte char keeping the *byte* length at 64 (2-byte char replaces two hex digits)
      let at = rng.below(63) as usize;
      t.replace_range(at..at + 2, *rng.pick(&["é", "ß", "ñ"]));
    }
    4 => {
      // multi-byte char straddling the TXID_LEN byte boundary
      t.replace_range(63..64, *rng.pick(&["é", "漢", "🎉"]));
    }
    5 => {
      let at = rng.below(64) as usize;
      t.replace_range(at..=at, *rng.pick(&["漢", "🎉", "٣"]));
    }
    _ => {}
  }
  t
}

fn index_like(rng: &mut Rng, bounds: &[String]) -> String {
  match rng.below(10) {
    0 => String::new(),
    1 => rng.pick(&["0", "00", "01", "+0", "+1", "-0", "-1", "4294967295", "4294967296", "04294967295"]).to_string(),
    2 => rng.pick(&["٣", "1٣", "７", "١٢٣"]).to_string(),
    3..=5 => rng.below(1000).to_string(),
    _ => int_literal(rng, bounds),
  }
}

fn satpoint_string(rng: &mut Rng, bounds: &[String]) -> String {
  let base = format!("{}:{}:{}", txid_like(rng), index_like(rng, bounds), index_like(rng, bounds));
  match rng.below(12) {
    0 => mutate(rng, &base),
    1 => base.replacen(':', "", 1),
    2 => format!("{base}:{}", index_like(rng, bounds)),
    3 => base.replace(':', "::"),
    4 => random_string(rng),
    _ => base,
  }
}

fn iid_string(rng: &mut Rng, bounds: &[String]) -> String {
  let sep = match rng.below(12) {
    0 => ":",
    1 => "I",
    2 => "é",
    3 => "",
    4 => "ii",
    _ => "i",
  };
  let base = format!("{}{sep}{}", txid_like(rng), index_like(rng, bounds));
  match rng.below(12) {
    0 => mutate(rng, &base),
    1 => random_string(rng),
    2 => base.chars().take(rng.below(70) as usize).collect(),
    _ => base,
  }
}

fn sat_name(rng: &mut Rng) -> String {
  match rng.below(8) {
    0 => rng.pick(&["a", "z", "nvtdijuwxlp", "nvtdijuwxlq", "nvtdijuwxlo", "zzzzzzzzzzz", "aaaaaaaaaaa", "aaaaaaaaaaaa", "bgmbqkqiqsxl"]).to_string(),
    _ => {
      let n = rng.range(1, 12) as usize;
      (0..n).map(|_| char::from(b'a' + rng.below(26) as u8)).collect()
    }
  }
}

fn spaced_rune(rng: &mut Rng) -> String {
  let n = match rng.below(10) {
    0 => rng.range(26, 40) as usize,
    1 => 0,
    _ => rng.range(1, 28) as usize,
  };
  let mut s = String::new();
  for i in 0..n {
    s.push(char::from(b'A' + if rng.chance(1, 6) { 25 } else { rng.below(26) as u8 }));
    if i + 1 < n && rng.chance(1, 5) {
      s.push(if rng.chance(1, 2) { '•' } else { '.' });
      if rng.chance(1, 20) {
        s.push('.');
      }
    }
  }
  match rng.below(20) {
    0 => format!(".{s}"),
    1 => format!("{s}•"),
    2 => s.to_lowercase(),
    _ => s,
  }
}

fn number_like(rng: &mut Rng, bounds: &[String]) -> String {
  match rng.below(8) {
    0 => crate::decimal::decimal_string(rng, bounds),
    1 => format!(".{}", digits(rng, 3)),
    2 => format!("{}.", rng.below(100)),
    3 => rng.pick(&["٣", "1.٣", "７.5", "1..2", "1.2.3", "+1", "1e3"]).to_string(),
    4 => {
      let n = rng.range(1, 40) as usize;
      format!("{}.{}", rng.below(1000), digits(rng, n))
    }
    _ => rng.below(100000).to_string(),
  }
}

fn outgoing_string(rng: &mut Rng, bounds: &[String]) -> String {
  match rng.below(14) {
    0 | 1 => sat_name(rng),
    2 | 3 => satpoint_string(rng, bounds),
    4 | 5 => iid_string(rng, bounds),
    6 | 7 => {
      let unit = *rng.pick(&["bit", "btc", "cbtc", "mbtc", "msat", "nbtc", "pbtc", "sat", "satoshi", "ubtc", "BTC", "xbt", ""]);
      let sp = *rng.pick(&["", " ", "  ", "\u{A0}", "\t"]);
      let s = if rng.chance(1, 3) { "s" } else { "" };
      format!("{}{sp}{unit}{s}", number_like(rng, bounds))
    }
    8..=11 => {
      let l = *rng.pick(&["", "", " ", "\u{A0}", "\u{2003}  ", "\n"]);
      let r = *rng.pick(&["", "", " ", "\u{3000}", "\t "]);
      format!("{}{l}:{r}{}", number_like(rng, bounds), spaced_rune(rng))
    }
    12 => {
      let base = format!("{}:{}", number_like(rng, bounds), spaced_rune(rng));
      mutate(rng, &base)
    }
    _ => random_string(rng),
  }
}

fn query_block_string(rng: &mut Rng, bounds: &[String]) -> String {
  match rng.below(8) {
    0..=2 => txid_like(rng),
    3 => digits(rng, 64),
    4 => index_like(rng, bounds),
    5 => rng.pick(&["0", "4294967295", "4294967296", "+7", "-1", "", " 1"]).to_string(),
    6 => int_literal(rng, bounds),
    _ => random_string(rng),
  }
}

fn query_inscription_string(rng: &mut Rng, bounds: &[String]) -> String {
  match rng.below(10) {
    0..=2 => iid_string(rng, bounds),
    3 => rng
      .pick(&["0", "-0", "-1", "2147483647", "2147483648", "-2147483648", "-2147483649", "+1", "--1", "-", "00000000000000000000000000000000000000000000000000000000000000000001"])
      .to_string(),
    4 => format!("-{}", int_literal(rng, bounds)),
    5 => int_literal(rng, bounds),
    6 => {
      let n = rng.range(60, 66) as usize;
      format!("{}{}", if rng.chance(1, 2) { "-" } else { "" }, digits(rng, n))
    }
    7 | 8 => sat_name(rng),
    _ => random_string(rng),
  }
}

fn query_rune_string(rng: &mut Rng, bounds: &[String]) -> String {
  match rng.below(10) {
    0..=2 => format!("{}:{}", index_like(rng, bounds), index_like(rng, bounds)),
    3 => format!("{}:{}:{}", rng.below(10), rng.below(10), rng.below(10)),
    4 => rng.pick(&["0:1", "0:0", "18446744073709551615:4294967295", "18446744073709551616:0", "1:4294967296", ":", "1:", ":1", "-1", "-", "+5"]).to_string(),
    5 => int_literal(rng, bounds),
    6..=8 => spaced_rune(rng),
    _ => random_string(rng),
  }
}

pub fn generate(args: &Args, rng: &mut Rng, out: &mut Streams, dist: &mut Dist) {
  let bounds = boundary_ints();
  if args.get("tables").is_some_and(|v| v != "0") {
    out.emit("re.table.digit", &table("digit"));
    out.emit("re.table.space", &table("space"));
  }
  let which = args.stream.as_str();
  for _ in 0..args.cases {
    match which {
      "ids" => {
        if rng.chance(1, 2) {
          let s = satpoint_string(rng, &bounds);
          emit(out, dist, "sp.parse", &s);
        } else {
          let s = iid_string(rng, &bounds);
          emit(out, dist, "iid.parse", &s);
        }
      }
      "outgoing" => {
        let s = outgoing_string(rng, &bounds);
        emit(out, dist, "out.parse", &s);
      }
      _ => match rng.below(3) {
        0 => {
          let s = query_block_string(rng, &bounds);
          emit(out, dist, "qb.parse", &s);
        }
        1 => {
          let s = query_inscription_string(rng, &bounds);
          emit(out, dist, "qi.parse", &s);
        }
        _ => {
          let s = query_rune_string(rng, &bounds);
          emit(out, dist, "qr.parse", &s);
        }
      },
    }
  }
}
