//! `ord::decimal::Decimal` (from_str / to_integer / Display) and `ordinals::Pile` Display.
use {
  crate::strings::*,
  common::*,
  ord::decimal::Decimal,
  ordinals::Pile,
  std::{fmt::Write, num::IntErrorKind},
};

pub fn panic_class(msg: &str) -> &'static str {
  if msg.contains("multiply with overflow") {
    "mul"
  } else if msg.contains("add with overflow") {
    "add"
  } else if msg.contains("subtract with overflow") {
    "sub"
  } else if msg.contains("shift left with overflow") {
    "shl"
  } else if msg.contains("unwrap()") {
    "unwrap"
  } else if msg.contains("byte index") || msg.contains("char boundary") {
    "slice"
  } else {
    "other"
  }
}

pub fn int_err(kind: &IntErrorKind) -> &'static str {
  match kind {
    IntErrorKind::Empty => "empty",
    IntErrorKind::InvalidDigit => "invalid-digit",
    IntErrorKind::PosOverflow => "pos-overflow",
    IntErrorKind::NegOverflow => "neg-overflow",
    _ => "other",
  }
}

pub fn parse(s: &str) -> String {
  let owned = s.to_string();
  match catch(move || owned.parse::<Decimal>()) {
    Ok(Ok(d)) => format!("ok {} {}", d.value, d.scale),
    Ok(Err(e)) => {
      if let Some(p) = e.downcast_ref::<std::num::ParseIntError>() {
        format!("err int:{}", int_err(p.kind()))
      } else {
        format!("err {}", e.to_string().replace(' ', "-"))
      }
    }
    Err(msg) => format!("panic {}", panic_class(&msg)),
  }
}

pub fn to_integer(value: u128, scale: u8, divisibility: u8) -> String {
  match catch(move || Decimal { value, scale }.to_integer(divisibility)) {
    Ok(Ok(n)) => format!("ok {n}"),
    Ok(Err(e)) => format!("err {}", e.to_string().replace(' ', "-")),
    Err(msg) => format!("panic {}", panic_class(&msg)),
  }
}

pub fn display(value: u128, scale: u8) -> String {
  match catch(move || {
    let mut s = String::new();
    write!(s, "{}", Decimal { value, scale }).map(|_| s)
  }) {
    Ok(Ok(s)) => format!("ok {}", hextext(&s)),
    Ok(Err(_)) => "err fmt".into(),
    Err(msg) => format!("panic {}", panic_class(&msg)),
  }
}

/// number part of `Pile`'s Display: everything before the `\u{A0}` + symbol suffix
pub fn pile_number(amount: u128, divisibility: u8, symbol: Option<char>) -> String {
  match catch(move || Pile { amount, divisibility, symbol }.to_string()) {
    Ok(s) => {
      let suffix = format!("\u{A0}{}", symbol.unwrap_or('¤'));
      match s.strip_suffix(&suffix) {
        Some(num) => format!("ok {}", hextext(num)),
        None => "err suffix".into(),
      }
    }
    Err(msg) => format!("panic {}", panic_class(&msg)),
  }
}

fn text_arg(h: &str) -> Option<String> {
  String::from_utf8(unhex(h)?).ok()
}

pub fn answer(toks: &[&str]) -> String {
  match toks {
    ["dec.parse", h] => match text_arg(h) {
      Some(s) => parse(&s),
      None => "bad-op".into(),
    },
    ["dec.toint", v, sc, d] => match (v.parse(), sc.parse(), d.parse()) {
      (Ok(v), Ok(sc), Ok(d)) => to_integer(v, sc, d),
      _ => "bad-op".into(),
    },
    ["dec.display", v, sc] => match (v.parse(), sc.parse()) {
      (Ok(v), Ok(sc)) => display(v, sc),
      _ => "bad-op".into(),
    },
    ["pile.num", a, d] => match (a.parse(), d.parse()) {
      (Ok(a), Ok(d)) => pile_number(a, d, None),
      _ => "bad-op".into(),
    },
    [op, ..] if op.contains(".oracle.") => "true".into(),
    _ => "bad-op".into(),
  }
}

fn replay(toks: &[&str], out: &mut Streams, dist: &mut Dist, c31: bool) -> bool {
  match toks {
    ["dec.parse", h] => match text_arg(h) {
      Some(s) => {
        for d in [0u8, 2, 38] {
          emit_string(out, dist, &s, d, c31);
        }
        true
      }
      None => false,
    },
    ["pile.num", a, d] => match (a.parse(), d.parse()) {
      (Ok(a), Ok(d)) => {
        emit_roundtrip(out, dist, &mut Rng::new(0), a, d);
        true
      }
      _ => false,
    },
    _ => {
      let a = answer(toks);
      if a == "bad-op" {
        return false;
      }
      out.emit(&toks.join(" "), &a);
      true
    }
  }
}

pub fn replay_amount(toks: &[&str], out: &mut Streams, dist: &mut Dist) -> bool {
  replay(toks, out, dist, false)
}

pub fn replay_decimal(toks: &[&str], out: &mut Streams, dist: &mut Dist) -> bool {
  replay(toks, out, dist, true)
}

fn colon(s: &str) -> String {
  s.replace(' ', ":")
}

/// print → parse → to_integer on the real code, with the round-trip oracle
fn emit_roundtrip(out: &mut Streams, dist: &mut Dist, rng: &mut Rng, a: u128, d: u8) {
  let symbol = match rng.below(4) {
    0 => Some('$'),
    1 => Some('🎉'),
    2 => Some('\u{A0}'),
    _ => None,
  };
  let printed = pile_number(a, d, symbol);
  out.emit(&format!("pile.num {a} {d}"), &printed);
  let Some(hexnum) = printed.strip_prefix("ok ") else {
    dist.hit("pile_panic");
    return;
  };
  let text = text_arg(hexnum).unwrap();
  let parsed = parse(&text);
  out.emit(&format!("dec.parse {hexnum}"), &parsed);
  let toks: Vec<&str> = parsed.split(' ').collect();
  let conv = match toks.as_slice() {
    ["ok", v, sc] => {
      let r = to_integer(v.parse().unwrap(), sc.parse().unwrap(), d);
      out.emit(&format!("dec.toint {v} {sc} {d}"), &r);
      r
    }
    _ => parsed.clone(),
  };
  out.emit(&format!("c34.oracle.rt {a} {d} {hexnum} {}", colon(&conv)), "true");
  dist.hit(if text.contains('.') { "rt_fraction" } else { "rt_whole" });
  dist.hit(&format!("rt_div_{d}"));
}

/// parse an arbitrary string, convert at `d`, with the exactness oracle
fn emit_string(out: &mut Streams, dist: &mut Dist, s: &str, d: u8, c31: bool) {
  let h = hextext(s);
  let parsed = parse(s);
  out.emit(&format!("dec.parse {h}"), &parsed);
  if c31 {
    out.emit(&format!("c31.oracle.dec {h} {}", colon(&parsed)), "true");
  }
  let toks: Vec<&str> = parsed.split(' ').collect();
  match toks.as_slice() {
    ["ok", v, sc] => {
      let r = to_integer(v.parse().unwrap(), sc.parse().unwrap(), d);
      out.emit(&format!("dec.toint {v} {sc} {d}"), &r);
      if !c31 {
        out.emit(&format!("c34.oracle.toint {h} {d} {} {}", colon(&parsed), colon(&r)), "true");
      }
      dist.hit("parse_ok");
      dist.hit(match r.split(' ').nth(1) {
        Some("excessive-precision") => "toint_excessive_precision",
        Some("amount-out-of-range") => "toint_amount_out_of_range",
        Some("divisibility-out-of-range") => "toint_divisibility_out_of_range",
        _ => "toint_ok",
      });
      let disp = display(v.parse().unwrap(), sc.parse().unwrap());
      out.emit(&format!("dec.display {v} {sc}"), &disp);
    }
    ["err", e] => {
      if !c31 {
        out.emit(&format!("c34.oracle.toint {h} {d} {} -", colon(&parsed)), "true");
      }
      dist.hit(&format!("parse_err_{e}"));
    }
    ["panic", c] => {
      if !c31 {
        out.emit(&format!("c34.oracle.toint {h} {d} {} -", colon(&parsed)), "true");
      }
      dist.hit(&format!("parse_panic_{c}"));
    }
    _ => {}
  }
}

fn fraction(rng: &mut Rng) -> String {
  let mut f = match rng.below(8) {
    0 => String::new(),
    1..=3 => {
      let n = rng.range(1, 40) as usize;
      digits(rng, n)
    }
    4 => {
      // leading zeros then a few digits: small value, large scale
      let hi = if rng.chance(1, 3) { 300 } else { 60 };
      let z = rng.range(1, hi) as usize;
      let n = rng.range(1, 4) as usize;
      format!("{}{}", "0".repeat(z), digits(rng, n))
    }
    5 => {
      let n = rng.range(30, 300) as usize;
      digits(rng, n)
    }
    6 => rng.below(1000).to_string(),
    _ => "0".repeat(rng.range(1, 60) as usize),
  };
  if rng.chance(1, 4) {
    let hi = if rng.chance(1, 5) { 60 } else { 6 };
    f.push_str(&"0".repeat(rng.range(1, hi) as usize));
  }
  match rng.below(20) {
    0 => format!("+{f}"),
    1 => format!("-{f}"),
    _ => f,
  }
}

pub fn decimal_string(rng: &mut Rng, bounds: &[String]) -> String {
  match rng.below(12) {
    0 => int_literal(rng, bounds),
    1..=6 => {
      let i = if rng.chance(1, 8) { String::new() } else { int_literal(rng, bounds) };
      format!("{i}.{}", fraction(rng))
    }
    7 => {
      // small integer part, scale near the 38/39 limit
      let i = rng.below(400).to_string();
      let n = rng.range(34, 42) as usize;
      let mut f = digits(rng, n);
      if rng.chance(1, 2) {
        f = format!("{}{}", "0".repeat(n - 1), rng.range(1, 9));
      }
      format!("{i}.{f}")
    }
    8 | 9 => {
      let i = int_literal(rng, bounds);
      let base = format!("{i}.{}", fraction(rng));
      mutate(rng, &base)
    }
    10 => {
      let base = int_literal(rng, bounds);
      mutate(rng, &base)
    }
    _ => random_string(rng),
  }
}

const FINDING_WITNESSES: &[&str] = &[
  "340282366920938463463374607431768211455.5",
  "1.+5",
  ".",
  "",
  "+",
  "-",
  "+.5",
  "+1.5",
  "1.",
  ".1",
  "1.10",
  "0.00000",
  "1.-5",
  "1.5.5",
  " 0.1 ",
];

/// stream `amount` (C34): round trips of printed amounts, and conversion of decimal strings
pub fn generate_amount(args: &Args, rng: &mut Rng, out: &mut Streams, dist: &mut Dist) {
  let bounds = boundary_ints();
  // boundary amounts at every divisibility (and the divisibilities that make Display panic)
  let mut amounts: Vec<u128> = vec![0, 1, 9, 10, 11, u128::MAX, u128::MAX - 1, 1 << 64, (1 << 64) - 1];
  for k in 0..=38u32 {
    let p = 10u128.pow(k);
    amounts.extend([p - 1, p, p + 1, p.saturating_mul(3), p.saturating_mul(10) / 2]);
  }
  for (i, a) in amounts.iter().enumerate() {
    for d in 0..=38u8 {
      if (i + usize::from(d)) % 3 == usize::try_from(args.seed % 3).unwrap() || *a == u128::MAX {
        emit_roundtrip(out, dist, rng, *a, d);
      }
    }
  }
  for d in [39u8, 40, 255] {
    emit_roundtrip(out, dist, rng, 1, d);
  }
  for w in FINDING_WITNESSES {
    for d in [0u8, 1, 2, 38] {
      emit_string(out, dist, w, d, false);
    }
  }
  for case in 0..args.cases {
    if case % 2 == 0 {
      let a = match rng.below(4) {
        0 => {
          // a multiple of a power of ten (trailing zeros to strip)
          let k = rng.below(39) as u32;
          (rng.u128_any_width() / 10u128.pow(k)).saturating_mul(10u128.pow(k))
        }
        _ => rng.u128_any_width(),
      };
      let d = rng.below(39) as u8;
      emit_roundtrip(out, dist, rng, a, d);
    } else {
      let s = decimal_string(rng, &bounds);
      let d = if rng.chance(1, 12) { rng.below(256) as u8 } else { rng.below(39) as u8 };
      emit_string(out, dist, &s, d, false);
    }
  }
}

/// stream `decimal` (C31, decimal part): `Decimal::from_str` on grammar-directed and random
/// strings with the totality / denotation oracle
pub fn generate_decimal(args: &Args, rng: &mut Rng, out: &mut Streams, dist: &mut Dist) {
  let bounds = boundary_ints();
  for w in FINDING_WITNESSES {
    emit_string(out, dist, w, 0, true);
  }
  for b in &bounds {
    emit_string(out, dist, b, 0, true);
    emit_string(out, dist, &format!("{b}.{b}"), 38, true);
    emit_string(out, dist, &format!(".{b}"), 38, true);
    emit_string(out, dist, &format!("{b}.0"), 0, true);
  }
  for case in 0..args.cases {
    let _ = case;
    let s = decimal_string(rng, &bounds);
    let d = rng.below(39) as u8;
    emit_string(out, dist, &s, d, true);
  }
}
