//! Correspondence harness for work stream "text": decimal amounts / pile printing (C34) and the
//! text parsers of C31 not covered by the sat / rune engines.  Runs the real code in-process
//! (under `common::catch` wherever a panic is possible) and writes request lines (`ops.txt`)
//! plus the implementation's answers (`impl.out`).
use common::*;

mod candidate;
mod decimal;
mod parsers;
mod strings;

/// re-answer one stored request line.  Oracle lines are *derived*: a stored input line is expanded
/// exactly as the generator would (fresh oracle lines computed from the implementation's current
/// answers), and stored oracle lines are ignored — so a corpus witness stops failing once the
/// implementation is repaired.
type Replay = fn(&[&str], &mut Streams, &mut Dist) -> bool;
type Generate = fn(&Args, &mut Rng, &mut Streams, &mut Dist);

fn stream(name: &str) -> (Replay, Generate) {
  match name {
    "amount" => (decimal::replay_amount, decimal::generate_amount),
    "decimal" => (decimal::replay_decimal, decimal::generate_decimal),
    "decfix" => (candidate::replay, candidate::generate),
    "ids" | "outgoing" | "query" => (parsers::replay, parsers::generate),
    s => panic!("unknown stream {s}"),
  }
}

fn main() {
  let args = Args::parse();
  let mut out = Streams::create(&args.out);
  let mut dist = Dist::default();
  let mut rng = Rng::new(args.seed);
  let (replay, generate) = stream(&args.stream);
  silence_panics();
  if let Some(path) = &args.replay {
    for line in replay_lines(path) {
      let toks: Vec<&str> = line.split(' ').filter(|t| !t.is_empty()).collect();
      if toks.first().is_some_and(|op| op.contains(".oracle.")) {
        continue;
      }
      if !replay(&toks, &mut out, &mut dist) {
        out.emit(&line, "bad-op");
      }
    }
  } else {
    generate(&args, &mut rng, &mut out, &mut dist);
  }
  dist.write(&args.out);
  out.finish();
}
