//! Shared plumbing for the correspondence harnesses: one PRNG, hex, the ops/impl writers.
use std::{
  fs::File,
  io::{BufWriter, Write},
  path::{Path, PathBuf},
};

/// splitmix64 — every random choice of a run derives from one state seeded by VERIF_SEED.
#[derive(Clone)]
pub struct Rng(pub u64);

impl Rng {
  pub fn new(seed: u64) -> Self {
    Rng(seed ^ 0x9e37_79b9_7f4a_7c15)
  }
  pub fn next_u64(&mut self) -> u64 {
    self.0 = self.0.wrapping_add(0x9e37_79b9_7f4a_7c15);
    let mut z = self.0;
    z = (z ^ (z >> 30)).wrapping_mul(0xbf58_476d_1ce4_e5b9);
    z = (z ^ (z >> 27)).wrapping_mul(0x94d0_49bb_1331_11eb);
    z ^ (z >> 31)
  }
  pub fn next_u128(&mut self) -> u128 {
    (u128::from(self.next_u64()) << 64) | u128::from(self.next_u64())
  }
  /// uniform in 0..n (n > 0)
  pub fn below(&mut self, n: u64) -> u64 {
    self.next_u64() % n
  }
  pub fn range(&mut self, lo: u64, hi_incl: u64) -> u64 {
    lo + self.below(hi_incl - lo + 1)
  }
  pub fn chance(&mut self, num: u64, den: u64) -> bool {
    self.below(den) < num
  }
  pub fn pick<'a, T>(&mut self, xs: &'a [T]) -> &'a T {
    &xs[self.below(xs.len() as u64) as usize]
  }
  pub fn bytes(&mut self, n: usize) -> Vec<u8> {
    (0..n).map(|_| self.next_u64() as u8).collect()
  }
  /// a u128 with a random bit width (so that small and huge values are both common)
  pub fn u128_any_width(&mut self) -> u128 {
    let bits = self.below(129) as u32;
    if bits == 0 {
      0
    } else if bits == 128 {
      self.next_u128()
    } else {
      self.next_u128() & ((1u128 << bits) - 1)
    }
  }
  pub fn u64_any_width(&mut self) -> u64 {
    let bits = self.below(65) as u32;
    if bits == 0 {
      0
    } else if bits == 64 {
      self.next_u64()
    } else {
      self.next_u64() & ((1u64 << bits) - 1)
    }
  }
  pub fn fork(&mut self) -> Rng {
    Rng(self.next_u64())
  }
}

pub fn hex(bytes: &[u8]) -> String {
  if bytes.is_empty() {
    return "-".into();
  }
  let mut s = String::with_capacity(bytes.len() * 2);
  for b in bytes {
    s.push_str(&format!("{b:02x}"));
  }
  s
}

pub fn unhex(s: &str) -> Option<Vec<u8>> {
  if s == "-" {
    return Some(Vec::new());
  }
  if s.len() % 2 != 0 {
    return None;
  }
  (0..s.len() / 2)
    .map(|i| u8::from_str_radix(&s[2 * i..2 * i + 2], 16).ok())
    .collect()
}

/// text arguments travel hex-encoded so spaces/newlines/non-ASCII survive the line protocol
pub fn hextext(s: &str) -> String {
  hex(s.as_bytes())
}

/// Writer of the two parallel streams: `ops.txt` (requests, fed to the Lean driver) and
/// `impl.out` (what the implementation answered, one line per request).
pub struct Streams {
  ops: BufWriter<File>,
  imp: BufWriter<File>,
  pub count: u64,
  pub dir: PathBuf,
}

impl Streams {
  pub fn create(dir: &Path) -> Self {
    std::fs::create_dir_all(dir).unwrap();
    Streams {
      ops: BufWriter::new(File::create(dir.join("ops.txt")).unwrap()),
      imp: BufWriter::new(File::create(dir.join("impl.out")).unwrap()),
      count: 0,
      dir: dir.to_path_buf(),
    }
  }
  pub fn emit(&mut self, op: &str, imp: &str) {
    debug_assert!(!op.contains('\n') && !imp.contains('\n'));
    writeln!(self.ops, "{op}").unwrap();
    writeln!(self.imp, "{imp}").unwrap();
    self.count += 1;
  }
  pub fn finish(mut self) {
    self.ops.flush().unwrap();
    self.imp.flush().unwrap();
  }
}

/// Minimal argument parsing shared by all engines:
///   <engine-bin> <stream> --seed N --cases N --out DIR [--replay FILE]
pub struct Args {
  pub stream: String,
  pub seed: u64,
  pub cases: u64,
  pub out: PathBuf,
  pub replay: Option<PathBuf>,
  pub extra: Vec<(String, String)>,
}

impl Args {
  pub fn parse() -> Self {
    let mut it = std::env::args().skip(1);
    let stream = it.next().expect("usage: <stream> --seed N --cases N --out DIR");
    let mut a = Args {
      stream,
      seed: 0,
      cases: 1000,
      out: PathBuf::from("."),
      replay: None,
      extra: Vec::new(),
    };
    while let Some(k) = it.next() {
      let v = it.next().unwrap_or_else(|| panic!("missing value for {k}"));
      match k.as_str() {
        "--seed" => a.seed = v.parse().unwrap(),
        "--cases" => a.cases = v.parse().unwrap(),
        "--out" => a.out = PathBuf::from(v),
        "--replay" => a.replay = Some(PathBuf::from(v)),
        _ => a.extra.push((k.trim_start_matches("--").to_string(), v)),
      }
    }
    a
  }
  pub fn get(&self, k: &str) -> Option<&str> {
    self.extra.iter().find(|(a, _)| a == k).map(|(_, v)| v.as_str())
  }
}

/// Branch/shape counters written next to the streams so the evidence file can show the
/// measured input distribution.
#[derive(Default)]
pub struct Dist(pub std::collections::BTreeMap<String, u64>);

impl Dist {
  pub fn hit(&mut self, k: &str) {
    *self.0.entry(k.to_string()).or_insert(0) += 1;
  }
  pub fn add(&mut self, k: &str, n: u64) {
    *self.0.entry(k.to_string()).or_insert(0) += n;
  }
  pub fn write(&self, dir: &Path) {
    let mut s = String::from("{");
    for (i, (k, v)) in self.0.iter().enumerate() {
      if i > 0 {
        s.push(',');
      }
      s.push_str(&format!("\"{k}\":{v}"));
    }
    s.push('}');
    std::fs::write(dir.join("dist.json"), s).unwrap();
  }
}

/// Run `f` catching panics; the panic message (first line) is returned as Err.
pub fn catch<T>(f: impl FnOnce() -> T + std::panic::UnwindSafe) -> Result<T, String> {
  match std::panic::catch_unwind(f) {
    Ok(v) => Ok(v),
    Err(e) => {
      let msg = if let Some(s) = e.downcast_ref::<&str>() {
        (*s).to_string()
      } else if let Some(s) = e.downcast_ref::<String>() {
        s.clone()
      } else {
        "unknown".into()
      };
      Err(msg.lines().next().unwrap_or("").to_string())
    }
  }
}

/// Install a panic hook that prints nothing (cases that probe for panics would otherwise spam
/// stderr).  Call only after setup that must not fail silently.
pub fn silence_panics() {
  std::panic::set_hook(Box::new(|_| {}));
}

/// request lines of a replay/corpus file (comment lines start with '#')
pub fn replay_lines(path: &Path) -> Vec<String> {
  std::fs::read_to_string(path)
    .unwrap()
    .lines()
    .filter(|l| !l.starts_with('#') && !l.trim().is_empty())
    .map(|l| l.to_string())
    .collect()
}
