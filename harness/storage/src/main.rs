//! Correspondence harness for C35 (index storage encodings): runs the real `Entry::{store,load}`
//! implementations, the real `UtxoEntryBuf` / `UtxoEntry::parse` / `merged` (through the hooks in
//! `ord::verif::entry` and `ord::index::verif`) and the real `Index::{encode,decode}_rune_balance`,
//! and writes request lines (`ops.txt`) plus the implementation's answers (`impl.out`).
use common::*;

mod entry;
mod utxo;

fn main() {
  let args = Args::parse();
  let mut out = Streams::create(&args.out);
  let mut dist = Dist::default();
  let mut rng = Rng::new(args.seed);
  let mut ctx = utxo::Ctx::new(&args);
  // panics inside `guard` (probed on purpose) are silent; any other panic is a harness bug and
  // is printed before the process dies
  std::panic::set_hook(Box::new(|info| {
    if !QUIET.with(|q| q.get()) {
      eprintln!("eng_storage: {info}");
    }
  }));
  if let Some(path) = &args.replay {
    for line in replay_lines(path) {
      let line = line.as_str();
      let toks: Vec<&str> = line.split(' ').filter(|t| !t.is_empty()).collect();
      let ans = answer(&mut ctx, &toks);
      out.emit(line, &ans);
    }
  } else {
    match args.stream.as_str() {
      "entry" => entry::generate(&args, &mut rng, &mut out, &mut dist),
      "utxo" => utxo::generate(&args, &mut ctx, &mut rng, &mut out, &mut dist),
      s => panic!("unknown stream {s}"),
    }
  }
  dist.write(&args.out);
  out.finish();
  ctx.cleanup();
}

/// the implementation's answer to one request line (generation and --replay)
pub fn answer(ctx: &mut utxo::Ctx, toks: &[&str]) -> String {
  match toks {
    [op, ..] if op.contains(".oracle.") => "true".into(),
    [op, ..] if op.starts_with("storage.utxo.") => utxo::answer(ctx, toks),
    _ => entry::answer(toks),
  }
}

thread_local! {
  static QUIET: std::cell::Cell<bool> = const { std::cell::Cell::new(false) };
}

/// run `f` catching (and not printing) a panic
pub fn guard<T>(f: impl FnOnce() -> T) -> Result<T, String> {
  QUIET.with(|q| q.set(true));
  let r = catch(std::panic::AssertUnwindSafe(f));
  QUIET.with(|q| q.set(false));
  r
}

/// small, stable classes for panic messages of the dev profile
pub fn classify(msg: &str) -> &'static str {
  if msg.contains("self.state == expected_state") || msg.contains("self.state == State::Valid") {
    "assert-state"
  } else if msg.contains("num_sat_ranges * 11 == sat_ranges.len()") {
    "assert-len"
  } else if msg.contains("total_value() == 0") {
    "assert-value"
  } else if msg.contains("script_pubkey().is_empty()") {
    "assert-script"
  } else if msg.starts_with("assertion failed: index.index_")
    || msg.starts_with("assertion failed: !index.index_")
  {
    "assert-flag"
  } else if msg.contains("sat ranges are missing") {
    "missing"
  } else if msg.contains("`Option::unwrap()` on a `None`") {
    "none"
  } else if msg.contains("TryFromIntError") {
    "tryinto"
  } else if msg.contains("Unterminated") || msg.contains("Overlong") || msg.contains("Overflow") {
    "varint"
  } else if msg.contains("attempt to multiply with overflow") {
    "mul-overflow"
  } else if msg.contains("attempt to add with overflow") {
    "add-overflow"
  } else if msg.contains("attempt to subtract with overflow") {
    "sub-overflow"
  } else if msg.contains("out of range for slice") || msg.contains("slice index starts at") {
    "slice"
  } else {
    "other"
  }
}

pub fn outcome<T>(r: Result<T, String>, show: impl FnOnce(T) -> String) -> String {
  match r {
    Ok(v) => format!("ok {}", show(v)),
    Err(m) => {
      let c = classify(&m);
      if c == "other" {
        format!("panic other:{}", m.replace(' ', "_"))
      } else {
        format!("panic {c}")
      }
    }
  }
}
