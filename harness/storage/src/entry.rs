//! `Entry::{store,load}` of src/index/entry.rs (via `ord::verif::entry`) and the rune balance
//! codec of src/index.rs.
use {
  bitcoin::{
    BlockHash, CompactTarget, OutPoint, TxMerkleNode, Txid,
    block::{Header, Version},
    hashes::Hash,
  },
  common::*,
  ord::{Index, InscriptionId, RuneEntry, verif::InscriptionEntry, verif::entry as hook},
  ordinals::{Rune, RuneId, Sat, SatPoint, SpacedRune, Terms, varint},
};

// ---------- text helpers ----------

fn opt<T: std::str::FromStr>(s: &str) -> Option<Option<T>> {
  if s == "x" { Some(None) } else { s.parse().ok().map(Some) }
}

fn show_opt<T: ToString>(o: Option<T>) -> String {
  o.map(|v| v.to_string()).unwrap_or_else(|| "x".into())
}

fn arr<const N: usize>(s: &str) -> Option<[u8; N]> {
  unhex(s)?.try_into().ok()
}

fn txid(s: &str) -> Option<Txid> {
  arr::<32>(s).map(Txid::from_byte_array)
}

fn csv_u32(s: &str) -> Option<Vec<u32>> {
  if s == "-" {
    return Some(Vec::new());
  }
  s.split(',').map(|t| t.parse().ok()).collect()
}

fn show_csv(v: &[u32]) -> String {
  if v.is_empty() {
    "-".into()
  } else {
    v.iter().map(|x| x.to_string()).collect::<Vec<_>>().join(",")
  }
}

fn sym(s: &str) -> Option<Option<char>> {
  if s == "x" {
    Some(None)
  } else {
    s.parse::<u32>().ok().and_then(char::from_u32).map(Some)
  }
}

fn terms_struct(s: &str) -> Option<Option<Terms>> {
  if s == "none" {
    return Some(None);
  }
  let p: Vec<&str> = s.split(':').collect();
  if p.len() != 7 || p[0] != "T" {
    return None;
  }
  Some(Some(Terms {
    amount: opt(p[1])?,
    cap: opt(p[2])?,
    height: (opt(p[3])?, opt(p[4])?),
    offset: (opt(p[5])?, opt(p[6])?),
  }))
}

fn show_terms_struct(t: Option<Terms>) -> String {
  match t {
    None => "none".into(),
    Some(t) => format!(
      "T:{}:{}:{}:{}:{}:{}",
      show_opt(t.amount),
      show_opt(t.cap),
      show_opt(t.height.0),
      show_opt(t.height.1),
      show_opt(t.offset.0),
      show_opt(t.offset.1)
    ),
  }
}

fn terms_value(s: &str) -> Option<Option<ord::verif::TermsEntryValue>> {
  if s == "none" {
    return Some(None);
  }
  let p: Vec<&str> = s.split(':').collect();
  if p.len() != 7 || p[0] != "V" {
    return None;
  }
  Some(Some((opt(p[1])?, (opt(p[2])?, opt(p[3])?), opt(p[4])?, (opt(p[5])?, opt(p[6])?))))
}

fn show_terms_value(t: Option<ord::verif::TermsEntryValue>) -> String {
  match t {
    None => "none".into(),
    Some((cap, height, amount, offset)) => format!(
      "V:{}:{}:{}:{}:{}:{}",
      show_opt(cap),
      show_opt(height.0),
      show_opt(height.1),
      show_opt(amount),
      show_opt(offset.0),
      show_opt(offset.1)
    ),
  }
}

fn show_header(h: &Header) -> String {
  format!(
    "{} {} {} {} {} {}",
    h.version.to_consensus(),
    hex(&h.prev_blockhash.to_byte_array()),
    hex(&h.merkle_root.to_byte_array()),
    h.time,
    h.bits.to_consensus(),
    h.nonce
  )
}

fn show_rune_entry(e: &RuneEntry) -> String {
  format!(
    "{} {} {} {} {} {} {} {} {} {} {} {} {}",
    e.block,
    e.burned,
    e.divisibility,
    hex(&e.etching.to_byte_array()),
    e.mints,
    e.number,
    e.premine,
    e.spaced_rune.rune.0,
    e.spaced_rune.spacers,
    show_opt(e.symbol.map(u32::from)),
    show_terms_struct(e.terms),
    e.timestamp,
    e.turbo
  )
}

fn show_rune_entry_value(v: &ord::verif::RuneEntryValue) -> String {
  format!(
    "{} {} {} {} {} {} {} {} {} {} {} {} {} {}",
    v.0,
    v.1,
    v.2,
    v.3.0,
    v.3.1,
    v.4,
    v.5,
    v.6,
    v.7.0,
    v.7.1,
    show_opt(v.8.map(u32::from)),
    show_terms_value(v.9),
    v.10,
    v.11
  )
}

fn show_ins_entry(e: &InscriptionEntry) -> String {
  format!(
    "{} {} {} {} {} {} {} {} {} {} {}",
    e.charms,
    e.fee,
    e.height,
    e.hidden,
    hex(&e.id.txid.to_byte_array()),
    e.id.index,
    e.inscription_number,
    show_csv(&e.parents),
    show_opt(e.sat.map(|s| s.0)),
    e.sequence_number,
    e.timestamp
  )
}

fn show_ins_entry_value(v: &ord::verif::InscriptionEntryValue) -> String {
  format!(
    "{} {} {} {} {} {} {} {} {} {} {} {}",
    v.0,
    v.1,
    v.2,
    v.3,
    v.4.0,
    v.4.1,
    v.4.2,
    v.5,
    show_csv(&v.6),
    show_opt(v.7),
    v.8,
    v.9
  )
}

fn triples(s: &str) -> Option<Vec<(RuneId, u128)>> {
  if s == "-" {
    return Some(Vec::new());
  }
  s.split(',')
    .map(|t| {
      let p: Vec<&str> = t.split(':').collect();
      if p.len() != 3 {
        return None;
      }
      Some((RuneId { block: p[0].parse().ok()?, tx: p[1].parse().ok()? }, p[2].parse().ok()?))
    })
    .collect()
}

fn show_triples(l: &[(RuneId, u128)]) -> String {
  if l.is_empty() {
    "-".into()
  } else {
    l.iter()
      .map(|(id, a)| format!("{}:{}:{}", id.block, id.tx, a))
      .collect::<Vec<_>>()
      .join(",")
  }
}

fn balance_err(e: &anyhow::Error) -> String {
  if let Some(v) = e.downcast_ref::<varint::Error>() {
    match v {
      varint::Error::Overlong => "overlong".into(),
      varint::Error::Overflow => "overflow".into(),
      varint::Error::Unterminated => "unterminated".into(),
    }
  } else if e.downcast_ref::<std::num::TryFromIntError>().is_some() {
    "tryinto".into()
  } else {
    format!("other:{}", e.to_string().replace(' ', "_"))
  }
}

/// the loop every caller of `decode_rune_balance` runs over a stored balance buffer
/// (`get_rune_balances_for_output`, `RuneUpdater::unallocated`, …)
fn decode_balances(buffer: &[u8]) -> Vec<(RuneId, u128)> {
  let mut v = Vec::new();
  let mut i = 0;
  while i < buffer.len() {
    let ((id, balance), len) = Index::decode_rune_balance(&buffer[i..]).unwrap();
    i += len;
    v.push((id, balance));
  }
  v
}

// ---------- answers ----------

fn p<T: std::str::FromStr>(s: &str) -> Option<T> {
  s.parse().ok()
}

fn try_answer(toks: &[&str]) -> Option<String> {
  Some(match toks {
    ["storage.satrange.store", a, b] => {
      let r = (p::<u64>(a)?, p::<u64>(b)?);
      crate::outcome(crate::guard(move || hook::sat_range_store(r)), |v| hex(&v))
    }
    ["storage.satrange.load", h] => {
      let r = hook::sat_range_load(arr::<11>(h)?);
      format!("{} {}", r.0, r.1)
    }
    ["storage.header.store", v, pr, m, t, b, n] => {
      let h = Header {
        version: Version::from_consensus(p(v)?),
        prev_blockhash: BlockHash::from_byte_array(arr::<32>(pr)?),
        merkle_root: TxMerkleNode::from_byte_array(arr::<32>(m)?),
        time: p(t)?,
        bits: CompactTarget::from_consensus(p(b)?),
        nonce: p(n)?,
      };
      hex(&hook::header_store(h))
    }
    ["storage.header.load", h] => show_header(&hook::header_load(arr::<80>(h)?)),
    ["storage.outpoint.store", t, v] => {
      hex(&hook::outpoint_store(OutPoint { txid: txid(t)?, vout: p(v)? }))
    }
    ["storage.outpoint.load", h] => {
      let o = hook::outpoint_load(arr::<36>(h)?);
      format!("{} {}", hex(&o.txid.to_byte_array()), o.vout)
    }
    ["storage.satpoint.store", t, v, o] => hex(&hook::satpoint_store(SatPoint {
      outpoint: OutPoint { txid: txid(t)?, vout: p(v)? },
      offset: p(o)?,
    })),
    ["storage.satpoint.load", h] => {
      let s = hook::satpoint_load(arr::<44>(h)?);
      format!("{} {} {}", hex(&s.outpoint.txid.to_byte_array()), s.outpoint.vout, s.offset)
    }
    ["storage.txid.store", t] => hex(&hook::txid_store(txid(t)?)),
    ["storage.txid.load", t] => hex(&hook::txid_load(arr::<32>(t)?).to_byte_array()),
    ["storage.insid.store", t, i] => {
      let v = hook::inscription_id_store(InscriptionId { txid: txid(t)?, index: p(i)? });
      format!("{} {} {}", v.0, v.1, v.2)
    }
    ["storage.insid.load", a, b, i] => {
      let x = hook::inscription_id_load((p(a)?, p(b)?, p(i)?));
      format!("{} {}", hex(&x.txid.to_byte_array()), x.index)
    }
    ["storage.runeid.store", b, t] => {
      let v = hook::rune_id_store(RuneId { block: p(b)?, tx: p(t)? });
      format!("{} {}", v.0, v.1)
    }
    ["storage.runeid.load", b, t] => {
      let v = hook::rune_id_load((p(b)?, p(t)?));
      format!("{} {}", v.block, v.tx)
    }
    ["storage.rune.store", n] => ord::index::verif::rune_store(Rune(p(n)?)).to_string(),
    ["storage.rune.load", n] => ord::index::verif::rune_load(p(n)?).0.to_string(),
    ["storage.runeentry.store", bl, bu, d, e, mi, nu, pr, ru, sp, sy, te, ti, tu] => {
      let entry = RuneEntry {
        block: p(bl)?,
        burned: p(bu)?,
        divisibility: p(d)?,
        etching: txid(e)?,
        mints: p(mi)?,
        number: p(nu)?,
        premine: p(pr)?,
        spaced_rune: SpacedRune { rune: Rune(p(ru)?), spacers: p(sp)? },
        symbol: sym(sy)?,
        terms: terms_struct(te)?,
        timestamp: p(ti)?,
        turbo: p(tu)?,
      };
      show_rune_entry_value(&hook::rune_entry_store(entry))
    }
    ["storage.runeentry.load", bl, bu, d, lo, hi, mi, nu, pr, ru, sp, sy, te, ti, tu] => {
      let v: ord::verif::RuneEntryValue = (
        p(bl)?,
        p(bu)?,
        p(d)?,
        (p(lo)?, p(hi)?),
        p(mi)?,
        p(nu)?,
        p(pr)?,
        (p(ru)?, p(sp)?),
        sym(sy)?,
        terms_value(te)?,
        p(ti)?,
        p(tu)?,
      );
      show_rune_entry(&hook::rune_entry_load(v))
    }
    ["storage.insentry.store", ch, fe, he, hi, tx, ix, nu, pa, sa, sq, ts] => {
      let e = InscriptionEntry {
        charms: p(ch)?,
        fee: p(fe)?,
        height: p(he)?,
        hidden: p(hi)?,
        id: InscriptionId { txid: txid(tx)?, index: p(ix)? },
        inscription_number: p(nu)?,
        parents: csv_u32(pa)?,
        sat: opt::<u64>(sa)?.map(Sat),
        sequence_number: p(sq)?,
        timestamp: p(ts)?,
      };
      show_ins_entry_value(&hook::inscription_entry_store(e))
    }
    ["storage.insentry.load", ch, fe, he, hi, lo, hh, ix, nu, pa, sa, sq, ts] => {
      let v: ord::verif::InscriptionEntryValue = (
        p(ch)?,
        p(fe)?,
        p(he)?,
        p(hi)?,
        (p(lo)?, p(hh)?, p(ix)?),
        p(nu)?,
        csv_u32(pa)?,
        opt::<u64>(sa)?,
        p(sq)?,
        p(ts)?,
      );
      show_ins_entry(&hook::inscription_entry_load(v))
    }
    ["storage.ranges.dec", h] => {
      let b = unhex(h)?;
      let l: Vec<String> = b
        .chunks_exact(11)
        .map(|c| {
          let r = hook::sat_range_load(c.try_into().unwrap());
          format!("{}:{}", r.0, r.1)
        })
        .collect();
      if l.is_empty() { "-".into() } else { l.join(",") }
    }
    ["storage.balances.enc", l] => {
      let mut buf = Vec::new();
      for (id, a) in triples(l)? {
        Index::encode_rune_balance(id, a, &mut buf);
      }
      hex(&buf)
    }
    ["storage.balances.dec", h] => {
      let b = unhex(h)?;
      match crate::guard(move || decode_balances(&b)) {
        Ok(l) => format!("ok {}", show_triples(&l)),
        Err(m) if m.contains("`Result::unwrap()` on an `Err`") => "panic unwrap".into(),
        Err(m) => format!("panic other:{}", m.replace(' ', "_")),
      }
    }
    ["storage.balance.dec1", h] => {
      let b = unhex(h)?;
      match crate::guard(move || Index::decode_rune_balance(&b)) {
        Ok(Ok(((id, a), len))) => format!("ok {}:{}:{} {}", id.block, id.tx, a, len),
        Ok(Err(e)) => format!("err {}", balance_err(&e)),
        Err(m) => format!("panic other:{}", m.replace(' ', "_")),
      }
    }
    _ => return None,
  })
}

pub fn answer(toks: &[&str]) -> String {
  try_answer(toks).unwrap_or_else(|| "bad-op".into())
}

// ---------- generators ----------

fn ask(out: &mut Streams, line: &str) -> String {
  let toks: Vec<&str> = line.split(' ').collect();
  let a = answer(&toks);
  assert!(a != "bad-op", "generator produced a bad op: {line}");
  out.emit(line, &a);
  a
}

/// round-trip oracle line on the implementation's own outputs
fn oracle_rt(out: &mut Streams, kind: &str, x: &str, back: &str) {
  out.emit(&format!("storage.oracle.rt {kind} {x} {back}"), "true");
}

/// an unsigned integer of `bits` width, biased to boundaries
pub fn uint(rng: &mut Rng, bits: u32) -> u128 {
  let max = if bits == 128 { u128::MAX } else { (1u128 << bits) - 1 };
  match rng.below(10) {
    0 => 0,
    1 => 1,
    2 => max,
    3 => max - 1,
    4 | 5 => {
      let k = rng.below(bits as u64) as u32;
      let p = 1u128 << k;
      match rng.below(3) {
        0 => p.saturating_sub(1),
        1 => p,
        _ => (p + 1).min(max),
      }
    }
    _ => rng.u128_any_width() & max,
  }
}

fn opt_uint(rng: &mut Rng, bits: u32) -> String {
  if rng.chance(1, 3) { "x".into() } else { uint(rng, bits).to_string() }
}

fn hash32(rng: &mut Rng) -> String {
  match rng.below(8) {
    0 => hex(&[0u8; 32]),
    1 => hex(&[0xffu8; 32]),
    2 => hex(&(0u8..32).collect::<Vec<u8>>()),
    _ => hex(&rng.bytes(32)),
  }
}

fn i32_any(rng: &mut Rng) -> i32 {
  match rng.below(8) {
    0 => 0,
    1 => -1,
    2 => i32::MIN,
    3 => i32::MAX,
    4 => 1,
    _ => uint(rng, 32) as u32 as i32,
  }
}

fn char_any(rng: &mut Rng) -> String {
  if rng.chance(1, 4) {
    return "x".into();
  }
  let c = match rng.below(8) {
    0 => 0,
    1 => 0x10ffff,
    2 => 0xd7ff,
    3 => 0xe000,
    4 => 0x1f9ff,          // non-BMP
    5 => 0x29c9,
    6 => 0x41,
    _ => loop {
      let c = rng.below(0x110000) as u32;
      if char::from_u32(c).is_some() {
        break c;
      }
    },
  };
  c.to_string()
}

const SUPPLY: u64 = 2_099_999_997_690_000;
const SUBSIDY: u64 = 5_000_000_000;

fn sat_range_any(rng: &mut Rng, dist: &mut Dist) -> (u64, u64) {
  match rng.below(10) {
    // inside the property's domain: inside the supply, no longer than a subsidy
    0..=5 => {
      let len = match rng.below(6) {
        0 => 0,
        1 => 1,
        2 => SUBSIDY,
        3 => SUBSIDY - 1,
        _ => rng.range(0, SUBSIDY),
      };
      let start = match rng.below(6) {
        0 => 0,
        1 => SUPPLY - len,
        2 => (SUPPLY - len).saturating_sub(1),
        _ => rng.range(0, SUPPLY - len),
      };
      dist.hit("satrange_in_domain");
      (start, start + len)
    }
    // inside the packing's guard but outside the supply / longer than a subsidy
    6 | 7 => {
      let start = uint(rng, 51) as u64;
      let delta = uint(rng, 37) as u64;
      dist.hit("satrange_in_guard");
      (start, start + delta)
    }
    // outside the guard (silently truncated by the real code)
    8 => {
      let start = uint(rng, 64) as u64;
      let end = start.saturating_add(uint(rng, 64) as u64);
      dist.hit("satrange_outside_guard");
      (start, end)
    }
    // end < start (checked subtraction panics in the dev profile)
    _ => {
      let a = uint(rng, 64) as u64;
      let b = uint(rng, 64) as u64;
      dist.hit("satrange_any");
      (a, b)
    }
  }
}

fn emit_sat_range(out: &mut Streams, r: (u64, u64)) {
  let st = ask(out, &format!("storage.satrange.store {} {}", r.0, r.1));
  let ld = if let Some(h) = st.strip_prefix("ok ") {
    ask(out, &format!("storage.satrange.load {h}")).replace(' ', ":")
  } else {
    "none".into()
  };
  out.emit(
    &format!("storage.oracle.rt.satrange {} {} {} {}", r.0, r.1, st.replace(' ', ":"), ld),
    "true",
  );
}

fn emit_header(rng: &mut Rng, out: &mut Streams) {
  let x = format!(
    "{} {} {} {} {} {}",
    i32_any(rng),
    hash32(rng),
    hash32(rng),
    uint(rng, 32),
    uint(rng, 32),
    uint(rng, 32)
  );
  let st = ask(out, &format!("storage.header.store {x}"));
  let back = ask(out, &format!("storage.header.load {st}"));
  oracle_rt(out, "header", &x, &back);
}

fn emit_outpoint(rng: &mut Rng, out: &mut Streams) {
  let x = format!("{} {}", hash32(rng), uint(rng, 32));
  let st = ask(out, &format!("storage.outpoint.store {x}"));
  let back = ask(out, &format!("storage.outpoint.load {st}"));
  oracle_rt(out, "outpoint", &x, &back);
}

fn emit_satpoint(rng: &mut Rng, out: &mut Streams) {
  let x = format!("{} {} {}", hash32(rng), uint(rng, 32), uint(rng, 64));
  let st = ask(out, &format!("storage.satpoint.store {x}"));
  let back = ask(out, &format!("storage.satpoint.load {st}"));
  oracle_rt(out, "satpoint", &x, &back);
}

fn emit_txid(rng: &mut Rng, out: &mut Streams) {
  let x = hash32(rng);
  let st = ask(out, &format!("storage.txid.store {x}"));
  let back = ask(out, &format!("storage.txid.load {st}"));
  oracle_rt(out, "txid", &x, &back);
}

fn emit_insid(rng: &mut Rng, out: &mut Streams) {
  let x = format!("{} {}", hash32(rng), uint(rng, 32));
  let st = ask(out, &format!("storage.insid.store {x}"));
  let back = ask(out, &format!("storage.insid.load {st}"));
  oracle_rt(out, "insid", &x, &back);
}

fn emit_rune(rng: &mut Rng, out: &mut Streams) {
  let x = uint(rng, 128).to_string();
  let st = ask(out, &format!("storage.rune.store {x}"));
  let back = ask(out, &format!("storage.rune.load {st}"));
  oracle_rt(out, "rune", &x, &back);
}

fn emit_runeid(rng: &mut Rng, out: &mut Streams) {
  let x = format!("{} {}", uint(rng, 64), uint(rng, 32));
  let st = ask(out, &format!("storage.runeid.store {x}"));
  let back = ask(out, &format!("storage.runeid.load {st}"));
  oracle_rt(out, "runeid", &x, &back);
}

fn terms_any(rng: &mut Rng, dist: &mut Dist) -> String {
  if rng.chance(1, 4) {
    dist.hit("terms_none");
    return "none".into();
  }
  dist.hit("terms_some");
  format!(
    "T:{}:{}:{}:{}:{}:{}",
    opt_uint(rng, 128),
    opt_uint(rng, 128),
    opt_uint(rng, 64),
    opt_uint(rng, 64),
    opt_uint(rng, 64),
    opt_uint(rng, 64)
  )
}

fn emit_rune_entry(rng: &mut Rng, out: &mut Streams, dist: &mut Dist) {
  let x = format!(
    "{} {} {} {} {} {} {} {} {} {} {} {} {}",
    uint(rng, 64),
    uint(rng, 128),
    uint(rng, 8),
    hash32(rng),
    uint(rng, 128),
    uint(rng, 64),
    uint(rng, 128),
    uint(rng, 128),
    uint(rng, 32),
    char_any(rng),
    terms_any(rng, dist),
    uint(rng, 64),
    rng.chance(1, 2)
  );
  let st = ask(out, &format!("storage.runeentry.store {x}"));
  let back = ask(out, &format!("storage.runeentry.load {st}"));
  oracle_rt(out, "runeentry", &x, &back);
}

fn emit_ins_entry(rng: &mut Rng, out: &mut Streams, dist: &mut Dist) {
  let n = rng.below(5);
  let parents: Vec<u32> = (0..n).map(|_| uint(rng, 32) as u32).collect();
  dist.hit(&format!("insentry_parents_{n}"));
  let x = format!(
    "{} {} {} {} {} {} {} {} {} {} {}",
    uint(rng, 16),
    uint(rng, 64),
    uint(rng, 32),
    rng.chance(1, 2),
    hash32(rng),
    uint(rng, 32),
    i32_any(rng),
    show_csv(&parents),
    opt_uint(rng, 64),
    uint(rng, 32),
    uint(rng, 32)
  );
  let st = ask(out, &format!("storage.insentry.store {x}"));
  let back = ask(out, &format!("storage.insentry.load {st}"));
  oracle_rt(out, "insentry", &x, &back);
}

fn emit_balances(rng: &mut Rng, out: &mut Streams, dist: &mut Dist) {
  let n = rng.below(7);
  dist.hit(&format!("balances_len_{n}"));
  let l: Vec<String> = (0..n)
    .map(|_| format!("{}:{}:{}", uint(rng, 64), uint(rng, 32), uint(rng, 128)))
    .collect();
  let x = if l.is_empty() { "-".to_string() } else { l.join(",") };
  let enc = ask(out, &format!("storage.balances.enc {x}"));
  let dec = ask(out, &format!("storage.balances.dec {enc}"));
  oracle_rt(out, "balances", &format!("ok {x}"), &dec);
  if n > 0 {
    ask(out, &format!("storage.balance.dec1 {enc}"));
  }
}

/// malformed / arbitrary bytes through the decoders (model must agree on ok / err / panic)
fn emit_mutated(rng: &mut Rng, out: &mut Streams, dist: &mut Dist) {
  match rng.below(5) {
    0 => {
      let b = rng.bytes(11);
      let ld = ask(out, &format!("storage.satrange.load {}", hex(&b)));
      // what was loaded re-stores to bytes that load to the same range
      let st = ask(out, &format!("storage.satrange.store {}", ld));
      let _ = st;
      dist.hit("mut_satrange_load");
    }
    1 => {
      ask(out, &format!("storage.header.load {}", hex(&rng.bytes(80))));
      ask(out, &format!("storage.satpoint.load {}", hex(&rng.bytes(44))));
      dist.hit("mut_header_satpoint_load");
    }
    2 => {
      // arbitrary tuple values through load
      let x = format!(
        "{} {} {} {} {} {} {} {} {} {} {} {} {} {}",
        uint(rng, 64),
        uint(rng, 128),
        uint(rng, 8),
        uint(rng, 128),
        uint(rng, 128),
        uint(rng, 128),
        uint(rng, 64),
        uint(rng, 128),
        uint(rng, 128),
        uint(rng, 32),
        char_any(rng),
        if rng.chance(1, 4) {
          "none".to_string()
        } else {
          format!(
            "V:{}:{}:{}:{}:{}:{}",
            opt_uint(rng, 128),
            opt_uint(rng, 64),
            opt_uint(rng, 64),
            opt_uint(rng, 128),
            opt_uint(rng, 64),
            opt_uint(rng, 64)
          )
        },
        uint(rng, 64),
        rng.chance(1, 2)
      );
      let back = ask(out, &format!("storage.runeentry.load {x}"));
      let again = ask(out, &format!("storage.runeentry.store {back}"));
      oracle_rt(out, "runeentry-value", &x, &again);
      dist.hit("mut_runeentry_load");
    }
    3 => {
      // balance buffers: encode then mutate
      let n = rng.range(1, 3);
      let mut buf = Vec::new();
      for _ in 0..n {
        let id = RuneId { block: uint(rng, 64) as u64, tx: uint(rng, 32) as u32 };
        Index::encode_rune_balance(id, uint(rng, 128), &mut buf);
      }
      match rng.below(4) {
        0 => {
          let at = rng.below(buf.len() as u64) as usize;
          buf[at] ^= 1 << rng.below(8);
        }
        1 => {
          buf.pop();
        }
        2 => {
          let at = rng.below(buf.len() as u64 + 1) as usize;
          buf.insert(at, rng.next_u64() as u8);
        }
        _ => {
          // a block or tx that does not fit its integer type
          buf = varint::encode(uint(rng, 128));
          buf.extend(varint::encode(uint(rng, 64)));
          buf.extend(varint::encode(uint(rng, 128)));
        }
      }
      let a = ask(out, &format!("storage.balance.dec1 {}", hex(&buf)));
      ask(out, &format!("storage.balances.dec {}", hex(&buf)));
      dist.hit(&format!("mut_balance_{}", a.split(' ').next().unwrap()));
    }
    _ => {
      let len = rng.below(40) as usize;
      let b = rng.bytes(len);
      ask(out, &format!("storage.balances.dec {}", hex(&b)));
      ask(out, &format!("storage.balance.dec1 {}", hex(&b)));
      dist.hit("mut_balance_random");
    }
  }
}

pub fn generate(args: &Args, rng: &mut Rng, out: &mut Streams, dist: &mut Dist) {
  // 1. fixed boundary sweep for the sat range packing
  let mut starts: Vec<u64> = vec![0, 1, SUPPLY - 1, SUPPLY, (1 << 51) - 1, 1 << 51, (1 << 51) + 1, u64::MAX];
  for k in [8u32, 16, 24, 32, 40, 48, 50, 56, 63] {
    starts.extend([(1u64 << k) - 1, 1 << k, (1 << k) + 1]);
  }
  let mut deltas: Vec<u64> = vec![0, 1, SUBSIDY - 1, SUBSIDY, SUBSIDY + 1];
  for k in [8u32, 13, 16, 24, 29, 32, 33, 36, 37, 38, 40, 45, 63] {
    deltas.extend([(1u64 << k) - 1, 1 << k, (1 << k) + 1]);
  }
  if args.get("sweep").map(|v| v != "0").unwrap_or(false) {
    for &s in &starts {
      for &d in &deltas {
        if let Some(e) = s.checked_add(d) {
          emit_sat_range(out, (s, e));
          dist.hit("satrange_sweep");
        }
      }
    }
    emit_sat_range(out, (5, 4));
    emit_sat_range(out, (u64::MAX, 0));
  }
  // 2. random
  for case in 0..args.cases {
    match case % 10 {
      0 | 1 => {
        let r = sat_range_any(rng, dist);
        emit_sat_range(out, r);
      }
      2 => emit_header(rng, out),
      3 => {
        emit_outpoint(rng, out);
        emit_txid(rng, out);
      }
      4 => emit_satpoint(rng, out),
      5 => {
        emit_insid(rng, out);
        emit_runeid(rng, out);
        emit_rune(rng, out);
      }
      6 => emit_rune_entry(rng, out, dist),
      7 => emit_ins_entry(rng, out, dist),
      8 => emit_balances(rng, out, dist),
      _ => emit_mutated(rng, out, dist),
    }
  }
}
