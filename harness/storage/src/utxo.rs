//! `UtxoEntryBuf` / `UtxoEntry::parse` / `merged` / `empty` of src/index/utxo_entry.rs, driven
//! through `ord::index::verif::utxo_*` with one real regtest `Index` per flag combination.
use {
  clap::Parser,
  common::*,
  ord::{
    Index, Options,
    index::verif::{self as hook, UtxoOp},
    settings::Settings,
    verif::entry as ehook,
  },
  ordinals::varint,
  std::path::PathBuf,
};

pub struct Ctx {
  scratch: PathBuf,
  core: Option<mockcore::Handle>,
  indexes: Vec<Option<Index>>,
}

pub const ALL_FLAGS: [&str; 8] = ["---", "--i", "-a-", "-ai", "s--", "s-i", "sa-", "sai"];

fn flag_bits(fl: &str) -> Option<usize> {
  let c: Vec<char> = fl.chars().collect();
  if c.len() != 3 {
    return None;
  }
  let s = match c[0] { 's' => 4, '-' => 0, _ => return None };
  let a = match c[1] { 'a' => 2, '-' => 0, _ => return None };
  let i = match c[2] { 'i' => 1, '-' => 0, _ => return None };
  Some(s | a | i)
}

impl Ctx {
  pub fn new(args: &Args) -> Self {
    Ctx {
      scratch: PathBuf::from(format!(
        "/dev/shm/verif_storage_{}_{}",
        std::process::id(),
        args.seed
      )),
      core: None,
      indexes: (0..8).map(|_| None).collect(),
    }
  }

  /// the (kept alive) index for a flag combination
  pub fn index(&mut self, fl: &str) -> Option<&Index> {
    let bits = flag_bits(fl)?;
    if self.indexes[bits].is_none() {
      if self.core.is_none() {
        self.core = Some(mockcore::builder().network(bitcoin::Network::Regtest).build());
      }
      let core = self.core.as_ref().unwrap();
      let dir = self.scratch.join(format!("idx{bits}"));
      std::fs::create_dir_all(&dir).unwrap();
      let cookie = dir.join("cookie");
      std::fs::write(&cookie, "username:password").unwrap();
      let mut argv: Vec<String> = vec![
        "ord".into(),
        "--bitcoin-rpc-url".into(),
        core.url(),
        "--datadir".into(),
        dir.to_str().unwrap().into(),
        "--cookie-file".into(),
        cookie.to_str().unwrap().into(),
        "--chain=regtest".into(),
      ];
      if bits & 4 != 0 {
        argv.push("--index-sats".into());
      }
      if bits & 2 != 0 {
        argv.push("--index-addresses".into());
      }
      if bits & 1 == 0 {
        argv.push("--no-index-inscriptions".into());
      }
      let options = Options::try_parse_from(argv).expect("options");
      let settings = Settings::from_options(options).or_defaults().expect("settings");
      let index = Index::open(&settings).expect("open index");
      let (s, a, i) = hook::utxo_flags(&index);
      assert_eq!((s, a, i), (bits & 4 != 0, bits & 2 != 0, bits & 1 != 0), "index flags");
      self.indexes[bits] = Some(index);
    }
    self.indexes[bits].as_ref()
  }

  pub fn cleanup(mut self) {
    self.indexes.clear();
    self.core = None;
    let _ = std::fs::remove_dir_all(&self.scratch);
  }
}

// ---------- text ----------

fn pairs(s: &str) -> Option<Vec<(u32, u64)>> {
  if s == "-" {
    return Some(Vec::new());
  }
  s.split(',')
    .map(|t| {
      let (a, b) = t.split_once(':')?;
      Some((a.parse().ok()?, b.parse().ok()?))
    })
    .collect()
}

fn show_pairs(l: &[(u32, u64)]) -> String {
  if l.is_empty() {
    "-".into()
  } else {
    l.iter().map(|(a, b)| format!("{a}:{b}")).collect::<Vec<_>>().join(",")
  }
}

fn parse_op(s: &str) -> Option<UtxoOp> {
  let p: Vec<&str> = s.split(':').collect();
  Some(match p.as_slice() {
    ["v", n] => UtxoOp::Value(n.parse().ok()?),
    ["r", h] => UtxoOp::SatRanges(unhex(h)?),
    ["s", h] => UtxoOp::ScriptPubkey(unhex(h)?),
    ["I", h] => UtxoOp::Inscriptions(unhex(h)?),
    ["i", a, b] => UtxoOp::Inscription(a.parse().ok()?, b.parse().ok()?),
    _ => return None,
  })
}

fn show_opt_hex(o: &Option<Vec<u8>>) -> String {
  match o {
    None => "none".into(),
    Some(b) => hex(b),
  }
}

use crate::guard;

fn try_answer(ctx: &mut Ctx, toks: &[&str]) -> Option<String> {
  use crate::outcome;
  Some(match toks {
    ["storage.utxo.ops", fl, ops @ ..] => {
      let ops: Vec<UtxoOp> = ops.iter().map(|o| parse_op(o)).collect::<Option<_>>()?;
      let index = ctx.index(fl)?;
      outcome(guard(|| hook::utxo_ops(index, &ops)), |b| hex(&b))
    }
    [op @ ("storage.utxo.build" | "storage.utxo.layout"), fl, v, r, s, i] => {
      let (v, r, s, i) = (v.parse::<u64>().ok()?, unhex(r)?, unhex(s)?, pairs(i)?);
      let index = ctx.index(fl)?;
      let a = outcome(guard(|| hook::utxo_build(index, v, &r, &s, &i)), |b| hex(&b));
      if *op == "storage.utxo.layout" {
        a.strip_prefix("ok ").map(|h| h.to_string()).unwrap_or(a)
      } else {
        a
      }
    }
    ["storage.utxo.parse", fl, h] => {
      let b = unhex(h)?;
      let index = ctx.index(fl)?;
      outcome(guard(|| hook::utxo_parse(index, &b)), |(r, s, i)| {
        format!("{} {} {}", show_opt_hex(&r), show_opt_hex(&s), show_opt_hex(&i))
      })
    }
    ["storage.utxo.total", fl, h] => {
      let b = unhex(h)?;
      let index = ctx.index(fl)?;
      outcome(guard(|| hook::utxo_total_value(index, &b)), |v| v.to_string())
    }
    ["storage.utxo.pins", fl, h] => {
      let b = unhex(h)?;
      let index = ctx.index(fl)?;
      outcome(guard(|| hook::utxo_parse_inscriptions(index, &b)), |l| show_pairs(&l))
    }
    ["storage.utxo.merged", fl, a, b] => {
      let (a, b) = (unhex(a)?, unhex(b)?);
      let index = ctx.index(fl)?;
      outcome(guard(|| hook::utxo_merged(index, &a, &b)), |b| hex(&b))
    }
    ["storage.utxo.empty", fl] => {
      let index = ctx.index(fl)?;
      outcome(guard(|| hook::utxo_empty(index)), |b| hex(&b))
    }
    _ => return None,
  })
}

pub fn answer(ctx: &mut Ctx, toks: &[&str]) -> String {
  try_answer(ctx, toks).unwrap_or_else(|| "bad-op".into())
}

// ---------- generators ----------

fn ask(ctx: &mut Ctx, out: &mut Streams, line: &str) -> String {
  let toks: Vec<&str> = line.split(' ').collect();
  let a = crate::answer(ctx, &toks);
  assert!(a != "bad-op", "generator produced a bad op: {line}");
  out.emit(line, &a);
  a
}

const SUPPLY: u64 = 2_099_999_997_690_000;
const SUBSIDY: u64 = 5_000_000_000;

pub struct E {
  value: u64,
  ranges: Vec<u8>,
  script: Vec<u8>,
  ins: Vec<(u32, u64)>,
}

fn gen_ranges(rng: &mut Rng, dist: &mut Dist) -> Vec<u8> {
  let n = rng.below(7);
  dist.hit(&format!("ranges_{n}"));
  let mut v = Vec::new();
  for _ in 0..n {
    if rng.chance(1, 8) {
      v.extend(rng.bytes(11)); // arbitrary 11 bytes are a legal chunk for the entry codec
    } else {
      let len = match rng.below(5) {
        0 => 0,
        1 => 1,
        2 => SUBSIDY,
        _ => rng.range(0, SUBSIDY),
      };
      let start = match rng.below(4) {
        0 => 0,
        1 => SUPPLY - len,
        _ => rng.range(0, SUPPLY - len),
      };
      v.extend(ehook::sat_range_store((start, start + len)));
    }
  }
  v
}

fn gen_script(rng: &mut Rng, dist: &mut Dist, big: bool) -> Vec<u8> {
  let len = match rng.below(if big { 12 } else { 8 }) {
    0 => 0,
    1 => 1,
    2 => 127,
    3 => 128,
    4 => 22,
    5 => 34,
    6 | 7 => rng.below(80) as usize,
    8 => 16383,
    9 => 16384,
    10 => 129,
    _ => rng.range(200, 600) as usize,
  };
  dist.hit(match len {
    0 => "script_0",
    1..=127 => "script_1byte_len",
    128..=16383 => "script_2byte_len",
    _ => "script_3byte_len",
  });
  rng.bytes(len)
}

fn gen_ins(rng: &mut Rng, dist: &mut Dist) -> Vec<(u32, u64)> {
  let n = rng.below(6);
  dist.hit(&format!("ins_{n}"));
  (0..n)
    .map(|_| {
      let seq = crate::entry::uint(rng, 32) as u32;
      // offsets of every varint length 1..=10
      let off = if rng.chance(1, 2) {
        let k = rng.range(0, 9) as u32;
        let lo = if k == 0 { 0 } else { 1u64 << (7 * k) };
        let hi = if k == 9 { u64::MAX } else { (1u64 << (7 * (k + 1))) - 1 };
        *rng.pick(&[lo, hi, lo + (hi - lo) / 2])
      } else {
        crate::entry::uint(rng, 64) as u64
      };
      dist.hit(&format!("ins_off_len_{}", varint::encode(off.into()).len()));
      (seq, off)
    })
    .collect()
}

fn gen_entry(rng: &mut Rng, dist: &mut Dist, big: bool) -> E {
  E {
    value: crate::entry::uint(rng, 64) as u64,
    ranges: gen_ranges(rng, dist),
    script: gen_script(rng, dist, big),
    ins: gen_ins(rng, dist),
  }
}

fn entry_args(e: &E) -> String {
  format!("{} {} {} {}", e.value, hex(&e.ranges), hex(&e.script), show_pairs(&e.ins))
}

/// build → layout → parse/total/pins → round-trip oracle; returns the built bytes (hex)
fn emit_roundtrip(ctx: &mut Ctx, out: &mut Streams, dist: &mut Dist, fl: &str, e: &E) -> Option<String> {
  let args = entry_args(e);
  let built = ask(ctx, out, &format!("storage.utxo.build {fl} {args}"));
  let h = built.strip_prefix("ok ")?.to_string();
  ask(ctx, out, &format!("storage.utxo.layout {fl} {args}"));
  let pa = ask(ctx, out, &format!("storage.utxo.parse {fl} {h}"));
  let ta = ask(ctx, out, &format!("storage.utxo.total {fl} {h}"));
  let ia = ask(ctx, out, &format!("storage.utxo.pins {fl} {h}"));
  out.emit(
    &format!(
      "storage.oracle.rt.utxo {fl} {args} {} {} {}",
      pa.replace(' ', ":"),
      ta.replace(' ', ":"),
      ia.replace(' ', ":")
    ),
    "true",
  );
  if fl.starts_with('s') && !e.ranges.is_empty() {
    ask(ctx, out, &format!("storage.ranges.dec {}", hex(&e.ranges)));
  }
  dist.hit(&format!("roundtrip_{fl}"));
  Some(h)
}

/// an entry of a special (lost / unbound) outpoint built with the updater's own call
/// sequences; returns (ops tokens, ranges, inscriptions)
fn gen_special(rng: &mut Rng, dist: &mut Dist, fl: &str) -> (String, Vec<u8>, Vec<(u32, u64)>) {
  let (s, a, i) = (fl.contains('s'), fl.contains('a'), fl.contains('i'));
  let mut ops: Vec<String> = Vec::new();
  let mut ranges = Vec::new();
  let mut ins = Vec::new();
  if s && rng.chance(1, 2) {
    // updater.rs: new; push_sat_ranges(lost); push_script_pubkey([])
    ranges = gen_ranges(rng, dist);
    ops.push(format!("r:{}", hex(&ranges)));
    if a {
      ops.push("s:-".into());
    }
    dist.hit("special_lost_ranges");
  } else {
    // UtxoEntryBuf::empty(index) then push_inscription*
    ops.push(if s { "r:-".into() } else { "v:0".into() });
    if a {
      ops.push("s:-".into());
    }
    if i {
      ins = gen_ins(rng, dist);
      for (q, o) in &ins {
        ops.push(format!("i:{q}:{o}"));
      }
    }
    dist.hit("special_empty_plus_inscriptions");
  }
  (ops.join(" "), ranges, ins)
}

fn emit_merged(ctx: &mut Ctx, rng: &mut Rng, out: &mut Streams, dist: &mut Dist, fl: &str) {
  let (oa, ra, ia) = gen_special(rng, dist, fl);
  let (ob, rb, ib) = gen_special(rng, dist, fl);
  let a = ask(ctx, out, &format!("storage.utxo.ops {fl} {oa}"));
  let b = ask(ctx, out, &format!("storage.utxo.ops {fl} {ob}"));
  let (Some(a), Some(b)) = (a.strip_prefix("ok "), b.strip_prefix("ok ")) else {
    dist.hit("merged_input_panic");
    return;
  };
  let m = ask(ctx, out, &format!("storage.utxo.merged {fl} {a} {b}"));
  let (pa, pi) = if let Some(m) = m.strip_prefix("ok ") {
    let m = m.to_string();
    // merging again with a third entry (the cache entry merged with the stored one)
    (
      ask(ctx, out, &format!("storage.utxo.parse {fl} {m}")),
      ask(ctx, out, &format!("storage.utxo.pins {fl} {m}")),
    )
  } else {
    (m.clone(), m.clone())
  };
  out.emit(
    &format!(
      "storage.oracle.merged.utxo {fl} {} {} {} {} {} {}",
      hex(&ra),
      show_pairs(&ia),
      hex(&rb),
      show_pairs(&ib),
      pa.replace(' ', ":"),
      pi.replace(' ', ":")
    ),
    "true",
  );
  dist.hit(&format!("merged_{fl}"));
}

/// "ok" or "panic_<class>"
fn head2(a: &str) -> String {
  if a.starts_with("ok") { "ok".into() } else { a.split(' ').take(2).collect::<Vec<_>>().join("_") }
}

fn gen_op(rng: &mut Rng, dist: &mut Dist) -> String {
  match rng.below(6) {
    0 => format!("v:{}", crate::entry::uint(rng, 64)),
    1 => {
      let mut r = gen_ranges(rng, dist);
      if rng.chance(1, 6) {
        r.push(0); // length not a multiple of 11
      }
      format!("r:{}", hex(&r))
    }
    2 => format!("s:{}", hex(&gen_script(rng, dist, false))),
    3 => {
      let len = rng.below(12) as usize;
      format!("I:{}", hex(&rng.bytes(len)))
    }
    _ => format!("i:{}:{}", crate::entry::uint(rng, 32), crate::entry::uint(rng, 64)),
  }
}

fn mutate(rng: &mut Rng, b: &mut Vec<u8>) {
  match rng.below(6) {
    0 if !b.is_empty() => {
      let at = rng.below(b.len() as u64) as usize;
      b[at] ^= 1 << rng.below(8);
    }
    1 if !b.is_empty() => {
      let keep = rng.below(b.len() as u64) as usize;
      b.truncate(keep);
    }
    2 => {
      let at = rng.below(b.len() as u64 + 1) as usize;
      b.insert(at, rng.next_u64() as u8);
    }
    3 => {
      // replace the leading varint by an arbitrary (possibly huge) one
      let skip = b.iter().position(|x| x & 0x80 == 0).map(|p| p + 1).unwrap_or(b.len());
      let n: u128 = match rng.below(4) {
        // counts / lengths at the usize multiplication and addition overflow boundaries
        0 => *rng.pick(&[
          (u64::MAX / 11) as u128,
          (u64::MAX / 11) as u128 + 1,
          (u64::MAX / 11) as u128 - 1,
          u64::MAX as u128,
          u64::MAX as u128 + 1,
          u64::MAX as u128 - 3,
          u64::MAX as u128 - 12,
          1 << 63,
        ]),
        1 => rng.below(40) as u128,
        _ => crate::entry::uint(rng, 128),
      };
      let mut v = varint::encode(n);
      v.extend_from_slice(&b[skip..]);
      *b = v;
    }
    4 => {
      // continuation runs around the varint limits
      let n = rng.range(17, 21) as usize;
      let mut v: Vec<u8> = (0..n).map(|_| 0x80 | rng.next_u64() as u8).collect();
      v.push(rng.below(8) as u8);
      v.extend_from_slice(b);
      *b = v;
    }
    _ => {
      let n = rng.below(6) as usize;
      b.extend(rng.bytes(n));
    }
  }
}

pub fn generate(args: &Args, ctx: &mut Ctx, rng: &mut Rng, out: &mut Streams, dist: &mut Dist) {
  // 1. fixed part: every flag combination × field-presence combination
  if args.get("sweep").map(|v| v != "0").unwrap_or(false) {
    for fl in ALL_FLAGS {
      ask(ctx, out, &format!("storage.utxo.empty {fl}"));
      let range = ehook::sat_range_store((SUPPLY - SUBSIDY, SUPPLY)).to_vec();
      for nr in [0usize, 1, 2] {
        for script in [vec![], vec![0x51], vec![0xab; 127], vec![0xcd; 128]] {
          for ins in [vec![], vec![(0u32, 0u64)], vec![(u32::MAX, u64::MAX), (1, 127), (2, 128)]] {
            for value in [0u64, 1, 127, 128, u64::MAX] {
              let e = E { value, ranges: range.repeat(nr), script: script.clone(), ins: ins.clone() };
              emit_roundtrip(ctx, out, dist, fl, &e);
            }
          }
        }
      }
      // scripts whose length needs a 3-byte varint
      for len in [16383usize, 16384] {
        let e = E { value: 546, ranges: range.clone(), script: vec![0x6a; len], ins: vec![(7, 0)] };
        emit_roundtrip(ctx, out, dist, fl, &e);
      }
    }
  }
  // 2. random
  for case in 0..args.cases {
    let fl = *rng.pick(&ALL_FLAGS);
    match case % 8 {
      0 | 1 | 2 => {
        let e = gen_entry(rng, dist, case % 64 == 0);
        emit_roundtrip(ctx, out, dist, fl, &e);
      }
      3 => emit_merged(ctx, rng, out, dist, fl),
      4 => {
        // merged on arbitrary entries: the asserts on value / script are reachable
        let a = gen_entry(rng, dist, false);
        let mut b = gen_entry(rng, dist, false);
        if rng.chance(1, 2) {
          b.script.clear();
          b.value = 0;
        }
        let ha = emit_roundtrip(ctx, out, dist, fl, &a);
        let hb = emit_roundtrip(ctx, out, dist, fl, &b);
        if let (Some(ha), Some(hb)) = (ha, hb) {
          let m = ask(ctx, out, &format!("storage.utxo.merged {fl} {ha} {hb}"));
          dist.hit(&format!("merged_any_{}", head2(&m)));
        }
      }
      5 => {
        // push sequences: the valid order for the flag combination (with raw `push_inscriptions`
        // mixed in), usually perturbed — the builder's state machine and flag asserts
        let (sf, af, inf) = (fl.contains('s'), fl.contains('a'), fl.contains('i'));
        let mut ops: Vec<String> = Vec::new();
        if rng.chance(3, 4) {
          ops.push(if sf {
            format!("r:{}", hex(&gen_ranges(rng, dist)))
          } else {
            format!("v:{}", crate::entry::uint(rng, 64))
          });
          if af {
            ops.push(format!("s:{}", hex(&gen_script(rng, dist, false))));
          }
          if inf {
            for (q, o) in gen_ins(rng, dist) {
              if rng.chance(1, 3) {
                let mut raw = q.to_le_bytes().to_vec();
                raw.extend(varint::encode(o.into()));
                ops.push(format!("I:{}", hex(&raw)));
              } else {
                ops.push(format!("i:{q}:{o}"));
              }
            }
          }
          match rng.below(6) {
            0 if !ops.is_empty() => {
              let at = rng.below(ops.len() as u64) as usize;
              ops.remove(at);
            }
            1 if !ops.is_empty() => {
              let at = rng.below(ops.len() as u64) as usize;
              let o = ops[at].clone();
              ops.insert(at, o);
            }
            2 if ops.len() > 1 => {
              let at = rng.below(ops.len() as u64 - 1) as usize;
              ops.swap(at, at + 1);
            }
            3 => {
              let at = rng.below(ops.len() as u64 + 1) as usize;
              ops.insert(at, gen_op(rng, dist));
            }
            _ => {}
          }
        } else {
          let n = rng.below(5);
          ops = (0..n).map(|_| gen_op(rng, dist)).collect();
        }
        let a = ask(ctx, out, format!("storage.utxo.ops {fl} {}", ops.join(" ")).trim_end());
        dist.hit(&format!("ops_{}", head2(&a)));
        if let Some(h) = a.strip_prefix("ok ") {
          let h = h.to_string();
          ask(ctx, out, &format!("storage.utxo.parse {fl} {h}"));
          ask(ctx, out, &format!("storage.utxo.pins {fl} {h}"));
        }
      }
      _ => {
        // encode then mutate, through every reader
        let e = gen_entry(rng, dist, false);
        let args = entry_args(&e);
        let built = ask(ctx, out, &format!("storage.utxo.build {fl} {args}"));
        if let Some(h) = built.strip_prefix("ok ") {
          let mut b = unhex(h).unwrap();
          let rounds = rng.range(1, 2);
          for _ in 0..rounds {
            mutate(rng, &mut b);
          }
          // read with the same or another flag combination
          let fl2 = if rng.chance(1, 4) { *rng.pick(&ALL_FLAGS) } else { fl };
          let h = hex(&b);
          let pa = ask(ctx, out, &format!("storage.utxo.parse {fl2} {h}"));
          ask(ctx, out, &format!("storage.utxo.total {fl2} {h}"));
          ask(ctx, out, &format!("storage.utxo.pins {fl2} {h}"));
          if rng.chance(1, 3) {
            ask(ctx, out, &format!("storage.utxo.merged {fl2} {h} {h}"));
          }
          dist.hit(&format!("mut_parse_{}", head2(&pa)));
        }
      }
    }
  }
}
