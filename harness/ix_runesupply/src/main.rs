//! Index property group "runesupply": C08 (rune supply is conserved) and C09 (edicts, pointers and
//! cenotaphs allocate runes exactly as the protocol describes).
//!
//! Streams:
//!   chain      — the shared generated chains (`ixlib::run`) with this group's probe after every
//!                index update;
//!   scenarios  — hand-built blocks that exercise every documented allocation rule at least once
//!                (split with remainder, capped "each", amount 0, over-balance, 0:0 with and
//!                without an etching, pointer to OP_RETURN, cenotaph burn with mint, cenotaph
//!                etching, no eligible output, chains inside one block), same probe;
//!   rtx        — randomized rune traffic: every block spends live runic outputs with edicts over
//!                the runes they hold (the shared generator almost never does), same probe.
//!
//! Probe lines (see lean/Driver/IxRunesupply.lean):
//!   ix.rs.begin <previous impl runes rows>               state for the spec-level replay
//!   ix.oracle.alloc h i txid ins outs artifact etched obs   one per transaction with rune activity
//!   ix.oracle.blockend <impl runes rows>                  spec-level state == implementation rows
//!   ix.oracle.conserved <flags> ; <impl runes rows>       C08 on the implementation's rows
//!   ix.rs.balances / ix.rs.runes                          get_rune_balances() / runes() vs model
use {
  bitcoin::{
    Amount, Block, OutPoint, ScriptBuf, Sequence, Transaction, TxIn, TxOut, Witness,
    absolute::LockTime,
    script,
    transaction::Version,
  },
  common::*,
  ixlib::{
    Ctx,
    chaingen::{Gen, op_return, p2tr, p2wpkh},
    emit,
    env::{self, Flags, Node, UpdateOutcome, make_header},
  },
  ordinals::{Artifact, Edict, Etching, RuneId, Runestone, Terms},
  std::{
    collections::{BTreeMap, HashMap, HashSet},
    path::Path,
    time::Duration,
  },
};

#[derive(Default)]
struct PState {
  case: Option<u64>,
  /// last height the probe has replayed
  height: u32,
  /// the implementation's `runes` section at that height
  prev: String,
}

/// outpoint → [(id, amount)] of the `balances` rows; ids of the `rune` rows
fn parse_runes_section(rows: &[String]) -> (BTreeMap<String, Vec<(String, u128)>>, HashSet<String>) {
  let mut bals = BTreeMap::new();
  let mut ids = HashSet::new();
  for row in rows {
    let mut it = row.split(' ');
    match it.next() {
      Some("balances") => {
        let op = it.next().unwrap().to_string();
        let list = it
          .next()
          .unwrap_or("")
          .split(',')
          .filter(|p| !p.is_empty())
          .map(|p| {
            let (id, a) = p.split_once('=').unwrap();
            (id.to_string(), a.parse::<u128>().unwrap())
          })
          .collect::<Vec<_>>();
        bals.insert(op, list);
      }
      Some("rune") => {
        ids.insert(it.next().unwrap().to_string());
      }
      _ => {}
    }
  }
  (bals, ids)
}

/// per transaction: rows from the RuneTransferred events (vout → [(id, amount)] in event order)
/// and the RuneBurned events; `None` when the update produced no event stream
#[derive(Default)]
struct TxEvents {
  rows: BTreeMap<u32, Vec<(String, u128)>>,
  burned: Vec<(String, u128)>,
}

fn parse_events(events: &str) -> HashMap<String, TxEvents> {
  let mut m: HashMap<String, TxEvents> = HashMap::new();
  if events == "-" {
    return m;
  }
  for e in events.split('|') {
    let f = |key: &str| -> Option<&str> { e.split(' ').find_map(|t| t.strip_prefix(key)) };
    if e.starts_with("RuneTransferred") {
      let txid = f("txid=").unwrap().to_string();
      let (_, vout) = f("outpoint=").unwrap().split_once(':').unwrap();
      m.entry(txid).or_default().rows.entry(vout.parse().unwrap()).or_default().push((f("rune=").unwrap().to_string(), f("amount=").unwrap().parse().unwrap()));
    } else if e.starts_with("RuneBurned") {
      let txid = f("txid=").unwrap().to_string();
      m.entry(txid).or_default().burned.push((f("rune=").unwrap().to_string(), f("amount=").unwrap().parse().unwrap()));
    }
  }
  m
}

fn terms_str(t: &Option<ordinals::Terms>) -> String {
  let o = |x: Option<String>| x.unwrap_or("-".into());
  match t {
    None => "-".into(),
    Some(t) => format!(
      "amount:{}/cap:{}/height:{}:{}/offset:{}:{}",
      o(t.amount.map(|x| x.to_string())),
      o(t.cap.map(|x| x.to_string())),
      o(t.height.0.map(|x| x.to_string())),
      o(t.height.1.map(|x| x.to_string())),
      o(t.offset.0.map(|x| x.to_string())),
      o(t.offset.1.map(|x| x.to_string())),
    ),
  }
}

fn join_or(mut v: Vec<String>, sep: &str) -> String {
  v.sort();
  if v.is_empty() { "-".into() } else { v.join(sep) }
}

fn edict_dist(
  tx: &Transaction,
  art: &Option<Artifact>,
  prev_bals: &BTreeMap<String, Vec<(String, u128)>>,
  dist: &mut Dist,
) {
  let n = tx.output.len();
  let eligible = tx.output.iter().filter(|o| !o.script_pubkey.is_op_return()).count();
  // balances the transaction brings in from rows of the previous probe (in-block chains unknown)
  let mut inb: HashMap<String, u128> = HashMap::new();
  for i in &tx.input {
    if let Some(row) = prev_bals.get(&i.previous_output.to_string()) {
      for (id, a) in row {
        *inb.entry(id.clone()).or_default() += *a;
      }
    }
  }
  if !inb.is_empty() {
    dist.hit("rs_tx_runic_inputs");
    if art.is_none() {
      dist.hit("rs_transfer_without_runestone");
    }
    if eligible == 0 {
      dist.hit("rs_runic_inputs_no_eligible_output");
    }
    if inb.len() > 1 {
      dist.hit("rs_tx_several_runes_in");
    }
  }
  match art {
    None => {}
    Some(Artifact::Cenotaph(c)) => {
      dist.hit("rs_cenotaph");
      if !inb.is_empty() {
        dist.hit("rs_cenotaph_with_runic_inputs");
      }
      if c.mint.is_some() {
        dist.hit("rs_cenotaph_mint");
      }
      if c.etching.is_some() {
        dist.hit("rs_cenotaph_etching");
      }
    }
    Some(Artifact::Runestone(r)) => {
      dist.hit("rs_runestone");
      if let Some(p) = r.pointer {
        dist.hit("rs_pointer");
        if tx.output.get(p as usize).map(|o| o.script_pubkey.is_op_return()).unwrap_or(false) {
          dist.hit("rs_pointer_to_opreturn");
        }
      }
      if r.mint.is_some() {
        dist.hit("rs_mint_field");
      }
      if r.etching.is_some() {
        dist.hit("rs_etching_field");
      }
      let mut seen: HashSet<RuneId> = HashSet::new();
      for e in &r.edicts {
        dist.hit("rs_edict");
        if !seen.insert(e.id) {
          dist.hit("rs_edict_repeated_id");
        }
        if e.id == RuneId::default() {
          dist.hit(if r.etching.is_some() { "rs_edict_id00_with_etching" } else { "rs_edict_id00_no_etching" });
        }
        let bal = inb.get(&e.id.to_string()).copied();
        if e.id != RuneId::default() {
          dist.hit(if bal.is_some() { "rs_edict_rune_in_inputs" } else { "rs_edict_rune_not_in_inputs" });
        }
        if e.output as usize == n {
          if e.amount == 0 {
            dist.hit("rs_edict_split");
            if let Some(b) = bal {
              if eligible > 0 && b > 0 {
                dist.hit(if b % eligible as u128 != 0 { "rs_edict_split_remainder" } else { "rs_edict_split_exact" });
              }
            }
          } else {
            dist.hit("rs_edict_each");
            if let Some(b) = bal {
              if eligible > 0 && e.amount.saturating_mul(eligible as u128) > b {
                dist.hit("rs_edict_each_exhausts");
              }
            }
          }
          if eligible == 0 {
            dist.hit("rs_edict_all_outputs_none_eligible");
          }
        } else {
          if e.amount == 0 {
            dist.hit("rs_edict_amount0_single");
          }
          if let Some(b) = bal {
            if e.amount > b {
              dist.hit("rs_edict_over_balance");
            }
          }
          if tx.output.get(e.output as usize).map(|o| o.script_pubkey.is_op_return()).unwrap_or(false) {
            dist.hit("rs_edict_to_opreturn");
          }
        }
      }
    }
  }
}

fn probe(ps: &mut PState, ctx: &Ctx, have_events: bool, out: &mut Streams, dist: &mut Dist) {
  if !ctx.flags.runes {
    return;
  }
  if ps.case != Some(ctx.case) {
    *ps = PState { case: Some(ctx.case), height: 0, prev: "-".into() };
  }
  let now = ctx.secs["runes"].clone();
  let tip = ctx.node.height();
  let prev_rows: Vec<String> = if ps.prev == "-" { Vec::new() } else { ps.prev.split('|').map(|s| s.to_string()).collect() };
  let (prev_bals, _) = parse_runes_section(&prev_rows);
  let (new_bals, new_ids) = parse_runes_section(ctx.rows);

  // ---- C09: specification-level replay of the blocks indexed since the last probe
  out.emit(&format!("ix.rs.begin {}", ps.prev), "ok");
  let blocks: Vec<(u32, Block)> = ((ps.height + 1)..=tip).map(|h| (h, ctx.node.block_at(h))).collect();
  let mut spent: HashSet<OutPoint> = HashSet::new();
  for (_, b) in &blocks {
    for tx in &b.txdata {
      for i in &tx.input {
        spent.insert(i.previous_output);
      }
    }
  }
  let evs = parse_events(if have_events { ctx.events } else { "-" });
  let mut maybe: HashSet<String> = prev_bals.keys().cloned().collect();
  for (h, b) in &blocks {
    for (i, tx) in b.txdata.iter().enumerate() {
      let art = Runestone::decipher(tx);
      let runic_in = tx.input.iter().any(|inp| maybe.contains(&inp.previous_output.to_string()));
      if art.is_none() && !runic_in {
        continue;
      }
      let txid = tx.compute_txid();
      for v in 0..tx.output.len() {
        maybe.insert(format!("{txid}:{v}"));
      }
      edict_dist(tx, &art, &prev_bals, dist);
      let ins = tx.input.iter().map(|x| x.previous_output.to_string()).collect::<Vec<_>>().join(",");
      let outs: String = tx.output.iter().map(|o| if o.script_pubkey.is_op_return() { '1' } else { '0' }).collect();
      let etched = new_ids.contains(&format!("{h}:{i}"));
      if etched {
        dist.hit("rs_etched");
      }
      let obs = (0..tx.output.len())
        .map(|v| {
          let op = OutPoint { txid, vout: v as u32 };
          if spent.contains(&op) {
            // spent later in this update: only the events tell what it held
            if !have_events {
              dist.hit("rs_obs_unknown");
              return format!("{v}:?");
            }
            dist.hit("rs_obs_from_events");
            match evs.get(&txid.to_string()).and_then(|t| t.rows.get(&(v as u32))) {
              Some(row) => format!("{v}:={}", row.iter().map(|(id, a)| format!("{id}={a}")).collect::<Vec<_>>().join("+")),
              None => format!("{v}:=-"),
            }
          } else {
            match new_bals.get(&op.to_string()) {
              Some(row) => {
                dist.hit("rs_obs_row");
                format!("{v}:={}", row.iter().map(|(id, a)| format!("{id}={a}")).collect::<Vec<_>>().join("+"))
              }
              None => format!("{v}:=-"),
            }
          }
        })
        .collect::<Vec<_>>();
      let burned = if !have_events {
        "?".to_string()
      } else {
        match evs.get(&txid.to_string()) {
          Some(t) if !t.burned.is_empty() => {
            dist.hit("rs_tx_burned");
            t.burned.iter().map(|(id, a)| format!("{id}={a}")).collect::<Vec<_>>().join("+")
          }
          _ => "-".to_string(),
        }
      };
      out.emit(
        &format!(
          "ix.oracle.alloc {h} {i} {txid} {} {} {} {} {} {burned}",
          if ins.is_empty() { "-".into() } else { ins },
          if outs.is_empty() { "-".into() } else { outs },
          emit::artifact_str(&art),
          etched as u8,
          if obs.is_empty() { "-".into() } else { obs.join(",") },
        ),
        "true",
      );
      dist.hit("rs_alloc_line");
    }
  }
  out.emit(&format!("ix.oracle.blockend {now}"), "true");

  // ---- C08 on the implementation's rows
  let flags = new_bals
    .keys()
    .filter_map(|op| {
      let (txid, vout) = op.split_once(':').unwrap();
      let txid: bitcoin::Txid = txid.parse().unwrap();
      ctx.g.txs.get(&txid).and_then(|(tx, _)| tx.output.get(vout.parse::<usize>().unwrap())).map(|o| format!("{op}={}", o.script_pubkey.is_op_return() as u8))
    })
    .collect::<Vec<_>>();
  out.emit(&format!("ix.oracle.conserved {} ; {now}", if flags.is_empty() { "-".into() } else { flags.join(",") }), "true");

  // ---- the real APIs against the model
  let api_bals = ctx
    .ix
    .index
    .get_rune_balances()
    .unwrap()
    .into_iter()
    .map(|(op, row)| format!("{op} {}", if row.is_empty() { "-".to_string() } else { row.iter().map(|(id, a)| format!("{id}={a}")).collect::<Vec<_>>().join(",") }))
    .collect::<Vec<_>>();
  out.emit("ix.rs.balances", &join_or(api_bals, "|"));
  let api_runes = ctx
    .ix
    .index
    .runes()
    .unwrap()
    .into_iter()
    .map(|(id, e)| format!("{id} block={} burned={} mints={} premine={} terms={}", e.block, e.burned, e.mints, e.premine, terms_str(&e.terms)))
    .collect::<Vec<_>>();
  out.emit("ix.rs.runes", &join_or(api_runes, "|"));

  ps.height = tip;
  ps.prev = now;
}

// ------------------------------------------------------------------ crafted scenarios

fn coinbase(height: u32) -> Transaction {
  Transaction {
    version: Version(2),
    lock_time: LockTime::ZERO,
    input: vec![TxIn {
      previous_output: OutPoint::null(),
      script_sig: script::Builder::new().push_int(i64::from(height)).into_script(),
      sequence: Sequence::MAX,
      witness: Witness::new(),
    }],
    output: vec![TxOut { value: Amount::from_sat(5_000_000_000), script_pubkey: p2tr(7) }],
  }
}

fn tx(inputs: &[OutPoint], outputs: Vec<ScriptBuf>) -> Transaction {
  Transaction {
    version: Version(2),
    lock_time: LockTime::ZERO,
    input: inputs
      .iter()
      .map(|p| TxIn { previous_output: *p, script_sig: ScriptBuf::new(), sequence: Sequence::MAX, witness: Witness::new() })
      .collect(),
    output: outputs.into_iter().map(|s| TxOut { value: Amount::from_sat(if s.is_op_return() { 0 } else { 10_000 }), script_pubkey: s }).collect(),
  }
}

fn rs(edicts: Vec<Edict>, etching: Option<Etching>, mint: Option<RuneId>, pointer: Option<u32>) -> ScriptBuf {
  Runestone { edicts, etching, mint, pointer }.encipher()
}

fn damaged(script: ScriptBuf) -> ScriptBuf {
  // append the unrecognized even tag 126 with a value: a cenotaph that keeps its etching / mint
  let mut b = script.to_bytes();
  b.extend([0x02, 0x7e, 0x01]);
  ScriptBuf::from_bytes(b)
}

fn ed(id: RuneId, amount: u128, output: u32) -> Edict {
  Edict { id, amount, output }
}

struct Scn<'a> {
  node: Node,
  ix: env::Ix,
  g: Gen,
  ps: PState,
  flags: Flags,
  out: &'a mut Streams,
  dist: &'a mut Dist,
  case: u64,
}

impl Scn<'_> {
  /// mine a block with these transactions, index it, describe it to the model, run the probe
  fn block(&mut self, txs: Vec<Transaction>) -> Vec<bitcoin::Txid> {
    let h = self.node.height() + 1;
    let mut txdata = vec![coinbase(h)];
    txdata.extend(txs);
    let ids = txdata.iter().map(|t| t.compute_txid()).collect();
    let block = Block { header: make_header(self.node.tip(), h, h), txdata };
    self.g.absorb(&block, h);
    self.node.push_block(block.clone());
    match env::update(&self.ix, Duration::from_secs(120)) {
      UpdateOutcome::Ok => {}
      UpdateOutcome::Err(e) => panic!("scenario: update failed: {e}"),
      UpdateOutcome::Panic(p) => panic!("scenario: update panicked: {p}"),
      UpdateOutcome::Hang => panic!("scenario: update hung"),
    }
    emit::emit_block(self.out, h, &block, self.g.network, &self.g.txs);
    self.out.emit("endblock", "ok");
    let rows = self.ix.index.verif_dump().unwrap();
    let secs = env::sections(&rows);
    for n in ["chain", "stats", "runes"] {
      self.out.emit(&format!("dump {n}"), &secs[n]);
    }
    let mut evs = Vec::new();
    if let Some(rx) = self.ix.events.as_mut() {
      while let Ok(e) = rx.try_recv() {
        evs.push(env::render_event(&e));
      }
    }
    let evs = env::canon_events(evs);
    self.out.emit("events", &evs);
    let ctx = Ctx { ix: &self.ix, node: &self.node, g: &self.g, flags: self.flags, chain: "regtest", case: self.case, rows: &rows, secs: env::sections(&rows), events: &evs, first_new_height: h };
    probe(&mut self.ps, &ctx, true, self.out, self.dist);
    self.out.emit(&format!("index.oracle.nofail {} {h} ok", self.case), "true");
    self.dist.hit("scn_block");
    ids
  }
}

fn op(txid: bitcoin::Txid, vout: u32) -> OutPoint {
  OutPoint { txid, vout }
}

/// the documented allocation rules, one crafted transaction (or more) per rule
fn scenario(out: &mut Streams, dist: &mut Dist, scratch: &Path, case: u64, variant: u64) {
  let node = Node::new("regtest", scratch);
  let flags = Flags { sats: false, addr: false, tx: false, ins: false, runes: true };
  let ix = env::open(&node, scratch, flags, &[], true);
  let mut g = Gen::new(Rng::new(0), node.core.state().network);
  let genesis = node.block_at(0);
  g.absorb(&genesis, 0);
  out.emit("cfg sats=0 addr=0 tx=0 ins=0 runes=1 first_ins=0 jubilee=110 first_rune=0", "ok");
  emit::emit_block(out, 0, &genesis, g.network, &g.txs);
  out.emit("endblock", "ok");
  let mut s = Scn { node, ix, g, ps: PState::default(), flags, out, dist, case };
  // funding coinbases
  let mut cbs = Vec::new();
  for _ in 0..12 {
    cbs.push(op(s.block(vec![])[0], 0));
  }
  let mut fund = cbs.into_iter();
  // the variant scales amounts so that different runs see different remainders
  let k = 1 + variant as u128;
  let terms = Terms { amount: Some(10 * k), cap: Some(3), height: (None, None), offset: (None, None) };
  let etch = |premine: u128, terms: Option<Terms>| Etching { divisibility: None, premine: Some(premine), rune: None, spacers: None, symbol: None, terms, turbo: false };

  // R4 + R8: etch A (reserved name: no commitment needed), premine 1000k, edict 0:0 → output 0, rest by default
  let h = s.node.height() + 1;
  let a = RuneId { block: h.into(), tx: 1 };
  let t = tx(&[fund.next().unwrap()], vec![p2tr(1), rs(vec![ed(RuneId::default(), 400 * k, 0)], Some(etch(1000 * k, Some(terms))), None, None)]);
  let t_etch = s.block(vec![t])[1];
  s.dist.hit("scn_etch_premine_edict00");

  // R7: split with remainder over 3 eligible outputs (OP_RETURN in the middle is skipped)
  let t = tx(&[op(t_etch, 0)], vec![p2tr(1), p2tr(2), rs(vec![ed(a, 0, 4)], None, None, None), p2wpkh(3)]);
  let t_split = s.block(vec![t])[1];
  s.dist.hit("scn_split_remainder");

  // R6 + R3: 150k each, the last one capped; a second edict for the same rune finds nothing left
  let t = tx(&[op(t_split, 0)], vec![p2tr(1), rs(vec![ed(a, 150 * k, 4), ed(a, 7, 0)], None, None, None), p2tr(2), p2tr(3)]);
  let t_each = s.block(vec![t])[1];
  s.dist.hit("scn_each_capped");

  // R2/R5/R9: repeated id, then amount 0 = all remaining, sent to the OP_RETURN output: burned
  let t = tx(&[op(t_split, 1), op(t_split, 3)], vec![p2tr(1), rs(vec![ed(a, 100, 0), ed(a, 100, 0), ed(a, 0, 1)], None, None, None), p2tr(2)]);
  let t_multi = s.block(vec![t])[1];
  s.dist.hit("scn_repeated_id_all_to_opreturn");

  // mint + pointer
  let t = tx(&[fund.next().unwrap()], vec![p2tr(1), p2tr(2), rs(vec![], None, Some(a), Some(1))]);
  let t_mint = s.block(vec![t])[1];
  s.dist.hit("scn_mint_pointer");

  // mint + pointer to the OP_RETURN output: burned
  let t = tx(&[fund.next().unwrap()], vec![p2tr(1), p2tr(2), rs(vec![], None, Some(a), Some(2))]);
  s.block(vec![t]);
  s.dist.hit("scn_mint_pointer_opreturn");

  // R10: cenotaph with runic inputs and a mint: both burned, the mint counts (cap reached)
  let t = tx(&[op(t_each, 0)], vec![p2tr(1), damaged(rs(vec![ed(a, 1, 0)], None, Some(a), None))]);
  s.block(vec![t]);
  s.dist.hit("scn_cenotaph_burns_inputs_and_mint");

  // mint beyond the cap: nothing minted; and a transfer without runestone: first non-OP_RETURN output
  let t1 = tx(&[fund.next().unwrap()], vec![p2tr(1), rs(vec![], None, Some(a), None)]);
  let t2 = tx(&[op(t_each, 2)], vec![op_return(b"x"), p2tr(4)]);
  let t_plain = s.block(vec![t1, t2])[2];
  s.dist.hit("scn_mint_capped");
  s.dist.hit("scn_transfer_without_runestone");

  // R9: no eligible output at all: burned
  let t = tx(&[op(t_each, 3)], vec![op_return(b"only")]);
  s.block(vec![t]);
  s.dist.hit("scn_no_eligible_output");

  // R10: etching inside a cenotaph: supply zero, unmintable; a later mint of it does nothing
  let h = s.node.height() + 1;
  let c = RuneId { block: h.into(), tx: 1 };
  // (a cenotaph keeps only the NAME of its etching, so the rune must be named and committed to:
  // the funding coinbase output is P2TR and has more than six confirmations)
  let name = ordinals::Rune(ordinals::Rune::minimum_at_height(s.g.network, ordinals::Height(h)).0 + 4242 + variant as u128);
  let mut e = etch(500, Some(terms));
  e.rune = Some(name);
  let mut t = tx(&[fund.next().unwrap()], vec![p2tr(1), damaged(rs(vec![], Some(e), None, None))]);
  let commit = script::Builder::new().push_slice(bitcoin::script::PushBytesBuf::try_from(name.commitment()).unwrap()).into_script();
  t.input[0].witness = Witness::from_slice(&[commit.into_bytes(), Vec::new()]);
  s.block(vec![t]);
  assert!(s.ix.index.get_rune_by_id(c).unwrap() == Some(name), "scenario: the cenotaph etching did not etch");
  let t = tx(&[fund.next().unwrap()], vec![p2tr(1), rs(vec![], None, Some(c), None)]);
  s.block(vec![t]);
  s.dist.hit("scn_cenotaph_etching");

  // R3/R4: 0:0 without etching ignored; over-balance takes everything; nothing left; unknown rune
  let t = tx(
    &[op(t_mint, 1), op(t_multi, 0)],
    vec![p2tr(1), p2tr(2), rs(vec![ed(RuneId::default(), 5, 0), ed(a, u128::MAX, 1), ed(a, 5, 0), ed(RuneId { block: 99, tx: 1 }, 7, 0)], None, None, None)],
  );
  let t_over = s.block(vec![t])[1];
  s.dist.hit("scn_over_balance_id00_unknown");

  // R7 exact split of a premine via 0:0, second rune B; then a chain inside one block; two runes in one output
  let h = s.node.height() + 1;
  let b = RuneId { block: h.into(), tx: 1 };
  let t = tx(&[fund.next().unwrap()], vec![p2tr(1), p2tr(2), rs(vec![ed(RuneId::default(), 0, 3)], Some(etch(100, None)), None, None)]);
  let t_b = s.block(vec![t])[1];
  s.dist.hit("scn_split_exact_premine");
  let t1 = tx(&[op(t_b, 0), op(t_over, 1)], vec![p2tr(1), rs(vec![ed(a, 3, 2), ed(b, 7, 2)], None, None, Some(0)), p2tr(5)]);
  let t1id = t1.compute_txid();
  let t2 = tx(&[op(t1id, 0), op(t1id, 2)], vec![p2tr(1), p2tr(2), p2tr(3), rs(vec![ed(a, 0, 4), ed(b, 4, 4)], None, None, Some(2))]);
  s.block(vec![t1, t2]);
  s.dist.hit("scn_in_block_chain_two_runes");

  // a runic output spent by a transaction whose every edict targets an OP_RETURN via "all outputs" with none eligible
  let t = tx(&[op(t_b, 1), op(t_plain, 1)], vec![rs(vec![ed(b, 0, 1), ed(a, 5, 1)], None, None, None)]);
  s.block(vec![t]);
  s.dist.hit("scn_all_outputs_none_eligible");
}


/// randomized rune traffic: every block spends live runic outputs with edicts over the runes they
/// hold (ids from the inputs, `0:0`, known, unknown; amounts 0 / 1 / half / all / all+1 / huge;
/// output any or "all outputs"), mints live runes, etches (reserved names), points anywhere,
/// sprinkles OP_RETURN outputs and damages one runestone in ten into a cenotaph
fn random_traffic(out: &mut Streams, dist: &mut Dist, scratch: &Path, case: u64, rng: &mut Rng, nblocks: u64) {
  let node = Node::new("regtest", scratch);
  let flags = Flags { sats: false, addr: false, tx: false, ins: false, runes: true };
  let ix = env::open(&node, scratch, flags, &[], true);
  let mut g = Gen::new(Rng::new(0), node.core.state().network);
  let genesis = node.block_at(0);
  g.absorb(&genesis, 0);
  out.emit("cfg sats=0 addr=0 tx=0 ins=0 runes=1 first_ins=0 jubilee=110 first_rune=0", "ok");
  emit::emit_block(out, 0, &genesis, g.network, &g.txs);
  out.emit("endblock", "ok");
  let mut s = Scn { node, ix, g, ps: PState::default(), flags, out, dist, case };
  let mut funds: Vec<OutPoint> = Vec::new();
  for _ in 0..2 {
    funds.push(op(s.block(vec![])[0], 0));
  }
  for _ in 0..nblocks {
    let h = s.node.height() + 1;
    let bals: Vec<(OutPoint, Vec<(RuneId, u128)>)> = s.ix.index.get_rune_balances().unwrap();
    let runes: Vec<RuneId> = s.ix.index.runes().unwrap().into_iter().map(|(id, _)| id).collect();
    let mut free: Vec<(OutPoint, Vec<(RuneId, u128)>)> = bals;
    let mut txs: Vec<Transaction> = Vec::new();
    let ntx = 1 + rng.below(3);
    for ti in 0..ntx {
      // inputs
      let mut inputs: Vec<OutPoint> = Vec::new();
      let mut held: Vec<(RuneId, u128)> = Vec::new();
      let nrunic = rng.below(4).min(free.len() as u64);
      for _ in 0..nrunic {
        let k = rng.below(free.len() as u64) as usize;
        let (o, row) = free.swap_remove(k);
        inputs.push(o);
        for (id, a) in row {
          match held.iter_mut().find(|(i, _)| *i == id) {
            Some(e) => e.1 += a,
            None => held.push((id, a)),
          }
        }
      }
      // an output of an earlier transaction of this block (balances unknown to the generator)
      if ti > 0 && rng.chance(1, 2) {
        let prev: &Transaction = &txs[rng.below(txs.len() as u64) as usize];
        let v = rng.below(prev.output.len() as u64) as u32;
        let o = OutPoint { txid: prev.compute_txid(), vout: v };
        if !prev.output[v as usize].script_pubkey.is_op_return() && !txs.iter().any(|t| t.input.iter().any(|i| i.previous_output == o)) && !inputs.contains(&o) {
          inputs.push(o);
          s.dist.hit("rtx_in_block_input");
        }
      }
      if inputs.is_empty() || rng.chance(1, 3) {
        if let Some(f) = funds.pop() {
          inputs.push(f);
        }
      }
      if inputs.is_empty() {
        continue;
      }
      // outputs
      let nplain = 1 + rng.below(4) as usize;
      let mut outs: Vec<ScriptBuf> = (0..nplain).map(|k| if rng.chance(1, 5) { op_return(b"d") } else if k % 2 == 0 { p2tr(1 + k as u8) } else { p2wpkh(1 + k as u8) }).collect();
      if rng.chance(5, 6) {
        let n = (outs.len() + 1) as u32;
        let eligible = outs.iter().filter(|o| !o.is_op_return()).count() as u128;
        let etching = if rng.chance(1, 5) {
          s.dist.hit("rtx_etching");
          Some(Etching {
            divisibility: None,
            premine: match rng.below(3) { 0 => None, 1 => Some(0), _ => Some(1 + rng.below(1000) as u128) },
            rune: None,
            spacers: None,
            symbol: None,
            terms: if rng.chance(1, 2) { Some(Terms { amount: Some(1 + rng.below(50) as u128), cap: Some(rng.below(4) as u128), height: (None, None), offset: (None, None) }) } else { None },
            turbo: false,
          })
        } else {
          None
        };
        let mint = if !runes.is_empty() && rng.chance(1, 3) { Some(*rng.pick(&runes)) } else { None };
        let pointer = if rng.chance(1, 2) { Some(rng.below(u64::from(n)) as u32) } else { None };
        let mut edicts = Vec::new();
        for _ in 0..rng.below(5) {
          let (id, bal) = match rng.below(10) {
            0..=5 if !held.is_empty() => *rng.pick(&held),
            6 => (RuneId::default(), 500),
            7 if !runes.is_empty() => (*rng.pick(&runes), 10),
            8 => (RuneId { block: u64::from(h) + 5, tx: 1 }, 10),
            _ if !held.is_empty() => *rng.pick(&held),
            _ => (RuneId::default(), 100),
          };
          let amount = match rng.below(10) {
            0 | 8 | 9 => 0,
            1 => 1,
            2 => bal / 2,
            3 => bal,
            4 => bal + 1,
            5 => u128::MAX,
            6 => bal / (eligible.max(1)) + rng.below(2) as u128,
            _ => rng.below(bal as u64 + 2) as u128,
          };
          let output = match rng.below(12) {
            0..=3 => n,
            4 => n + 1, // makes the runestone a cenotaph
            _ => rng.below(u64::from(n)) as u32,
          };
          if output == n {
            s.dist.hit(if amount == 0 { "rtx_edict_split" } else { "rtx_edict_each" });
            if amount == 0 && eligible > 0 && bal % eligible != 0 && held.iter().any(|(i, _)| *i == id) {
              s.dist.hit("rtx_edict_split_remainder_on_inputs");
            }
          }
          if amount > bal && held.iter().any(|(i, _)| *i == id) {
            s.dist.hit("rtx_edict_over_input_balance");
          }
          edicts.push(Edict { id, amount, output });
        }
        let mut script = rs(edicts, etching, mint, pointer);
        if rng.chance(1, 10) {
          script = damaged(script);
          s.dist.hit("rtx_damaged");
        }
        let pos = rng.below(outs.len() as u64 + 1) as usize;
        outs.insert(pos, script);
      } else {
        s.dist.hit("rtx_no_runestone");
      }
      if !held.is_empty() {
        s.dist.hit("rtx_tx_with_runic_inputs");
      }
      txs.push(tx(&inputs, outs));
      s.dist.hit("rtx_tx");
    }
    let ids = s.block(txs);
    funds.push(op(ids[0], 0));
  }
}

fn main() {
  let args = Args::parse();
  match args.stream.as_str() {
    "chain" => {
      let mut ps = PState::default();
      ixlib::run(&args, &mut |ctx, _rng, out, dist| probe(&mut ps, ctx, true, out, dist));
    }
    "scenarios" => {
      let mut out = Streams::create(&args.out);
      let mut dist = Dist::default();
      let scratch = args.out.join("scratch");
      std::fs::create_dir_all(&scratch).unwrap();
      let mut rng = Rng::new(args.seed);
      for case in 0..args.cases.max(1) {
        // case 0 is always the fixed scenario; later cases scale the amounts
        let variant = if case == 0 { 0 } else { rng.below(50) };
        scenario(&mut out, &mut dist, &scratch, case, variant);
      }
      let _ = std::fs::remove_dir_all(&scratch);
      dist.write(&args.out);
      out.finish();
    }
    "rtx" => {
      let mut out = Streams::create(&args.out);
      let mut dist = Dist::default();
      let scratch = args.out.join("scratch");
      std::fs::create_dir_all(&scratch).unwrap();
      let mut rng = Rng::new(args.seed);
      let nblocks = args.get("blocks").map(|v| v.parse().unwrap()).unwrap_or(30u64);
      for case in 0..args.cases {
        let mut r = rng.fork();
        random_traffic(&mut out, &mut dist, &scratch, case, &mut r, nblocks);
      }
      let _ = std::fs::remove_dir_all(&scratch);
      dist.write(&args.out);
      out.finish();
    }
    s => panic!("unknown stream {s}"),
  }
}
