//! Stream `runeparse` (rune part of C31): `Rune::from_str`, `SpacedRune::from_str`,
//! `RuneId::from_str` on arbitrary text.
use {crate::util::*, common::*};

const KINDS: [&str; 3] = ["rune", "spaced", "id"];

/// the implementation's answer to one request line (also used by --replay)
pub fn answer(toks: &[&str]) -> String {
  let bad = || "bad-op".to_string();
  match toks {
    ["runeparse.rune", h] => text_arg(h).map(|s| rune_parse(&s)).unwrap_or_else(bad),
    ["runeparse.spaced", h] => text_arg(h).map(|s| spaced_parse(&s)).unwrap_or_else(bad),
    ["runeparse.id", h] => text_arg(h).map(|s| id_parse(&s)).unwrap_or_else(bad),
    [op, ..] if op.starts_with("runeparse.oracle.") => "true".into(),
    _ => bad(),
  }
}

/// one string to one parser: the answer, then the soundness oracle on that answer
fn emit(out: &mut Streams, dist: &mut Dist, kind: &str, s: &str) {
  let h = hextext(s);
  let op = format!("runeparse.{kind} {h}");
  let ans = answer(&[&format!("runeparse.{kind}"), &h]);
  out.emit(&op, &ans);
  out.emit(&format!("runeparse.oracle.{kind} {h} {}", colon(&ans)), "true");
  dist.hit(&class(kind, &ans));
}

fn fixed() -> Vec<String> {
  let a = |n: usize| "A".repeat(n);
  let mut v: Vec<String> = [
  "",
  "A",
  "AA",
  "Z",
  "a",
  "A.A",
  "A•A",
  ".A",
  "A.",
  "A..A",
  "A.•A",
  "BCGDENLQRQWDSLRUGSNLBTMFIJAV",
  "BCGDENLQRQWDSLRUGSNLBTMFIJAW",
  "0:0",
  "1:1",
  "0:5",
  "+1:+2",
  "-1:2",
  "1:-2",
  " 1:2",
  "1: 2",
  "1:2 ",
  "1",
  "1:",
  ":1",
  ":",
  "1:2:3",
  "18446744073709551615:4294967295",
  "18446744073709551616:0",
  "0:4294967296",
  "00000000000000000000000000001:0000000000000000002",
  "1_0:2",
  "1:٣",
  "++1:2",
  "+:1",
  "-:1",
  "99999999999999999999999x:1",
  "1844674407370955161x:1",
  // a few more boundaries of the same kinds
  "1:+",
  "1:-",
  "+0:+0",
  "B.C•D",
  "@[:`{",
  ]
  .iter()
  .map(|s| s.to_string())
  .collect();
  // 33 letters; a spacer after 33 letters (`1u32 << 32` panics); after 32 letters (does not)
  v.extend([a(33), a(33) + ".A", a(32) + ".A", a(32) + "•", a(34) + "•", a(40) + ".", a(64)]);
  v
}

/// alphabet of the mutations and of the fully random strings
const ALPHABET: [char; 18] = [
  'A', 'Z', 'a', 'z', '0', '9', '+', '-', ':', '.', '•', ' ', '_', 'É', 'Ａ', '٣', '\u{0}', 'M',
];

/// decimal integer of a random width, sometimes hugging the overflow boundary of `bits`
fn number(rng: &mut Rng, dist: &mut Dist, bits: u32) -> String {
  let max: u128 = (1u128 << bits) - 1;
  let v: u128 = match rng.below(8) {
    0 => {
      dist.hit("id_num_near_max");
      max - 3 + u128::from(rng.below(7))
    }
    1 => {
      // one digit too many / the last digit decides
      dist.hit("id_num_times_ten");
      (max / 10) * 10 + u128::from(rng.below(10)) + if rng.chance(1, 4) { max } else { 0 }
    }
    2 => {
      dist.hit("id_num_wide");
      rng.u128_any_width() >> rng.below(64)
    }
    _ => {
      dist.hit("id_num_fits");
      if bits == 64 {
        u128::from(rng.u64_any_width())
      } else {
        u128::from(u32_any_width(rng))
      }
    }
  };
  let mut s = String::new();
  if rng.chance(1, 6) {
    dist.hit("id_num_plus");
    s.push('+');
  }
  if rng.chance(1, 6) {
    dist.hit("id_num_leading_zeros");
    for _ in 0..rng.range(1, 30) {
      s.push('0');
    }
  }
  s.push_str(&v.to_string());
  s
}

/// a string from (or near) the grammar of parser `kind`
fn shaped(rng: &mut Rng, dist: &mut Dist, kind: usize) -> Vec<char> {
  match kind {
    0 => {
      let len = rng.range(1, 40) as usize;
      dist.hit(&format!("rune_len_{}", len_bucket(len)));
      letters(rng, len)
    }
    1 => {
      let len = rng.range(1, 40) as usize;
      dist.hit(&format!("spaced_len_{}", len_bucket(len)));
      let (num, den) = *rng.pick(&[(0u64, 1u64), (1, 8), (1, 2), (1, 1)]);
      spaced_string(rng, len, num, den)
    }
    _ => {
      let b = number(rng, dist, 64);
      let t = number(rng, dist, 32);
      format!("{b}:{t}").chars().collect()
    }
  }
}

pub fn generate(args: &Args, rng: &mut Rng, out: &mut Streams, dist: &mut Dist) {
  // 1. fixed strings, each to all three parsers
  for s in fixed() {
    for kind in KINDS {
      emit(out, dist, kind, &s);
    }
  }
  // 1b. exhaustive small scope (`--exhaustive L`, default 0 = off; done once, by shard 0):
  // every string of length <= L over a small alphabet per parser
  let exh: usize = args.get("exhaustive").map(|v| v.parse().unwrap()).unwrap_or(0);
  if exh > 0 {
    let alphabets: [(&str, &[char]); 3] = [
      ("rune", &['A', 'B', 'Z', 'a', '.']),
      ("spaced", &['A', 'Z', '.', '•', 'a']),
      ("id", &['0', '1', '9', '+', '-', ':']),
    ];
    for (kind, alpha) in alphabets {
      let k = alpha.len();
      for len in 0..=exh {
        let total = k.pow(len as u32);
        for mut x in 0..total {
          let mut s = String::with_capacity(len * 3);
          for _ in 0..len {
            s.push(alpha[x % k]);
            x /= k;
          }
          emit(out, dist, kind, &s);
        }
      }
      dist.add(&format!("exhaustive_{kind}"), (0..=exh).map(|l| k.pow(l as u32) as u64).sum());
    }
  }
  // 2. random
  for _ in 0..args.cases {
    let kind = rng.below(3) as usize;
    let v: Vec<char> = match rng.below(10) {
      0..=5 => {
        dist.hit("gen_shaped");
        shaped(rng, dist, kind)
      }
      6..=8 => {
        let mut v = shaped(rng, dist, kind);
        for _ in 0..rng.range(1, 2) {
          let k = mutate(rng, &mut v, &ALPHABET);
          dist.hit(&format!("gen_mut_{k}"));
        }
        v
      }
      _ => {
        dist.hit("gen_random");
        let len = rng.below(9) as usize;
        (0..len).map(|_| *rng.pick(&ALPHABET)).collect()
      }
    };
    let s: String = v.into_iter().collect();
    emit(out, dist, KINDS[kind], &s);
    if rng.chance(1, 4) {
      dist.hit("gen_cross");
      for other in 0..3 {
        if other != kind {
          emit(out, dist, KINDS[other], &s);
        }
      }
    }
  }
}
