//! Stream `name` (C32): `Display`/`FromStr` of `Rune` and `SpacedRune`, `commitment`,
//! `is_reserved`, `reserved`.
use {
  crate::util::*,
  common::*,
  ordinals::{Rune, SpacedRune},
  std::collections::BTreeSet,
};

/// the implementation's answer to one request line (also used by --replay)
pub fn answer(toks: &[&str]) -> String {
  let bad = || "bad-op".to_string();
  match toks {
    ["rune.print", n] => match n.parse::<u128>() {
      Ok(n) => Rune(n).to_string(),
      Err(_) => bad(),
    },
    ["rune.parse", h] => match text_arg(h) {
      Some(s) => rune_parse(&s),
      None => bad(),
    },
    ["rune.commit", n] => match n.parse::<u128>() {
      Ok(n) => hex(&Rune(n).commitment()),
      Err(_) => bad(),
    },
    ["rune.isreserved", n] => match n.parse::<u128>() {
      Ok(n) => Rune(n).is_reserved().to_string(),
      Err(_) => bad(),
    },
    ["rune.reserved", b, t] => match (b.parse::<u64>(), t.parse::<u32>()) {
      (Ok(b), Ok(t)) => match catch(move || Rune::reserved(b, t)) {
        Ok(r) => format!("ok {}", r.0),
        Err(_) => "panic reserved.checked_add.unwrap".into(),
      },
      _ => bad(),
    },
    ["rune.const", "RESERVED"] => Rune::RESERVED.to_string(),
    ["spaced.print", n, sp] => match (n.parse::<u128>(), sp.parse::<u32>()) {
      (Ok(n), Ok(sp)) => hextext(&SpacedRune::new(Rune(n), sp).to_string()),
      _ => bad(),
    },
    ["spaced.parse", h] => match text_arg(h) {
      Some(s) => spaced_parse(&s),
      None => bad(),
    },
    // oracle lines carry the implementation's own outputs; the model side evaluates the
    // property's predicate on them and must answer "true"
    [op, ..] if op.starts_with("rune.oracle.") || op.starts_with("spaced.oracle.") => {
      "true".into()
    }
    _ => bad(),
  }
}

/// emit a request line answered by `answer` (so generated and replayed answers coincide)
fn ask(out: &mut Streams, op: &str) -> String {
  let toks: Vec<&str> = op.split(' ').collect();
  let ans = answer(&toks);
  out.emit(op, &ans);
  ans
}

fn emit_rune_parse(out: &mut Streams, dist: &mut Dist, s: &str) {
  let back = ask(out, &format!("rune.parse {}", hextext(s)));
  dist.hit(&class("parse", &back));
  dist.hit(&format!("parse_len_{}", len_bucket(s.chars().count())));
  if let Some(v) = back.strip_prefix("ok ") {
    // the accepted string, its value, and what that value prints as
    let printed = Rune(v.parse().unwrap()).to_string();
    out.emit(&format!("rune.oracle.strrt {} {v} {printed}", hextext(s)), "true");
  }
}

fn emit_spaced_parse(out: &mut Streams, dist: &mut Dist, s: &str) {
  let back = ask(out, &format!("spaced.parse {}", hextext(s)));
  dist.hit(&class("spaced", &back));
  if let Some(v) = back.strip_prefix("ok ") {
    // the accepted string, its rune and spacers, and what they print as
    let (n, sp) = v.split_once(' ').unwrap();
    let printed = SpacedRune::new(Rune(n.parse().unwrap()), sp.parse().unwrap()).to_string();
    out.emit(
      &format!("spaced.oracle.strrt {} {n} {sp} {}", hextext(s), hextext(&printed)),
      "true",
    );
  }
}

fn emit_spaced(out: &mut Streams, dist: &mut Dist, n: u128, sp: u32) {
  let printed = ask(out, &format!("spaced.print {n} {sp}"));
  let back = ask(out, &format!("spaced.parse {printed}"));
  out.emit(&format!("spaced.oracle.rt {n} {sp} {printed} {}", colon(&back)), "true");
  dist.hit(&class("spaced_rt", &back));
}

/// the full block for one rune value; returns the length of its name
fn emit_n(out: &mut Streams, dist: &mut Dist, n: u128) -> usize {
  let name = ask(out, &format!("rune.print {n}"));
  let back = ask(out, &format!("rune.parse {}", hextext(&name)));
  out.emit(&format!("rune.oracle.rt {n} {name} {}", colon(&back)), "true");
  let c = ask(out, &format!("rune.commit {n}"));
  out.emit(&format!("rune.oracle.commit {n} {c}"), "true");
  let r = ask(out, &format!("rune.isreserved {n}"));
  out.emit(&format!("rune.oracle.reserved {n} {r}"), "true");
  dist.hit(&format!("name_len_{:02}", name.len()));
  dist.hit(&format!("reserved_{r}"));
  dist.hit(&class("rt", &back));
  name.len()
}

fn value_of(name: &[char]) -> u128 {
  name.iter().collect::<String>().parse::<Rune>().unwrap().0
}

pub fn boundary_values() -> BTreeSet<u128> {
  let mut b: BTreeSet<u128> = [0, 1, 25, 26, 27, u128::MAX, u128::MAX - 1].into();
  let mut p = 26u128;
  loop {
    b.extend([p - 1, p, p + 1]);
    match p.checked_mul(26) {
      Some(q) => p = q,
      None => break,
    }
  }
  for s in STEPS {
    b.insert(s);
    b.insert(s.saturating_sub(1));
    b.insert(s.saturating_add(1));
  }
  b.extend([Rune::RESERVED - 1, Rune::RESERVED, Rune::RESERVED + 1]);
  for k in 1..=127u32 {
    let p = 1u128 << k;
    b.extend([p - 1, p, p + 1]);
  }
  b
}

pub fn generate(args: &Args, rng: &mut Rng, out: &mut Streams, dist: &mut Dist) {
  // 1. boundary values, always
  ask(out, "rune.const RESERVED");
  for n in boundary_values() {
    let len = emit_n(out, dist, n) as u32;
    let mut masks: Vec<u32> = vec![0, 1, 1 << (len - 1), 1 << len, u32::MAX, 0x5555_5555, 0xAAAA_AAAA];
    if len >= 2 {
      masks.push(1 << (len - 2));
    }
    masks.sort();
    masks.dedup();
    for sp in masks {
      emit_spaced(out, dist, n, sp);
    }
  }
  // every mask of len+1 bits on a random name of each short length
  for len in 1..=6usize {
    let n = value_of(&letters(rng, len));
    for sp in 0..(1u32 << (len + 1)) {
      emit_spaced(out, dist, n, sp);
    }
  }
  for (b, t) in [(0u64, 0u32), (0, 1), (1, 0), (u64::MAX, u32::MAX), (u64::MAX, 0), (1 << 32, 0)] {
    ask(out, &format!("rune.reserved {b} {t}"));
  }
  for _ in 0..16 {
    let (b, t) = (rng.u64_any_width(), u32_any_width(rng));
    ask(out, &format!("rune.reserved {b} {t}"));
  }
  for s in ["", "A", "Z", "AA", "BCGDENLQRQWDSLRUGSNLBTMFIJAV", "BCGDENLQRQWDSLRUGSNLBTMFIJAW"] {
    emit_rune_parse(out, dist, s);
    emit_spaced_parse(out, dist, s);
  }

  // 1b. exhaustive small scope (`--exhaustive L`, default 0 = off; once, by shard 0): every
  // string of length <= L over {A,B,Z} to the name parser and over {A,Z,.,•} to the spaced parser
  let exh: usize = args.get("exhaustive").map(|v| v.parse().unwrap()).unwrap_or(0);
  if exh > 0 {
    for (spaced, alpha) in [(false, &['A', 'B', 'Z'][..]), (true, &['A', 'Z', '.', '•'][..])] {
      let k = alpha.len();
      for len in 0..=exh {
        for mut x in 0..k.pow(len as u32) {
          let mut s = String::with_capacity(len * 3);
          for _ in 0..len {
            s.push(alpha[x % k]);
            x /= k;
          }
          if spaced {
            emit_spaced_parse(out, dist, &s);
          } else {
            emit_rune_parse(out, dist, &s);
          }
          dist.hit(if spaced { "exhaustive_spaced" } else { "exhaustive_name" });
        }
      }
    }
  }
  // 2. random
  for case in 0..args.cases {
    match case % 5 {
      0 => {
        let n = rng.u128_any_width();
        emit_n(out, dist, n);
        emit_spaced(out, dist, n, u32_any_width(rng));
        if rng.chance(1, 8) {
          let (b, t) = (rng.u64_any_width(), u32_any_width(rng));
          ask(out, &format!("rune.reserved {b} {t}"));
          dist.hit("reserved_call");
        }
      }
      1 => {
        // valid name strings; lengths 27, 28 partly and 29, 30 always exceed the range
        let len = rng.range(1, 30) as usize;
        let s: String = letters(rng, len).into_iter().collect();
        emit_rune_parse(out, dist, &s);
      }
      2 => {
        // mutated name strings
        let s: String = match rng.below(8) {
          0 => String::new(),
          1 => letters(rng, 40).into_iter().collect(),
          2 => {
            // a single odd character somewhere in a valid name
            let len = rng.range(1, 28) as usize;
            let mut v = letters(rng, len);
            let at = rng.below(len as u64) as usize;
            v[at] = *rng.pick(&ODD);
            v.into_iter().collect()
          }
          3 => {
            // a range error and an invalid character compete: whichever comes first wins
            let len = rng.range(26, 34) as usize;
            let mut v = letters(rng, len);
            let at = rng.below(len as u64) as usize;
            v[at] = *rng.pick(&ODD);
            v.into_iter().collect()
          }
          4 => {
            let len = rng.range(1, 12) as usize;
            let v = letters(rng, len);
            v.into_iter().map(|c| c.to_ascii_lowercase()).collect()
          }
          _ => {
            let len = rng.range(0, 12) as usize;
            let mut v = letters(rng, len);
            let k = mutate(rng, &mut v, &ODD);
            dist.hit(&format!("name_mut_{k}"));
            v.into_iter().collect()
          }
        };
        emit_rune_parse(out, dist, &s);
      }
      3 => {
        // spaced strings from the grammar
        let len = rng.range(1, 40) as usize;
        let (num, den) = *rng.pick(&[(0u64, 1u64), (1, 8), (1, 2), (1, 1)]);
        let s: String = spaced_string(rng, len, num, den).into_iter().collect();
        dist.hit(&format!("spaced_len_{}", len_bucket(len)));
        emit_spaced_parse(out, dist, &s);
      }
      _ => {
        // mutated spaced strings
        let len = rng.range(1, 12) as usize;
        let mut v = spaced_string(rng, len, 1, 3);
        let spacer = |rng: &mut Rng| if rng.chance(1, 2) { '.' } else { '•' };
        let kind = match rng.below(10) {
          0 => {
            v.insert(0, spacer(rng));
            "leading"
          }
          1 => {
            v.push(spacer(rng));
            "trailing"
          }
          2 => {
            // double an existing spacer, or insert two
            match v.iter().position(|c| *c == '.' || *c == '•') {
              Some(at) => v.insert(at, spacer(rng)),
              None => {
                let at = rng.below(v.len() as u64 + 1) as usize;
                v.insert(at, '•');
                v.insert(at, '.');
              }
            }
            "double"
          }
          3 => {
            let at = rng.range(1, v.len() as u64) as usize;
            v.insert(at, '.');
            v.insert(at, '•');
            "mixed_double"
          }
          4 => {
            let at = rng.below(v.len() as u64) as usize;
            v[at] = v[at].to_ascii_lowercase();
            "lowercase"
          }
          5 => {
            let at = rng.below(v.len() as u64 + 1) as usize;
            v.insert(at, (b'0' + rng.below(10) as u8) as char);
            "digit"
          }
          6 => {
            // a spacer after >= 33 letters: `1u32 << 32..` panics in the dev profile
            let len = rng.range(33, 40) as usize;
            v = letters(rng, len);
            let after = rng.range(33, len as u64) as usize;
            v.insert(after, spacer(rng));
            if rng.chance(1, 2) {
              v.push('A');
            }
            "shl_ge_33"
          }
          7 => {
            // the last spacer position that does not panic: after exactly 32 letters
            let len = rng.range(32, 36) as usize;
            v = letters(rng, len);
            v.insert(32, spacer(rng));
            "shl_32"
          }
          8 => {
            let at = rng.below(v.len() as u64 + 1) as usize;
            v.insert(at, *rng.pick(&['É', 'Ａ', '\u{0}', '·', ' ', '\u{2022}', '\u{2024}', '\u{10FFFF}']));
            "unicode"
          }
          _ => mutate(rng, &mut v, &ODD),
        };
        dist.hit(&format!("spaced_mut_{kind}"));
        let s: String = v.into_iter().collect();
        emit_spaced_parse(out, dist, &s);
      }
    }
  }
}
