//! Stream `unlock` (C33): `Rune::first_rune_height`, `minimum_at_height`, `unlock_height`.
use {
  crate::util::*,
  bitcoin::Network,
  common::*,
  ordinals::{Height, Rune},
};

const INTERVAL: u32 = 17_500;
const HALVING: u32 = 210_000;

fn min_at(net: Network, h: u32) -> String {
  match catch(move || Rune::minimum_at_height(net, Height(h))) {
    Ok(r) => r.0.to_string(),
    Err(msg) => format!("panic {}", colon(&msg)),
  }
}

fn height_of(net: Network, r: u128) -> Result<Option<u32>, String> {
  catch(move || Rune(r).unlock_height(net).map(|h| h.0))
}

/// the implementation's answer to one request line (also used by --replay)
pub fn answer(toks: &[&str]) -> String {
  let bad = || "bad-op".to_string();
  match toks {
    ["unlock.first", net] => match net_of(net) {
      Some(net) => Rune::first_rune_height(net).to_string(),
      None => bad(),
    },
    ["unlock.min", net, h] => match (net_of(net), h.parse::<u32>()) {
      (Some(net), Ok(h)) => min_at(net, h),
      _ => bad(),
    },
    ["unlock.height", net, r] => match (net_of(net), r.parse::<u128>()) {
      (Some(net), Ok(r)) => match height_of(net, r) {
        Ok(None) => "none".into(),
        Ok(Some(h)) => format!("some {h}"),
        Err(msg) => format!("panic {}", colon(&msg)),
      },
      _ => bad(),
    },
    // the private table `Rune::STEPS[0..=12]`, observed through `minimum_at_height`
    ["unlock.step", k] => match k.parse::<u32>() {
      Ok(12) => min_at(Network::Bitcoin, 0),
      Ok(k @ 1..=11) => min_at(Network::Regtest, (12 - k) * INTERVAL - 1),
      Ok(0) => min_at(Network::Regtest, HALVING - 1),
      _ => bad(),
    },
    [op, ..] if op.starts_with("unlock.oracle.") => "true".into(),
    _ => bad(),
  }
}

fn ask(out: &mut Streams, op: &str) -> String {
  let toks: Vec<&str> = op.split(' ').collect();
  let ans = answer(&toks);
  out.emit(op, &ans);
  ans
}

/// `unlock.min` at `h` and the monotonicity oracle on (h, h+1)
fn emit_height(out: &mut Streams, dist: &mut Dist, net: &str, h: u32) {
  let m0 = ask(out, &format!("unlock.min {net} {h}"));
  if h < u32::MAX {
    let m1 = min_at(net_of(net).unwrap(), h + 1);
    out.emit(&format!("unlock.oracle.mono {net} {h} {m0} {m1}"), "true");
  }
  let first = Rune::first_rune_height(net_of(net).unwrap());
  dist.hit(if h.saturating_add(1) < first {
    "height_before"
  } else if u64::from(h) + 1 >= u64::from(first) + u64::from(HALVING) {
    "height_after"
  } else if (h + 1 - first) % INTERVAL == 0 {
    "height_on_step"
  } else {
    "height_inside"
  });
}

/// `unlock.height` of `r` and the leastness oracle: min(hgt) <= r < min(hgt - 1)
fn emit_r(out: &mut Streams, dist: &mut Dist, net: &str, r: u128) {
  let ans = ask(out, &format!("unlock.height {net} {r}"));
  let network = net_of(net).unwrap();
  let (hgt, m_at, m_before) = match ans.strip_prefix("some ").map(|h| h.parse::<u32>().unwrap()) {
    None => ("-".to_string(), "-".to_string(), "-".to_string()),
    Some(h) => (
      h.to_string(),
      min_at(network, h),
      if h == 0 { "-".to_string() } else { min_at(network, h - 1) },
    ),
  };
  out.emit(&format!("unlock.oracle.least {net} {r} {hgt} {m_at} {m_before}"), "true");
  dist.hit(match (hgt.as_str(), ans.as_str()) {
    (_, "none") => "unlock_none",
    ("0", _) => "unlock_zero",
    ("-", _) => "unlock_panic",
    _ => "unlock_inside",
  });
}

pub fn generate(args: &Args, rng: &mut Rng, out: &mut Streams, dist: &mut Dist) {
  // 1. boundaries, always
  for (net, _) in NETS {
    ask(out, &format!("unlock.first {net}"));
  }
  for k in 0..=12 {
    ask(out, &format!("unlock.step {k}"));
  }
  for (net, network) in NETS {
    let first = Rune::first_rune_height(network);
    out.emit(
      &format!(
        "unlock.oracle.ends {net} {} {}",
        min_at(network, first),
        min_at(network, first + HALVING - 1)
      ),
      "true",
    );
  }
  for (net, network) in NETS {
    let first = i64::from(Rune::first_rune_height(network));
    let mut hs: Vec<i64> = Vec::new();
    for k in 0..=12i64 {
      for d in -3..=3i64 {
        hs.push(first + k * i64::from(INTERVAL) + d);
      }
    }
    hs.extend([0, 1, 2, first - 2, first - 1, first, first + 1, first + 2]);
    hs.extend([i64::from(u32::MAX), i64::from(u32::MAX) - 1, 1 << 31, (1 << 31) - 1]);
    for h in hs {
      if h >= 0 {
        emit_height(out, dist, net, h.min(i64::from(u32::MAX)) as u32);
      }
    }
    let mut rs: Vec<u128> = vec![0, 1, u128::MAX, Rune::RESERVED - 1, Rune::RESERVED, Rune::RESERVED + 1];
    for s in &STEPS[0..=13] {
      rs.extend([s.saturating_sub(1), *s, s + 1]);
    }
    for r in rs {
      emit_r(out, dist, net, r);
    }
  }

  // 2. sweep over the whole unlock window (`--sweep K`: every K-th height; 0 = none)
  let sweep: u32 = args.get("sweep").map(|v| v.parse().unwrap()).unwrap_or(0);
  if sweep > 0 {
    for (net, network) in NETS {
      let first = Rune::first_rune_height(network);
      let mut h = first.max(1) - 1;
      while h <= first + HALVING + 1 {
        emit_height(out, dist, net, h);
        h += sweep;
      }
    }
  }

  // 3. random
  for case in 0..args.cases {
    let (net, network) = *rng.pick(&NETS);
    let first = Rune::first_rune_height(network);
    let window = |rng: &mut Rng| {
      (u64::from(first) + rng.below(u64::from(HALVING) + 11)).saturating_sub(5) as u32
    };
    if case % 2 == 0 {
      let h = if rng.chance(1, 2) { window(rng) } else { rng.u64_any_width() as u32 };
      emit_height(out, dist, net, h);
    } else {
      match rng.below(3) {
        0 => {
          let i = rng.range(1, 12) as usize;
          let r = STEPS[i - 1] + rng.next_u128() % (STEPS[i] - STEPS[i - 1]);
          dist.hit("r_uniform_in_step");
          emit_r(out, dist, net, r);
        }
        1 => {
          // exactly a scheduled minimum, and its neighbours: the tight cases for leastness
          let m = Rune::minimum_at_height(network, Height(window(rng))).0;
          dist.hit("r_exact_minimum");
          for r in [m.saturating_sub(1), m, m + 1] {
            emit_r(out, dist, net, r);
          }
        }
        _ => {
          dist.hit("r_any_width");
          emit_r(out, dist, net, rng.u128_any_width());
        }
      }
    }
  }
}
