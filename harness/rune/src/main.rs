//! Correspondence harness for the rune name / unlock schedule / rune parser models (crate
//! `ordinals`): runs the real code and writes request lines (`ops.txt`) plus the
//! implementation's answers (`impl.out`).  Streams: `name` (C32), `unlock` (C33),
//! `runeparse` (rune part of C31).
use common::*;

mod name;
mod runeparse;
mod unlock;
mod util;

fn main() {
  let args = Args::parse();
  let mut out = Streams::create(&args.out);
  let mut dist = Dist::default();
  let mut rng = Rng::new(args.seed);
  match args.stream.as_str() {
    "name" | "unlock" | "runeparse" => {}
    s => panic!("unknown stream {s}"),
  }
  silence_panics();
  if let Some(path) = &args.replay {
    // replay: re-run the implementation on stored request lines
    for line in replay_lines(path) {
      let line = line.as_str();
      let toks: Vec<&str> = line.split(' ').filter(|t| !t.is_empty()).collect();
      let ans = match args.stream.as_str() {
        "name" => name::answer(&toks),
        "unlock" => unlock::answer(&toks),
        _ => runeparse::answer(&toks),
      };
      out.emit(line, &ans);
      // a stored parser request also gets its soundness oracle evaluated on the answer the
      // implementation gives *now* (an oracle line stored in a file embeds a past answer)
      if args.stream == "runeparse" {
        if let [op, h] = toks.as_slice() {
          if let Some(kind) = op.strip_prefix("runeparse.") {
            if !kind.starts_with("oracle.") && ans != "bad-op" {
              out.emit(&format!("runeparse.oracle.{kind} {h} {}", util::colon(&ans)), "true");
            }
          }
        }
      }
    }
  } else {
    match args.stream.as_str() {
      "name" => name::generate(&args, &mut rng, &mut out, &mut dist),
      "unlock" => unlock::generate(&args, &mut rng, &mut out, &mut dist),
      _ => runeparse::generate(&args, &mut rng, &mut out, &mut dist),
    }
  }
  dist.add("lines", out.count);
  dist.write(&args.out);
  out.finish();
}
