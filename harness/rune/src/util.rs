//! Calls into the real parsers, with their results mapped to the line protocol's answers, and
//! the small generators shared by the streams.
use {
  bitcoin::Network,
  common::*,
  ordinals::{Rune, RuneId, SpacedRune, spaced_rune},
  std::{num::IntErrorKind, str::FromStr},
};

/// `ordinals::rune::Error` / `ordinals::rune_id::Error` live in private modules; they are
/// reachable as the parsers' associated error types
type RuneErr = <Rune as FromStr>::Err;
type IdErr = <RuneId as FromStr>::Err;

/// copy of the private table `Rune::STEPS` (generator input only: which values are interesting;
/// answers never come from it)
pub const STEPS: [u128; 28] = [
  0,
  26,
  702,
  18278,
  475254,
  12356630,
  321272406,
  8353082582,
  217180147158,
  5646683826134,
  146813779479510,
  3817158266467286,
  99246114928149462,
  2580398988131886038,
  67090373691429037014,
  1744349715977154962390,
  45353092615406029022166,
  1179180408000556754576342,
  30658690608014475618984918,
  797125955808376366093607894,
  20725274851017785518433805270,
  538857146126462423479278937046,
  14010285799288023010461252363222,
  364267430781488598271992561443798,
  9470953200318703555071806597538774,
  246244783208286292431866971536008150,
  6402364363415443603228541259936211926,
  166461473448801533683942072758341510102,
];

pub const NETS: [(&str, Network); 5] = [
  ("bitcoin", Network::Bitcoin),
  ("testnet", Network::Testnet),
  ("testnet4", Network::Testnet4),
  ("signet", Network::Signet),
  ("regtest", Network::Regtest),
];

pub fn net_of(s: &str) -> Option<Network> {
  NETS.iter().find(|(n, _)| *n == s).map(|(_, n)| *n)
}

/// hex-encoded UTF-8 text argument
pub fn text_arg(h: &str) -> Option<String> {
  String::from_utf8(unhex(h)?).ok()
}

/// an implementation answer as one token of an oracle line
pub fn colon(ans: &str) -> String {
  ans.replace(' ', ":")
}

fn first_word(msg: &str) -> &str {
  msg.split(' ').find(|w| !w.is_empty()).unwrap_or("unknown")
}

fn rune_err(e: &RuneErr) -> String {
  match e {
    RuneErr::Range => "err range".into(),
    RuneErr::Character(c) => format!("err character {}", u32::from(*c)),
  }
}

/// `Rune::from_str`
pub fn rune_parse(s: &str) -> String {
  match catch(|| Rune::from_str(s)) {
    Ok(Ok(r)) => format!("ok {}", r.0),
    Ok(Err(e)) => rune_err(&e),
    Err(msg) => format!("panic {}", first_word(&msg)),
  }
}

/// `SpacedRune::from_str`
pub fn spaced_parse(s: &str) -> String {
  use spaced_rune::Error as E;
  match catch(|| SpacedRune::from_str(s)) {
    Ok(Ok(sr)) => format!("ok {} {}", sr.rune.0, sr.spacers),
    Ok(Err(E::LeadingSpacer)) => "err leading".into(),
    Ok(Err(E::TrailingSpacer)) => "err trailing".into(),
    Ok(Err(E::DoubleSpacer)) => "err double".into(),
    Ok(Err(E::Character(c))) => format!("err character {}", u32::from(c)),
    Ok(Err(E::Rune(e))) => rune_err(&e),
    Err(msg) => {
      if msg.contains("shift left with overflow") {
        "panic shl".into()
      } else {
        "panic try_into".into()
      }
    }
  }
}

fn int_kind(e: &std::num::ParseIntError) -> &'static str {
  match e.kind() {
    IntErrorKind::Empty => "empty",
    IntErrorKind::InvalidDigit => "invalid",
    IntErrorKind::PosOverflow => "overflow",
    IntErrorKind::NegOverflow => "negoverflow",
    IntErrorKind::Zero => "zero",
    _ => "other",
  }
}

/// `RuneId::from_str`
pub fn id_parse(s: &str) -> String {
  match catch(|| RuneId::from_str(s)) {
    Ok(Ok(id)) => format!("ok {} {}", id.block, id.tx),
    Ok(Err(IdErr::Separator)) => "err separator".into(),
    Ok(Err(IdErr::Block(e))) => format!("err block {}", int_kind(&e)),
    Ok(Err(IdErr::Transaction(e))) => format!("err tx {}", int_kind(&e)),
    Err(msg) => format!("panic {}", first_word(&msg)),
  }
}

/// dist key for an answer: `<prefix>_ok`, `<prefix>_<error kind>`, `<prefix>_panic_<site>`
pub fn class(prefix: &str, ans: &str) -> String {
  let mut it = ans.split(' ');
  match (it.next(), it.next(), it.next()) {
    (Some("ok"), _, _) => format!("{prefix}_ok"),
    (Some("err"), Some(k @ ("block" | "tx")), Some(k2)) => format!("{prefix}_{k}_{k2}"),
    (Some("err"), Some(k), _) => format!("{prefix}_{k}"),
    (Some("panic"), Some(k), _) => format!("{prefix}_panic_{k}"),
    _ => format!("{prefix}_other"),
  }
}

pub fn len_bucket(n: usize) -> String {
  match n {
    0..=13 => format!("{n:02}"),
    14..=26 => "14-26".into(),
    27..=28 => "27-28".into(),
    29..=32 => "29-32".into(),
    33 => "33".into(),
    _ => "34+".into(),
  }
}

pub fn letters(rng: &mut Rng, n: usize) -> Vec<char> {
  (0..n).map(|_| (b'A' + rng.below(26) as u8) as char).collect()
}

/// a u32 with a random bit width
pub fn u32_any_width(rng: &mut Rng) -> u32 {
  let bits = rng.below(33) as u32;
  if bits == 0 {
    0
  } else {
    (rng.next_u64() & ((1u64 << bits) - 1)) as u32
  }
}

/// characters that are not part of any of the grammars (or only of one of them)
pub const ODD: [char; 24] = [
  'a', 'z', 'q', '0', '9', '5', ' ', '.', '•', '@', '[', '`', '{', '+', '-', ':', '_', 'É', 'Ａ',
  '\u{0}', '٣', '\t', '·', '\u{10FFFF}',
];

/// a name of `n` letters with '.' / '•' between some of them (never leading, trailing or
/// doubled): `num/den` is the probability of a spacer in each gap
pub fn spaced_string(rng: &mut Rng, n: usize, num: u64, den: u64) -> Vec<char> {
  let mut v = Vec::with_capacity(2 * n);
  for i in 0..n {
    v.push((b'A' + rng.below(26) as u8) as char);
    if i + 1 < n && rng.chance(num, den) {
      v.push(if rng.chance(1, 2) { '.' } else { '•' });
    }
  }
  v
}

/// one random edit: insert / delete / replace / duplicate one char, or truncate
pub fn mutate(rng: &mut Rng, v: &mut Vec<char>, alphabet: &[char]) -> &'static str {
  match rng.below(5) {
    0 => {
      let at = rng.below(v.len() as u64 + 1) as usize;
      v.insert(at, *rng.pick(alphabet));
      "insert"
    }
    1 if !v.is_empty() => {
      let at = rng.below(v.len() as u64) as usize;
      v.remove(at);
      "delete"
    }
    2 if !v.is_empty() => {
      let at = rng.below(v.len() as u64) as usize;
      v[at] = *rng.pick(alphabet);
      "replace"
    }
    3 if !v.is_empty() => {
      let at = rng.below(v.len() as u64) as usize;
      let c = v[at];
      v.insert(at, c);
      "duplicate"
    }
    4 if !v.is_empty() => {
      let at = rng.below(v.len() as u64) as usize;
      v.truncate(at);
      "truncate"
    }
    _ => {
      v.push(*rng.pick(alphabet));
      "append"
    }
  }
}
