//! Stream `brotli`: the compressed forms through the real `Inscription::new` (encode_properties)
//! and `Inscription::properties` (bounded decompression).
use {
  crate::{
    cbor::{gen_wf, opt_hex},
    render::{parse, render},
  },
  common::*,
  ord::{Attributes, Chain, Inscription, Properties, verif::props},
  std::io::{Read, Write},
};

const BUF: usize = 4096; // BROTLI_BUFFER_SIZE

fn compress(data: &[u8], quality: u32) -> Vec<u8> {
  let mut out = Vec::new();
  {
    let mut w = brotli::CompressorWriter::new(&mut out, BUF, quality, 24);
    w.write_all(data).unwrap();
  }
  out
}

/// read results of `brotli::Decompressor::new(value, 4096)` with a 4096-byte buffer, as the
/// loop in `properties_cbor` sees them; stops early once far beyond every limit
fn chunk_sizes(value: &[u8]) -> (String, Option<usize>) {
  let mut d = brotli::Decompressor::new(value, BUF);
  let mut buffer = vec![0u8; BUF];
  let mut toks: Vec<String> = Vec::new();
  let mut total = 0usize;
  loop {
    match d.read(&mut buffer) {
      Err(_) => {
        toks.push("e".into());
        return (toks.join(","), None);
      }
      Ok(n) => {
        toks.push(n.to_string());
        total += n;
        if n == 0 {
          break;
        }
        if total > 4_100_000 {
          return (toks.join(","), None);
        }
      }
    }
  }
  (if toks.is_empty() { "-".into() } else { toks.join(",") }, Some(total))
}

fn inscription(value: Option<Vec<u8>>, encoding: Option<Vec<u8>>) -> Inscription {
  Inscription {
    properties: value,
    property_encoding: encoding,
    ..Default::default()
  }
}

fn properties_of(i: &Inscription) -> String {
  let i = i.clone();
  match catch(move || props::inscription_properties(&i)) {
    Ok(p) => render(&p),
    Err(m) => format!("panic {m}"),
  }
}

/// `Inscription::new(.., compress, .., properties, ..)` → (value, encoding) or the error
fn encode(compress: bool, p: &Properties) -> Result<Inscription, String> {
  let p = p.clone();
  match catch(move || Inscription::new(Chain::Mainnet, compress, None, None, None, Vec::new(), None, None, p, None)) {
    Ok(Ok(i)) => Ok(i),
    Ok(Err(e)) => Err(format!("err {}", e.to_string().replace(' ', "_"))),
    Err(m) => Err(format!("panic {m}")),
  }
}

fn emit_encrt(out: &mut Streams, dist: &mut Dist, compress: bool, p: &Properties) -> Option<(usize, usize)> {
  let r = render(p);
  match encode(compress, p) {
    Ok(i) => {
      let back = properties_of(&i);
      let value = i.properties.clone();
      let enc = i.property_encoding.clone();
      let (len, clen, class) = match (&value, &enc) {
        (Some(v), Some(_)) => {
          let (_, total) = chunk_sizes(v);
          let total = total.unwrap_or(0);
          (total, v.len(), if total > 30 * v.len() { "gap" } else { "ok" })
        }
        (Some(v), None) => (v.len(), v.len(), "plain"),
        _ => (0, 0, "none"),
      };
      dist.hit(&format!("encrt_{class}"));
      out.emit(
        &format!(
          "props.oracle.encrt {} len={len} ratio={class} {r} / {} {} / {back}",
          compress as u8,
          opt_hex(&value),
          match &enc {
            Some(e) => hex(e),
            None => "~".into(),
          }
        ),
        "true",
      );
      Some((len, clen))
    }
    Err(e) => {
      dist.hit("encrt_rejected");
      out.emit(
        &format!("props.oracle.encrt {} len=0 ratio={} {r} / err / -", compress as u8, e.split(' ').nth(1).unwrap_or("?")),
        "true",
      );
      None
    }
  }
}

fn title_props(title: String) -> Properties {
  Properties {
    gallery: Vec::new(),
    attributes: Attributes {
      title: Some(title),
      ..Default::default()
    },
    txids: Vec::new(),
  }
}

fn noisy_title(rng: &mut Rng, noise: usize, run: usize) -> String {
  let mut s = String::with_capacity(noise + run);
  for _ in 0..noise {
    s.push(*rng.pick(&['0', '1', '2', '3', '4', '5', '6', '7', '8', '9', 'a', 'b', 'c', 'd', 'e', 'f']));
  }
  for _ in 0..run {
    s.push('a');
  }
  s
}

/// A "bomb": CBOR of a title of `run` repeated bytes after `noise` incompressible ones,
/// brotli-compressed by the harness, fed to the real `properties()`.
fn emit_bomb(out: &mut Streams, dist: &mut Dist, cbor: &[u8], quality: u32) {
  let value = compress(cbor, quality);
  let c = value.len();
  let i = inscription(Some(value.clone()), Some(b"br".to_vec()));
  let back = properties_of(&i);
  let res = if back.starts_with("panic") {
    "panic".to_string()
  } else {
    let mut it = back.split(' ');
    let p = parse(&mut it).unwrap();
    if p == Properties::default() {
      "none".into()
    } else {
      // the decoded value re-encodes to exactly the decompressed CBOR (title-only value)
      props::to_inline_cbor(&p).unwrap().len().to_string()
    }
  };
  let (chunks, _) = chunk_sizes(&value);
  let max = c.saturating_mul(30).min(4_000_000);
  dist.hit(if res == "none" { "bomb_rejected" } else { "bomb_accepted" });
  if cbor.len() > max {
    dist.hit("bomb_over_limit");
  }
  if cbor.len() == max || cbor.len() == max + 1 {
    dist.hit("bomb_at_limit");
  }
  out.emit(&format!("props.oracle.total bomb:{c}:{} {}", cbor.len(), if res == "panic" { "panic" } else { "ok" }), "true");
  out.emit(&format!("props.oracle.bound {c} {res}"), "true");
  out.emit(
    &format!("props.decomp {c} {chunks}"),
    &if res == "none" { "none".to_string() } else { format!("some {res}") },
  );
}

pub fn answer(toks: &[&str]) -> String {
  match toks {
    ["props.decomp", ..] => "replay-unsupported".into(),
    [op, ..] if op.starts_with("props.oracle.") => "true".into(),
    _ => "bad-op".into(),
  }
}

/// replay of an `encrt` oracle line: recompute everything from <compress> and <P>
pub fn replay_line(out: &mut Streams, dist: &mut Dist, toks: &[&str]) {
  match toks {
    ["props.oracle.encrt", compress, _, _, rest @ ..] => {
      let mut it = rest.iter().copied();
      match parse(&mut it) {
        Some(p) => {
          emit_encrt(out, dist, *compress == "1", &p);
        }
        None => out.emit(&toks.join(" "), "bad-op"),
      }
    }
    ["props.bomb", noise, run, seed] => {
      let mut rng = Rng::new(seed.parse().unwrap());
      let t = noisy_title(&mut rng, noise.parse().unwrap(), run.parse().unwrap());
      let cbor = props::to_inline_cbor(&title_props(t)).unwrap();
      emit_bomb(out, dist, &cbor, 9);
    }
    _ => out.emit(&toks.join(" "), &answer(toks)),
  }
}

pub fn generate(args: &Args, rng: &mut Rng, out: &mut Streams, dist: &mut Dist) {
  // unknown / absent encodings
  for enc in [&b"br"[..], b"BR", b"b", b"brr", b"", b"gzip"] {
    let cbor = props::to_inline_cbor(&title_props("t".into())).unwrap();
    let i = inscription(Some(compress(&cbor, 5)), Some(enc.to_vec()));
    let back = properties_of(&i);
    let is_default = back == render(&Properties::default());
    out.emit(
      &format!("props.oracle.unkenc {} {}", hex(enc), is_default),
      "true",
    );
  }
  let bombs: u64 = args.get("bombs").map(|v| v.parse().unwrap()).unwrap_or(8);
  let big: u64 = args.get("bigbombs").map(|v| v.parse().unwrap()).unwrap_or(2);
  // bombs steered to the ratio limit: adjust the run length until the CBOR length is
  // 30*c + delta for the c the compressor actually produced
  for b in 0..bombs {
    let noise = *rng.pick(&[0usize, 16, 64, 200, 1000]);
    let delta: i64 = *rng.pick(&[-40i64, -1, 0, 1, 2, 40, 400]);
    let mut run = 3000usize;
    let mut best = None;
    let seed = rng.next_u64();
    for _ in 0..6 {
      let t = noisy_title(&mut Rng::new(seed), noise, run);
      let cbor = props::to_inline_cbor(&title_props(t)).unwrap();
      let c = compress(&cbor, 9).len();
      let want = (30 * c as i64 + delta).max(8) as usize;
      best = Some(cbor.clone());
      if cbor.len() == want {
        break;
      }
      let overhead = cbor.len() - run;
      run = want.saturating_sub(overhead).max(1);
    }
    let _ = b;
    emit_bomb(out, dist, &best.unwrap(), 9);
  }
  // bombs around the absolute limit (compress at low quality: input is 4 MB)
  for _ in 0..big {
    let total = *rng.pick(&[3_999_990usize, 4_000_000, 4_000_001, 4_000_100, 4_200_000, 12_000_000]);
    // enough noise that 30*c is well above 4 000 000, so the absolute limit is the binding one
    let noise = 300_000;
    let t = noisy_title(rng, noise, total.saturating_sub(noise + 9));
    let cbor = props::to_inline_cbor(&title_props(t)).unwrap();
    assert_eq!(cbor.len(), total);
    emit_bomb(out, dist, &cbor, 2);
    dist.hit("bomb_big");
  }
  for case in 0..args.cases {
    match case % 5 {
      0 | 1 => {
        // what ord itself produces
        let p = gen_wf(rng, dist);
        emit_encrt(out, dist, rng.chance(3, 4), &p);
      }
      2 => {
        // compressible titles near the encoder's ratio guard
        let noise = *rng.pick(&[8usize, 40, 120, 300]);
        let mut run = noise * rng.range(20, 80) as usize;
        let seed = rng.next_u64();
        let target_num = rng.range(290, 320); // ratio*10
        let mut p = title_props(noisy_title(&mut Rng::new(seed), noise, run));
        for _ in 0..4 {
          if let Ok(i) = encode(true, &p) {
            if let (Some(v), Some(_)) = (&i.properties, &i.property_encoding) {
              let want = v.len() * target_num as usize / 10;
              let cur = props::to_inline_cbor(&p).unwrap().len();
              run = (run + want).saturating_sub(cur).max(1);
              p = title_props(noisy_title(&mut Rng::new(seed), noise, run));
              continue;
            }
          }
          run = run * 2 / 3 + 1;
          p = title_props(noisy_title(&mut Rng::new(seed), noise, run));
        }
        dist.hit("encrt_near_ratio");
        emit_encrt(out, dist, true, &p);
      }
      3 => {
        // mutated / random brotli streams through properties(): totality
        let p = gen_wf(rng, dist);
        let cbor = props::to_inline_cbor(&p).unwrap_or_default();
        let mut v = compress(&cbor, 5);
        match rng.below(4) {
          0 => {
            if !v.is_empty() {
              let at = rng.below(v.len() as u64) as usize;
              v[at] ^= 1 << rng.below(8);
            }
          }
          1 => {
            let k = rng.below(v.len() as u64 + 1) as usize;
            v.truncate(k);
          }
          2 => {
            let n = rng.below(64) as usize;
            v = rng.bytes(n)
          }
          _ => {}
        }
        let i = inscription(Some(v.clone()), Some(b"br".to_vec()));
        let back = properties_of(&i);
        dist.hit(if back.starts_with("panic") { "brfuzz_panic" } else if back.ends_with("G 0") && back.contains("A ~ 0") { "brfuzz_default" } else { "brfuzz_value" });
        out.emit(
          &format!("props.oracle.total br:{} {}", hex(&v), if back.starts_with("panic") { "panic" } else { "ok" }),
          "true",
        );
      }
      _ => {
        // plain (uncompressed) field with arbitrary bytes and no encoding
        let n = rng.below(30) as usize;
        let b = rng.bytes(n);
        let i = inscription(Some(b.clone()), None);
        let back = properties_of(&i);
        out.emit(&format!("props.from {}", hex(&b)), &back);
      }
    }
  }
}
