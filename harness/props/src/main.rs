//! Correspondence harness for C28 (inscription properties): runs the real `ord` code and writes
//! request lines (`ops.txt`) plus the implementation's answers (`impl.out`).
use common::*;

mod br;
mod cbor;
mod render;

fn main() {
  let args = Args::parse();
  let mut out = Streams::create(&args.out);
  let mut dist = Dist::default();
  let mut rng = Rng::new(args.seed);
  silence_panics();
  if let Some(path) = &args.replay {
    for line in replay_lines(path) {
      let line = line.as_str();
      let toks: Vec<&str> = line.split(' ').filter(|t| !t.is_empty()).collect();
      match args.stream.as_str() {
        "cbor" => {
          let ans = cbor::answer(&toks);
          out.emit(line, &ans);
        }
        "brotli" => br::replay_line(&mut out, &mut dist, &toks),
        s => panic!("unknown stream {s}"),
      }
    }
  } else {
    match args.stream.as_str() {
      "cbor" => cbor::generate(&args, &mut rng, &mut out, &mut dist),
      "brotli" => br::generate(&args, &mut rng, &mut out, &mut dist),
      s => {
        eprintln!("unknown stream {s}");
        std::process::exit(2)
      }
    }
  }
  dist.write(&args.out);
  out.finish();
}
