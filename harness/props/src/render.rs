//! Canonical text form of `ord::Properties` (shared with lean/Driver/Props.lean):
//!   P <txids-hex> <attrs> G <n> <item>*n
//!   <attrs> = A <title-hex | ~> <k> (<name-hex> <trait>)*k
//!   <item>  = I <txid-hex>:<index> | ~   <index | ~>   <attrs>
//!   <trait> = b0 | b1 | n | i<int> | s<hex>
use {
  bitcoin::{Txid, hashes::Hash},
  common::*,
  ord::{Attributes, InscriptionId, Item, Properties, Trait, Traits},
};

fn render_trait(t: &Trait) -> String {
  match t {
    Trait::Bool(b) => if *b { "b1".into() } else { "b0".into() },
    Trait::Integer(i) => format!("i{i}"),
    Trait::Null => "n".into(),
    Trait::String(s) => format!("s{}", hextext(s)),
  }
}

fn render_attrs(a: &Attributes, out: &mut Vec<String>) {
  out.push("A".into());
  out.push(match &a.title {
    Some(t) => hextext(t),
    None => "~".into(),
  });
  out.push(a.traits.items.len().to_string());
  for (n, v) in &a.traits.items {
    out.push(hextext(n));
    out.push(render_trait(v));
  }
}

pub fn render(p: &Properties) -> String {
  let mut out: Vec<String> = vec!["P".into(), hex(&p.txids)];
  render_attrs(&p.attributes, &mut out);
  out.push("G".into());
  out.push(p.gallery.len().to_string());
  for i in &p.gallery {
    out.push("I".into());
    out.push(match &i.id {
      Some(id) => format!("{}:{}", hex(&id.txid.to_byte_array()), id.index),
      None => "~".into(),
    });
    out.push(match i.index {
      Some(n) => n.to_string(),
      None => "~".into(),
    });
    render_attrs(&i.attributes, &mut out);
  }
  out.join(" ")
}

fn parse_trait(s: &str) -> Option<Trait> {
  match s {
    "b0" => Some(Trait::Bool(false)),
    "b1" => Some(Trait::Bool(true)),
    "n" => Some(Trait::Null),
    _ => {
      if let Some(r) = s.strip_prefix('i') {
        r.parse().ok().map(Trait::Integer)
      } else if let Some(r) = s.strip_prefix('s') {
        String::from_utf8(unhex(r)?).ok().map(Trait::String)
      } else {
        None
      }
    }
  }
}

fn parse_attrs<'a>(t: &mut impl Iterator<Item = &'a str>) -> Option<Attributes> {
  if t.next()? != "A" {
    return None;
  }
  let title = match t.next()? {
    "~" => None,
    h => Some(String::from_utf8(unhex(h)?).ok()?),
  };
  let k: usize = t.next()?.parse().ok()?;
  let mut items = Vec::new();
  for _ in 0..k {
    let n = String::from_utf8(unhex(t.next()?)?).ok()?;
    let v = parse_trait(t.next()?)?;
    items.push((n, v));
  }
  Some(Attributes {
    title,
    traits: Traits { items },
  })
}

/// parse the token form; `None` if malformed (or a txid that is not 32 bytes)
pub fn parse<'a>(t: &mut impl Iterator<Item = &'a str>) -> Option<Properties> {
  if t.next()? != "P" {
    return None;
  }
  let txids = unhex(t.next()?)?;
  let attributes = parse_attrs(t)?;
  if t.next()? != "G" {
    return None;
  }
  let n: usize = t.next()?.parse().ok()?;
  let mut gallery = Vec::new();
  for _ in 0..n {
    if t.next()? != "I" {
      return None;
    }
    let id = match t.next()? {
      "~" => None,
      s => {
        let (h, i) = s.split_once(':')?;
        let b: [u8; 32] = unhex(h)?.try_into().ok()?;
        Some(InscriptionId {
          txid: Txid::from_byte_array(b),
          index: i.parse().ok()?,
        })
      }
    };
    let index = match t.next()? {
      "~" => None,
      s => Some(s.parse().ok()?),
    };
    let attributes = parse_attrs(t)?;
    gallery.push(Item {
      id,
      attributes,
      index,
    });
  }
  Some(Properties {
    gallery,
    attributes,
    txids,
  })
}
