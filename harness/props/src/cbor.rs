//! Stream `cbor`: the real `Properties` encoders/decoder, minicbor's `skip`, `str::from_utf8`.
use {
  crate::render::{parse, render},
  bitcoin::{Txid, hashes::Hash},
  common::*,
  ord::{Attributes, InscriptionId, Item, Properties, Trait, Traits, verif::props},
};

pub fn opt_hex(o: &Option<Vec<u8>>) -> String {
  match o {
    Some(b) => hex(b),
    None => "none".into(),
  }
}

fn inline_str(p: &Properties) -> String {
  let p = p.clone();
  match catch(move || props::to_inline_cbor(&p)) {
    Ok(o) => opt_hex(&o),
    Err(_) => "panic".into(),
  }
}

fn packed_str(p: &Properties) -> String {
  let p = p.clone();
  match catch(move || props::to_packed_cbor(&p)) {
    Ok(o) => opt_hex(&o),
    Err(_) => "panic".into(),
  }
}

fn dec_str(b: &[u8]) -> String {
  let b = b.to_vec();
  match catch(move || minicbor::decode::<Properties>(&b)) {
    Ok(Ok(p)) => format!("ok {}", render(&p)),
    Ok(Err(_)) => "err".into(),
    Err(m) => format!("panic {m}"),
  }
}

pub fn from_str(b: &[u8]) -> String {
  let b = b.to_vec();
  match catch(move || props::from_cbor(&b)) {
    Ok(p) => render(&p),
    Err(m) => format!("panic {m}"),
  }
}

fn skip_str(b: &[u8]) -> String {
  let b = b.to_vec();
  match catch(move || {
    let mut d = minicbor::Decoder::new(&b);
    d.skip().map(|_| d.position())
  }) {
    Ok(Ok(n)) => format!("ok {n}"),
    Ok(Err(_)) => "err".into(),
    Err(m) => format!("panic {m}"),
  }
}

/// the implementation's answer to one request line (also used by --replay)
pub fn answer(toks: &[&str]) -> String {
  match toks {
    ["props.inline", rest @ ..] => {
      let mut it = rest.iter().copied();
      match parse(&mut it) {
        Some(p) if it.next().is_none() => inline_str(&p),
        _ => "bad-op".into(),
      }
    }
    ["props.packed", rest @ ..] => {
      let mut it = rest.iter().copied();
      match parse(&mut it) {
        Some(p) if it.next().is_none() => packed_str(&p),
        _ => "bad-op".into(),
      }
    }
    ["props.dec", h] => unhex(h).map(|b| dec_str(&b)).unwrap_or("bad-op".into()),
    ["props.from", h] => unhex(h).map(|b| from_str(&b)).unwrap_or("bad-op".into()),
    ["props.skip", h] => unhex(h).map(|b| skip_str(&b)).unwrap_or("bad-op".into()),
    ["props.utf8", h] => unhex(h)
      .map(|b| std::str::from_utf8(&b).is_ok().to_string())
      .unwrap_or("bad-op".into()),
    ["props.idvalue", h, i] => match (unhex(h), i.parse::<u32>()) {
      (Some(b), Ok(index)) if b.len() == 32 => {
        // InscriptionId::value is crate-private: observe it through the inline encoding of a
        // one-item gallery (map(1) 0 array(1) map(1) 0 bytes(value))
        let p = Properties {
          gallery: vec![Item {
            id: Some(InscriptionId {
              txid: Txid::from_byte_array(b.try_into().unwrap()),
              index,
            }),
            attributes: Attributes::default(),
            index: None,
          }],
          attributes: Attributes::default(),
          txids: Vec::new(),
        };
        let enc = props::to_inline_cbor(&p).unwrap();
        // a1 00 81 a1 00 58 LL <value>
        hex(&enc[7..])
      }
      _ => "bad-op".into(),
    },
    [op, ..] if op.starts_with("props.oracle.") => "true".into(),
    _ => "bad-op".into(),
  }
}

// ---------------------------------------------------------------- generators

const LENS: &[usize] = &[0, 1, 2, 22, 23, 24, 25, 31, 32, 33, 255, 256, 257];

pub fn gen_string(rng: &mut Rng, dist: &mut Dist) -> String {
  let len = match rng.below(2400) {
    0 => {
      dist.hit("str_len_64k");
      *rng.pick(&[65535usize, 65536, 65537])
    }
    1..=120 => *rng.pick(LENS),
    _ => rng.below(12) as usize,
  };
  let mut s = String::new();
  let kind = rng.below(4);
  while s.len() < len {
    let c = match kind {
      0 => (b'a' + rng.below(26) as u8) as char,
      1 => *rng.pick(&['a', 'é', '€', '😀', ' ', '\n', '\0', '\u{7f}', '\u{80}', '\u{7ff}', '\u{800}', '\u{ffff}', '\u{10000}', '\u{10ffff}', '\u{d7ff}', '\u{e000}']),
      2 => 'x',
      _ => char::from_u32(rng.below(0x110000) as u32).unwrap_or('?'),
    };
    if s.len() + c.len_utf8() > len {
      // fill with ASCII to hit the exact byte length
      s.push('z');
    } else {
      s.push(c);
    }
  }
  s
}

const INTS: &[i64] = &[
  0, 1, 23, 24, 25, 255, 256, 65535, 65536, 4294967295, 4294967296, i64::MAX, i64::MAX - 1, -1, -2, -24, -25, -26,
  -256, -257, -65536, -65537, -4294967296, -4294967297, i64::MIN, i64::MIN + 1,
];

pub fn gen_trait(rng: &mut Rng, dist: &mut Dist) -> Trait {
  match rng.below(6) {
    0 => Trait::Bool(rng.chance(1, 2)),
    1 => Trait::Null,
    2 => Trait::Integer(*rng.pick(INTS)),
    3 => {
      let v = rng.u64_any_width() as i64;
      Trait::Integer(if rng.chance(1, 2) { v } else { v.wrapping_neg() })
    }
    _ => Trait::String(gen_string(rng, dist)),
  }
}

pub fn gen_attrs(rng: &mut Rng, dist: &mut Dist, dup_names: bool) -> Attributes {
  let title = if rng.chance(1, 2) { Some(gen_string(rng, dist)) } else { None };
  let k = match rng.below(12) {
    0..=4 => 0,
    5 => *rng.pick(&[23usize, 24, 25]),
    _ => rng.range(1, 4) as usize,
  };
  let mut items: Vec<(String, Trait)> = Vec::new();
  for j in 0..k {
    let mut name = gen_string(rng, dist);
    if name.len() > 300 {
      name.truncate(0);
    }
    if items.iter().any(|(n, _)| *n == name) {
      name = format!("{name}#{j}");
    }
    items.push((name, gen_trait(rng, dist)));
  }
  if dup_names && items.len() >= 2 {
    let n = items[0].0.clone();
    let last = items.len() - 1;
    items[last].0 = n;
    dist.hit("dup_names");
  }
  Attributes {
    title,
    traits: Traits { items },
  }
}

const INDEXES: &[u32] = &[0, 0, 0, 1, 2, 23, 24, 255, 256, 65535, 65536, 1 << 24, (1 << 24) - 1, u32::MAX, u32::MAX - 1];

pub fn gen_txid(rng: &mut Rng, pool: &mut Vec<[u8; 32]>) -> [u8; 32] {
  if !pool.is_empty() && rng.chance(1, 2) {
    return *rng.pick(pool);
  }
  let mut b = [0u8; 32];
  match rng.below(4) {
    0 => {}
    1 => b = [0xff; 32],
    _ => b.copy_from_slice(&rng.bytes(32)),
  }
  pool.push(b);
  b
}

/// a well-formed value (what `ord` itself builds: ids present, no packed leftovers)
pub fn gen_wf(rng: &mut Rng, dist: &mut Dist) -> Properties {
  let n = match rng.below(160) {
    0..=29 => 0,
    30..=39 => *rng.pick(&[23usize, 24, 25]),
    40 => {
      dist.hit("gallery_256");
      *rng.pick(&[255usize, 256, 257])
    }
    _ => rng.range(1, 5) as usize,
  };
  let mut pool = Vec::new();
  let mut gallery = Vec::new();
  for _ in 0..n {
    let txid = gen_txid(rng, &mut pool);
    let attributes = if rng.chance(1, 2) || n > 30 { Attributes::default() } else { gen_attrs(rng, dist, false) };
    gallery.push(Item {
      id: Some(InscriptionId {
        txid: Txid::from_byte_array(txid),
        index: *rng.pick(INDEXES),
      }),
      attributes,
      index: None,
    });
  }
  let attributes = if rng.chance(1, 3) { Attributes::default() } else { gen_attrs(rng, dist, false) };
  Properties {
    gallery,
    attributes,
    txids: Vec::new(),
  }
}

/// values outside the well-formedness the encoders expect
fn gen_illformed(rng: &mut Rng, dist: &mut Dist) -> Properties {
  let mut p = gen_wf(rng, dist);
  match rng.below(5) {
    0 => {
      if let Some(i) = p.gallery.first_mut() {
        i.id = None;
      }
      dist.hit("ill_id_none");
    }
    1 => {
      if let Some(i) = p.gallery.last_mut() {
        i.index = Some(*rng.pick(INDEXES));
      }
      dist.hit("ill_index_some");
    }
    2 => {
      let k = *rng.pick(&[1usize, 31, 32, 33, 64]);
      p.txids = rng.bytes(k);
      dist.hit("ill_txids");
    }
    3 => {
      p.attributes = gen_attrs(rng, dist, true);
    }
    _ => {
      p.gallery.push(Item::default());
      dist.hit("ill_item_default");
    }
  }
  p
}

fn emit_value(out: &mut Streams, dist: &mut Dist, p: &Properties, wf: bool) {
  let r = render(p);
  let inl = inline_str(p);
  let pk = packed_str(p);
  out.emit(&format!("props.inline {r}"), &inl);
  out.emit(&format!("props.packed {r}"), &pk);
  let mut from = Vec::new();
  for h in [&inl, &pk] {
    if h != "none" && h != "panic" {
      let b = unhex(h).unwrap();
      out.emit(&format!("props.dec {h}"), &dec_str(&b));
      let f = from_str(&b);
      out.emit(&format!("props.from {h}"), &f);
      from.push(f);
    } else {
      from.push("-".into());
    }
  }
  if wf {
    out.emit(
      &format!("props.oracle.rt {r} / {inl} / {} / {pk} / {}", from[0], from[1]),
      "true",
    );
    dist.hit(if inl == "none" { "wf_default" } else { "wf_nondefault" });
  }
  dist.hit(&format!("packed_{}", if pk == "panic" { "panic" } else if pk == "none" { "none" } else { "some" }));
}

fn emit_bytes(out: &mut Streams, dist: &mut Dist, b: &[u8]) {
  let h = hex(b);
  let d = dec_str(b);
  out.emit(&format!("props.dec {h}"), &d);
  let f = from_str(b);
  out.emit(&format!("props.from {h}"), &f);
  out.emit(
    &format!("props.oracle.total {h} {}", if f.starts_with("panic") || d.starts_with("panic") { "panic" } else { "ok" }),
    "true",
  );
  dist.hit(if d.starts_with("ok") { "dec_ok" } else if d == "err" { "dec_err" } else { "dec_panic" });
  if d.starts_with("ok") && !f.contains(" G 0") {
    dist.hit("from_with_gallery");
  }
}

// --- a CBOR writer that can also produce what minicbor never writes

pub fn head_p(out: &mut Vec<u8>, major: u8, val: u64, rng: &mut Rng, num: u64, den: u64) {
  let minimal = rng.chance(num, den);
  head(out, major, val, rng, minimal)
}

pub fn head(out: &mut Vec<u8>, major: u8, val: u64, rng: &mut Rng, minimal: bool) {
  let min_w = if val < 24 {
    0
  } else if val < 0x100 {
    1
  } else if val < 0x10000 {
    2
  } else if val < 0x1_0000_0000 {
    3
  } else {
    4
  };
  let w = if minimal { min_w } else { rng.range(min_w, 4) };
  let m = major << 5;
  match w {
    0 => out.push(m | val as u8),
    1 => {
      out.push(m | 24);
      out.push(val as u8)
    }
    2 => {
      out.push(m | 25);
      out.extend((val as u16).to_be_bytes())
    }
    3 => {
      out.push(m | 26);
      out.extend((val as u32).to_be_bytes())
    }
    _ => {
      out.push(m | 27);
      out.extend(val.to_be_bytes())
    }
  }
}

fn text_payload(rng: &mut Rng) -> Vec<u8> {
  let mut b = match rng.below(4) {
    0 => Vec::new(),
    1 => "héllo €😀".as_bytes().to_vec(),
    _ => {
      let n = rng.below(6) as usize;
      (0..n).map(|_| b'a' + rng.below(26) as u8).collect()
    }
  };
  if rng.chance(1, 8) && !b.is_empty() {
    let at = rng.below(b.len() as u64) as usize;
    b[at] = *rng.pick(&[0x80u8, 0xc0, 0xff, 0xed, 0xf5]);
  }
  b
}

/// an arbitrary CBOR data item (mostly well-formed)
pub fn gen_value(out: &mut Vec<u8>, rng: &mut Rng, depth: u32) {
  let minimal = rng.chance(3, 4);
  let top = if depth == 0 { 11 } else { 19 };
  match rng.below(top) {
    0 => head(out, 0, rng.u64_any_width(), rng, minimal),
    1 => head(out, 1, rng.u64_any_width(), rng, minimal),
    2 => {
      let n = rng.below(5);
      head(out, 2, n, rng, minimal);
      out.extend(rng.bytes(n as usize));
    }
    3 => {
      let t = text_payload(rng);
      head(out, 3, t.len() as u64, rng, minimal);
      out.extend(t);
    }
    4 => out.push(*rng.pick(&[0xf4u8, 0xf5, 0xf6, 0xf7])),
    5 => {
      // simple / floats
      match rng.below(5) {
        0 => out.push(0xe0 + rng.below(20) as u8),
        1 => {
          out.push(0xf8);
          out.push(rng.next_u64() as u8)
        }
        2 => {
          out.push(0xf9);
          out.extend(rng.bytes(2))
        }
        3 => {
          out.push(0xfa);
          out.extend(rng.bytes(4))
        }
        _ => {
          out.push(0xfb);
          out.extend(rng.bytes(8))
        }
      }
    }
    6 => {
      // indefinite bytes / text
      let text = rng.chance(1, 2);
      out.push(if text { 0x7f } else { 0x5f });
      for _ in 0..rng.below(3) {
        if text {
          let t = text_payload(rng);
          head(out, 3, t.len() as u64, rng, minimal);
          out.extend(t);
        } else {
          let n = rng.below(4);
          head(out, 2, n, rng, minimal);
          out.extend(rng.bytes(n as usize));
        }
      }
      if rng.chance(1, 10) {
        // a chunk of the wrong kind
        gen_value(out, rng, 0);
      }
      if rng.chance(9, 10) {
        out.push(0xff);
      }
    }
    7 => {
      // reserved additional information / stray break
      out.push(*rng.pick(&[0x1cu8, 0x1f, 0x3c, 0x5c, 0x7e, 0x9d, 0xbe, 0xdc, 0xfc, 0xfe, 0xff]));
    }
    8 => head(out, rng.range(0, 5) as u8, *rng.pick(&[u64::MAX, u64::MAX - 1, 1 << 63, (1 << 63) - 1, 1 << 32]), rng, true),
    9 => {
      // tag
      head(out, 6, rng.u64_any_width(), rng, minimal);
      gen_value(out, rng, depth.saturating_sub(1));
    }
    10 => out.push(0xf6),
    11..=13 => {
      let n = rng.below(4);
      let declared = if rng.chance(1, 10) { n + rng.range(1, 3) } else { n };
      head(out, 4, declared, rng, minimal);
      for _ in 0..n {
        gen_value(out, rng, depth - 1);
      }
    }
    14..=15 => {
      let n = rng.below(3);
      let declared = if rng.chance(1, 10) { n + 1 } else { n };
      head(out, 5, declared, rng, minimal);
      for _ in 0..2 * n {
        gen_value(out, rng, depth - 1);
      }
    }
    16..=17 => {
      out.push(if rng.chance(1, 2) { 0x9f } else { 0xbf });
      for _ in 0..rng.below(4) {
        gen_value(out, rng, depth - 1);
      }
      if rng.chance(9, 10) {
        out.push(0xff);
      }
    }
    _ => {
      // deep nesting of one-element arrays / indefinite arrays
      let d = rng.range(2, 40);
      let indef = rng.chance(1, 2);
      for _ in 0..d {
        out.push(if indef { 0x9f } else { 0x81 });
      }
      out.push(0x00);
      if indef {
        for _ in 0..d {
          out.push(0xff);
        }
      }
    }
  }
}

fn gen_key(out: &mut Vec<u8>, rng: &mut Rng, known: u64) {
  match rng.below(12) {
    0 => head(out, 0, rng.below(6), rng, true),
    1 => head(out, 1, rng.below(3), rng, true), // negative keys
    2 => head(out, 0, known, rng, false),       // non-minimal known key
    3 => head(out, 0, rng.u64_any_width(), rng, true),
    4 => gen_value(out, rng, 1), // any item as key
    _ => head(out, 0, known, rng, true),
  }
}

fn map_open(out: &mut Vec<u8>, rng: &mut Rng, n: u64) -> bool {
  // returns true when indefinite (caller appends the break)
  if rng.chance(1, 5) {
    out.push(0xbf);
    true
  } else {
    let declared = if rng.chance(1, 12) { n + rng.range(1, 2) } else if rng.chance(1, 12) && n > 0 { n - 1 } else { n };
    head_p(out, 5, declared, rng, 4, 5);
    false
  }
}

fn gen_trait_value(out: &mut Vec<u8>, rng: &mut Rng) {
  match rng.below(8) {
    0 => gen_value(out, rng, 1),
    1 => out.push(*rng.pick(&[0xf4u8, 0xf5, 0xf6])),
    2 => head_p(out, 1, rng.u64_any_width(), rng, 1, 2),
    3 => head_p(out, 0, rng.u64_any_width(), rng, 1, 2),
    4 => {
      // 0x38..0x3b right at the end of input exercises `peek`
      out.push(0x38 + rng.below(4) as u8);
      for _ in 0..rng.below(3) {
        out.push(rng.next_u64() as u8);
      }
    }
    _ => {
      let t = text_payload(rng);
      head_p(out, 3, t.len() as u64, rng, 3, 4);
      out.extend(t);
    }
  }
}

fn gen_traits_like(out: &mut Vec<u8>, rng: &mut Rng) {
  let n = rng.below(4);
  if rng.chance(1, 10) {
    out.push(0xbf);
  } else {
    head_p(out, 5, n, rng, 4, 5);
  }
  for j in 0..n {
    if rng.chance(1, 10) {
      gen_value(out, rng, 1);
    } else {
      let name = if rng.chance(1, 6) { b"dup".to_vec() } else { vec![b'a' + j as u8] };
      head(out, 3, name.len() as u64, rng, true);
      out.extend(name);
    }
    gen_trait_value(out, rng);
  }
}

fn gen_attrs_like(out: &mut Vec<u8>, rng: &mut Rng) {
  let n = rng.below(4);
  let indef = map_open(out, rng, n);
  for _ in 0..n {
    let known = rng.below(2);
    gen_key(out, rng, known);
    match (known, rng.below(8)) {
      (_, 0) => gen_value(out, rng, 2),
      (_, 1) => out.push(0xf6),
      (0, _) => {
        let t = text_payload(rng);
        head_p(out, 3, t.len() as u64, rng, 4, 5);
        out.extend(t);
      }
      _ => gen_traits_like(out, rng),
    }
  }
  if indef && rng.chance(9, 10) {
    out.push(0xff);
  }
}

fn gen_id_value(out: &mut Vec<u8>, rng: &mut Rng) {
  let len = *rng.pick(&[0u64, 31, 32, 32, 32, 33, 33, 34, 35, 36, 36, 37]);
  head_p(out, 2, len, rng, 4, 5);
  let mut v = rng.bytes(len as usize);
  if len > 32 && rng.chance(1, 2) {
    let l = v.len();
    v[l - 1] = 0; // trailing zero: rejected unless exactly 4 index bytes
  }
  out.extend(v);
}

fn gen_item_like(out: &mut Vec<u8>, rng: &mut Rng) {
  let n = rng.below(4);
  let indef = map_open(out, rng, n);
  for _ in 0..n {
    let known = rng.below(3);
    gen_key(out, rng, known);
    match (known, rng.below(8)) {
      (_, 0) => gen_value(out, rng, 2),
      (k, 1) if k != 1 => out.push(0xf6),
      (0, _) => gen_id_value(out, rng),
      (1, _) => gen_attrs_like(out, rng),
      _ => head_p(out, 0, *rng.pick(&[0u64, 1, 23, 24, 255, 65536, u32::MAX as u64, u32::MAX as u64 + 1]), rng, 3, 4),
    }
  }
  if indef && rng.chance(9, 10) {
    out.push(0xff);
  }
}

pub fn gen_props_like(rng: &mut Rng) -> Vec<u8> {
  let mut out = Vec::new();
  let n = rng.below(5);
  let indef = map_open(&mut out, rng, n);
  for _ in 0..n {
    let known = rng.below(3);
    gen_key(&mut out, rng, known);
    match (known, rng.below(8)) {
      (_, 0) => gen_value(&mut out, rng, 3),
      (0, _) => {
        let k = rng.below(4);
        if rng.chance(1, 5) {
          out.push(0x9f);
          for _ in 0..k {
            gen_item_like(&mut out, rng);
          }
          if rng.chance(9, 10) {
            out.push(0xff);
          }
        } else {
          let declared = if rng.chance(1, 12) { k + 1 } else { k };
          head_p(&mut out, 4, declared, rng, 4, 5);
          for _ in 0..k {
            gen_item_like(&mut out, rng);
          }
        }
      }
      (1, _) => gen_attrs_like(&mut out, rng),
      _ => {
        let len = *rng.pick(&[0u64, 1, 31, 32, 33, 63, 64, 65, 96]);
        head_p(&mut out, 2, len, rng, 4, 5);
        out.extend(rng.bytes(len as usize));
      }
    }
  }
  if indef && rng.chance(9, 10) {
    out.push(0xff);
  }
  if rng.chance(1, 10) {
    out.extend(rng.bytes(3)); // trailing bytes are ignored by minicbor::decode
  }
  out
}

pub fn mutate(b: &mut Vec<u8>, rng: &mut Rng, dist: &mut Dist) {
  if b.is_empty() {
    b.push(rng.next_u64() as u8);
    return;
  }
  match rng.below(9) {
    0 => {
      let at = rng.below(b.len() as u64) as usize;
      b[at] ^= 1 << rng.below(8);
      dist.hit("mut_bitflip");
    }
    1 => {
      let k = rng.below(b.len() as u64) as usize;
      b.truncate(k);
      dist.hit("mut_truncate");
    }
    2 => {
      // length-field edit: turn some head's additional info into a wider / huge one
      let at = rng.below(b.len() as u64) as usize;
      b[at] = (b[at] & 0xe0) | *rng.pick(&[24u8, 25, 26, 27, 31, 23, 0]);
      dist.hit("mut_head_info");
    }
    3 => {
      let at = rng.below(b.len() as u64 + 1) as usize;
      let mut ins = Vec::new();
      gen_value(&mut ins, rng, 2);
      b.splice(at..at, ins);
      dist.hit("mut_splice_item");
    }
    4 => {
      let at = rng.below(b.len() as u64) as usize;
      b[at] = (b[at] & 0x1f) | ((rng.below(8) as u8) << 5);
      dist.hit("mut_major");
    }
    5 => {
      let at = rng.below(b.len() as u64) as usize;
      b[at] = *rng.pick(&[0xffu8, 0xf6, 0xbf, 0x9f, 0x5f, 0x7f, 0x3b, 0x38, 0x1b]);
      dist.hit("mut_marker");
    }
    6 => {
      // huge declared length
      let at = rng.below(b.len() as u64) as usize;
      let m = b[at] & 0xe0;
      let mut ins = vec![m | 27];
      ins.extend(rng.pick(&[u64::MAX, 1 << 63, 1 << 40, 1 << 32]).to_be_bytes());
      b.splice(at..at + 1, ins);
      dist.hit("mut_huge_len");
    }
    7 => {
      let at = rng.below(b.len() as u64) as usize;
      b[at] = *rng.pick(&[0x80u8, 0xc0, 0xed, 0xf8, 0xfe]);
      dist.hit("mut_utf8");
    }
    _ => {
      let at = rng.below(b.len() as u64) as usize;
      let to = rng.range(at as u64, b.len() as u64) as usize;
      b.drain(at..to);
      dist.hit("mut_delete");
    }
  }
}

fn gen_utf8ish(rng: &mut Rng) -> Vec<u8> {
  let mut b = Vec::new();
  for _ in 0..rng.below(5) {
    match rng.below(8) {
      0 => b.push(rng.below(0x80) as u8),
      1 => b.extend(char::from_u32(rng.range(0x80, 0x7ff) as u32).unwrap().to_string().bytes()),
      2 => b.extend(char::from_u32(*rng.pick(&[0x800u32, 0xfff, 0x1000, 0xcfff, 0xd000, 0xd7ff, 0xe000, 0xffff])).unwrap().to_string().bytes()),
      3 => b.extend(char::from_u32(*rng.pick(&[0x10000u32, 0x3ffff, 0x40000, 0xfffff, 0x100000, 0x10ffff])).unwrap().to_string().bytes()),
      4 => {
        // boundary lead bytes with chosen second byte
        b.push(*rng.pick(&[0xc0u8, 0xc1, 0xc2, 0xdf, 0xe0, 0xe1, 0xec, 0xed, 0xee, 0xef, 0xf0, 0xf1, 0xf3, 0xf4, 0xf5, 0xf8, 0xff]));
        b.push(*rng.pick(&[0x7fu8, 0x80, 0x8f, 0x90, 0x9f, 0xa0, 0xbf, 0xc0]));
        for _ in 0..rng.below(3) {
          b.push(*rng.pick(&[0x7fu8, 0x80, 0xbf, 0xc0]));
        }
      }
      5 => b.push(rng.range(0x80, 0xff) as u8),
      _ => b.extend(rng.bytes(2)),
    }
  }
  b
}

pub fn generate(args: &Args, rng: &mut Rng, out: &mut Streams, dist: &mut Dist) {
  // fixed: the default value, the repository's own test vectors
  emit_value(out, dist, &Properties::default(), true);
  emit_bytes(out, dist, &[]);
  for b in [&[0xa0u8][..], &[0xbf, 0xff], &[0xa1, 0x00, 0x80], &[0xa1, 0x00, 0x9f, 0xff], &[0xa1, 0x02, 0x40], &[0xf6], &[0xff]] {
    emit_bytes(out, dist, b);
  }
  // exhaustive: every 1-byte and (shard 0 only) every 2-byte input
  let exh: usize = args.get("exhaustive").map(|v| v.parse().unwrap()).unwrap_or(1);
  for x in 0..=255u8 {
    emit_bytes(out, dist, &[x]);
    out.emit(&format!("props.skip {}", hex(&[x])), &skip_str(&[x]));
    out.emit(&format!("props.utf8 {}", hex(&[x])), &std::str::from_utf8(&[x]).is_ok().to_string());
  }
  if exh >= 2 {
    for x in 0..=0xffffu16 {
      let b = x.to_be_bytes();
      emit_bytes(out, dist, &b);
      out.emit(&format!("props.skip {}", hex(&b)), &skip_str(&b));
      out.emit(&format!("props.utf8 {}", hex(&b)), &std::str::from_utf8(&b).is_ok().to_string());
    }
  }
  for index in INDEXES {
    let tx = rng.bytes(32);
    let line = format!("props.idvalue {} {index}", hex(&tx));
    let toks: Vec<&str> = line.split(' ').collect();
    let a = answer(&toks);
    out.emit(&line, &a);
  }
  for case in 0..args.cases {
    match case % 10 {
      0 | 1 => {
        let p = gen_wf(rng, dist);
        emit_value(out, dist, &p, true);
      }
      2 => {
        let p = gen_illformed(rng, dist);
        emit_value(out, dist, &p, false);
      }
      3 | 4 => {
        // encode then mutate (1..3 mutations)
        let p = gen_wf(rng, dist);
        let enc = if rng.chance(1, 2) { props::to_inline_cbor(&p) } else { props::to_packed_cbor(&p) };
        let mut b = enc.unwrap_or_default();
        if b.len() > 4000 {
          b.truncate(4000);
        }
        for _ in 0..rng.range(1, 3) {
          mutate(&mut b, rng, dist);
        }
        emit_bytes(out, dist, &b);
      }
      5 | 6 => {
        let mut b = gen_props_like(rng);
        if rng.chance(1, 4) {
          mutate(&mut b, rng, dist);
        }
        dist.hit("schema_fuzz");
        emit_bytes(out, dist, &b);
      }
      7 => {
        let mut b = Vec::new();
        gen_value(&mut b, rng, 4);
        if rng.chance(1, 3) {
          mutate(&mut b, rng, dist);
        }
        if rng.chance(1, 3) {
          gen_value(&mut b, rng, 2); // trailing item: skip must stop after the first
        }
        let s = skip_str(&b);
        dist.hit(if s.starts_with("ok") { "skip_ok" } else { "skip_err" });
        out.emit(&format!("props.skip {}", hex(&b)), &s);
        // the same item as the value of an unknown key of a Properties map
        let mut m = vec![0xa2, 0x07];
        m.extend(&b);
        m.extend([0x01, 0xa1, 0x00, 0x61, 0x74]);
        emit_bytes(out, dist, &m);
      }
      8 => {
        let b = gen_utf8ish(rng);
        let ok = std::str::from_utf8(&b).is_ok();
        dist.hit(if ok { "utf8_ok" } else { "utf8_bad" });
        out.emit(&format!("props.utf8 {}", hex(&b)), &ok.to_string());
        // as a title
        let mut m = vec![0xa1, 0x01, 0xa1, 0x00];
        head(&mut m, 3, b.len() as u64, rng, true);
        m.extend(&b);
        emit_bytes(out, dist, &m);
      }
      _ => {
        let len = rng.below(40) as usize;
        let mut b = rng.bytes(len);
        if rng.chance(1, 2) && !b.is_empty() {
          b[0] = *rng.pick(&[0xa0u8, 0xa1, 0xa2, 0xa3, 0xbf, 0xb8, 0xb9, 0xbb]);
        }
        dist.hit("random_bytes");
        emit_bytes(out, dist, &b);
      }
    }
  }
}
