use {common::*, std::path::Path};
pub fn case(_args: &Args, _rng: &mut Rng, _out: &mut Streams, _dist: &mut Dist, _scratch: &Path, _case: u64) {}
