//! C13: the indexing process dies at a named point (`ord::verif::points`, armed to panic at the
//! k-th hit; the index is then dropped and reopened).  After reopening, the content must be that
//! of some fully committed height of the chain; after continuing, it must equal the content of
//! an uninterrupted run.
use {
  crate::{content_of, digest, first_diff, gen_chain},
  bitcoin::Block,
  common::*,
  ixlib::{
    Flags, Node, UpdateOutcome,
    env::{self},
  },
  ord::verif::points,
  std::{collections::HashMap, path::Path, time::Duration},
};

pub const POINTS: [&str; 14] = [
  "update:block-indexed",
  "block:mid",
  "commit:start",
  "commit:pre-durable",
  "commit:post-durable",
  "commit:post-empty",
  "commit:done",
  "savepoint:deleted-uncommitted",
  "savepoint:post-delete-commit",
  "savepoint:created-uncommitted",
  "savepoint:post-create-commit",
  "reorg:pre-restore",
  "reorg:pre-commit",
  "reorg:post-commit",
];

fn node_with(chain: &'static str, scratch: &Path, blocks: &[Block]) -> Node {
  let node = Node::new(chain, scratch);
  for b in blocks {
    node.push_block(b.clone());
  }
  node
}

/// content of a from-scratch index over genesis + `blocks`
fn scratch_content(chain: &'static str, scratch: &Path, flags: Flags, blocks: &[Block]) -> Result<Vec<String>, String> {
  let node = node_with(chain, scratch, blocks);
  let ix = env::open(&node, scratch, flags, &[], false);
  crate::must_update(&ix)?;
  Ok(content_of(&ix))
}

pub fn case(args: &Args, rng: &mut Rng, out: &mut Streams, dist: &mut Dist, scratch: &Path, case: u64) {
  let chain = "regtest";
  let flags = if rng.chance(2, 3) { Flags::all() } else { crate::pick_flags(rng) };
  let maxb = args.get("blocks").map(|v| v.parse().unwrap()).unwrap_or(7u64);
  let nblocks = 4 + rng.below(maxb);
  let blocks = gen_chain(rng, chain, scratch, nblocks, 0, dist);
  let n = blocks.len();
  let s = *rng.pick(&[2u64, 3, 10]);
  let m = *rng.pick(&[2u64, 3]);
  let ci = 1 + rng.below(4);
  let extra = vec![
    "--savepoint-interval".to_string(),
    s.to_string(),
    "--max-savepoints".to_string(),
    m.to_string(),
    "--commit-interval".to_string(),
    ci.to_string(),
  ];
  // optional reorg half-way: the first update sees `first` blocks, then the last `depth` are
  // replaced by a longer branch; the crash may hit either update
  let with_reorg = rng.chance(1, 2) && n >= 5;
  let first = if with_reorg { n - 1 - rng.below(2) as usize } else { n };
  let depth = if with_reorg { 1 + rng.below((first as u64 - 1).min(3)) as usize } else { 0 };
  let branch: Vec<Block> = if with_reorg {
    // a branch of depth+1 simple blocks on top of first-depth
    let node = node_with(chain, scratch, &blocks[..first - depth]);
    let mut g = ixlib::chaingen::Gen::new(rng.fork(), node.core.state().network);
    g.max_txs = 0;
    let mut v = Vec::new();
    for _ in 0..(depth + 1) {
      let b = g.block(&node, dist);
      node.push_block(b.clone());
      v.push(b);
    }
    v
  } else {
    Vec::new()
  };
  let final_blocks: Vec<Block> = if with_reorg {
    blocks[..first - depth].iter().cloned().chain(branch.iter().cloned()).collect()
  } else {
    blocks.clone()
  };
  // the run: update after `first` blocks, then (reorg and) update again
  let run = |armed: Option<(&str, u64)>| -> (Result<(), String>, Node, env::Ix, bool) {
    let node = node_with(chain, scratch, &blocks[..first]);
    let ix = env::open(&node, scratch, flags, &extra, false);
    points::reset(false);
    if let Some((p, k)) = armed {
      points::arm(p, k);
    }
    let mut fired = false;
    let mut res = Ok(());
    let classify = |o: UpdateOutcome, fired: &mut bool| -> Result<(), String> {
      match o {
        UpdateOutcome::Ok => Ok(()),
        UpdateOutcome::Panic(p) if p.starts_with("verif crash point") => {
          *fired = true;
          Err("crashed".into())
        }
        UpdateOutcome::Panic(p) => Err(format!("panic:{p}")),
        UpdateOutcome::Err(e) => Err(format!("err:{e}")),
        UpdateOutcome::Hang => Err("hang".into()),
      }
    };
    res = res.and_then(|_| classify(env::update(&ix, Duration::from_secs(60)), &mut fired));
    if res.is_ok() && with_reorg {
      node.pop_blocks(depth);
      for b in &branch {
        node.push_block(b.clone());
      }
      res = classify(env::update(&ix, Duration::from_secs(60)), &mut fired);
    }
    points::reset(false);
    (res, node, ix, fired)
  };
  // uninterrupted reference
  let (r0, _node0, ix0, _) = run(None);
  let desc0 = format!("case={case} n={n} s={s} m={m} ci={ci} reorg={}", if with_reorg { format!("{depth}@{first}") } else { "-".into() });
  let reference = match r0 {
    Ok(()) => content_of(&ix0),
    Err(e) if e.contains("unrecoverable") => {
      dist.hit("crash_case_unrecoverable_reorg");
      return; // C14's business
    }
    Err(e) => {
      out.emit(&format!("store.oracle.true 0 {desc0} class=reference-failed:{}", e.replace(' ', "_")), "true");
      return;
    }
  };
  drop(ix0);
  // contents at every committed height of either branch, computed on demand
  let mut prefix_cache: HashMap<(bool, usize), String> = HashMap::new();
  let mut prefix_digest = |on_final: bool, h: usize| -> String {
    prefix_cache
      .entry((on_final, h))
      .or_insert_with(|| {
        let src = if on_final { &final_blocks } else { &blocks };
        match scratch_content(chain, scratch, flags, &src[..h]) {
          Ok(c) => digest(&c),
          Err(e) => format!("failed:{e}"),
        }
      })
      .clone()
  };
  // a crash before the first commit leaves the freshly created (empty) index
  let fresh_digest = {
    let node = node_with(chain, scratch, &[]);
    let ix = env::open(&node, scratch, flags, &extra, false);
    digest(&content_of(&ix))
  };
  let kmax = args.get("occurrences").map(|v| v.parse().unwrap()).unwrap_or(3u64);
  for p in POINTS {
    for k in 1..=kmax {
      let (res, node, ix, fired) = run(Some((p, k)));
      if !fired {
        // the point is hit fewer than k times in this history
        drop(ix);
        let _ = res;
        break;
      }
      dist.hit(&format!("crash_at_{p}"));
      let desc = format!("{desc0} point={p} occurrence={k}");
      // the process died: drop everything and reopen
      let ix = env::reopen(&node, ix, flags, &extra);
      let rows = content_of(&ix);
      let height = rows.iter().filter(|r| r.starts_with("header ")).count(); // blocks incl. genesis
      let d = digest(&rows);
      // some fully committed height of a chain the index was following
      let h = height.saturating_sub(1);
      let ok = (height == 0 && d == fresh_digest) || (height > 0 && h <= blocks.len() && prefix_digest(false, h) == d) || (height > 0 && h <= final_blocks.len() && prefix_digest(true, h) == d);
      out.emit(&format!("store.oracle.true {} {desc} class=after-reopen height={height}", ok as u8), "true");
      // continue: the node is wherever the history left it; bring it to the final chain
      {
        let tip = node.height() as usize;
        let on_final = tip >= final_blocks.len() && node.block_at(tip as u32).block_hash() == final_blocks.last().unwrap().block_hash();
        if !on_final {
          if with_reorg && tip == first {
            node.pop_blocks(depth);
            for b in &branch {
              node.push_block(b.clone());
            }
          }
        }
      }
      match crate::must_update(&ix) {
        Ok(()) => {
          let c = content_of(&ix);
          out.emit(
            &format!("store.oracle.same {} {} {desc} class=after-resume diff={}", digest(&reference), digest(&c), first_diff(&reference, &c)),
            "true",
          );
        }
        Err(e) if e.contains("unrecoverable") => {
          // a crash can leave fewer savepoints than the uninterrupted run had; an honest
          // "unrecoverable" is C14's allowed outcome, not a consistency failure
          dist.hit("crash_resume_unrecoverable");
          out.emit(&format!("store.oracle.true 1 {desc} class=after-resume-unrecoverable"), "true");
        }
        Err(e) => out.emit(&format!("store.oracle.true 0 {desc} class=resume-failed:{}", e.replace(' ', "_")), "true"),
      }
    }
  }
  dist.hit("chain");
}
