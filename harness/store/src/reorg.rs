//! C14: histories with reorganisations.  After every update the index must equal an index
//! built from scratch on the node's current best chain, or the update must have reported an
//! unrecoverable reorg (and flagged it); a hang is an outcome (watchdog), not a harness failure.
use {
  crate::{content_of, digest, first_diff},
  common::*,
  ixlib::{
    Flags, Node, UpdateOutcome, chaingen,
    env::{self},
  },
  ord::verif::points,
  std::{path::Path, time::Duration},
};

pub fn case(args: &Args, rng: &mut Rng, out: &mut Streams, dist: &mut Dist, scratch: &Path, case: u64) {
  let chain = "regtest";
  let s = *rng.pick(&[2u64, 3, 3, 5, 10]);
  let m = *rng.pick(&[2u64, 2, 3]);
  let flags = if rng.chance(2, 3) { Flags::all() } else { crate::pick_flags(rng) };
  let mut extra = vec!["--savepoint-interval".to_string(), s.to_string(), "--max-savepoints".to_string(), m.to_string()];
  if rng.chance(1, 3) {
    extra.push("--commit-interval".into());
    extra.push((1 + rng.below(6)).to_string());
  }
  // one case in three lets the mock node report its real header count (mockcore says 0 by default,
  // which makes every height look close to the tip): the `blocks - height <= interval * max + 1`
  // half of `is_savepoint_required` then decides too, and the model gets the same number
  let real_headers = rng.chance(1, 3);
  mockcore::verif::report_headers(real_headers);
  if real_headers {
    dist.hit("reorg_case_real_headers");
  }
  let node = Node::new(chain, scratch);
  let ix = env::open(&node, scratch, flags, &extra, false);
  let mut g0 = chaingen::Gen::new(rng.fork(), node.core.state().network);
  g0.absorb(&node.block_at(0), 0);
  g0.max_txs = 3;
  // generator snapshots: gens[h] = generator after the block at height h
  let mut gens = vec![g0];
  // protocol model: block hash -> small id; settings as the index sees them
  let mut ids: std::collections::HashMap<bitcoin::BlockHash, usize> = std::collections::HashMap::new();
  let commit_interval = extra
    .iter()
    .position(|a| a == "--commit-interval")
    .map(|i| extra[i + 1].parse::<u64>().unwrap())
    .unwrap_or(5000);
  out.emit(&format!("proto.reset {commit_interval} {s} {m} 0"), "ok");
  let steps = 3 + rng.below(args.get("steps").map(|v| v.parse().unwrap()).unwrap_or(5u64));
  let timeout = Duration::from_secs(args.get("hang-secs").map(|v| v.parse().unwrap()).unwrap_or(15u64));
  let mut history = String::new();
  for step in 0..steps {
    let height = node.height() as u64; // tip height
    let do_reorg = height >= 1 && rng.chance(1, 2);
    if do_reorg {
      let maxd = height.min(s * m + 2);
      let d = 1 + rng.below(maxd);
      let extra_blocks = 1 + rng.below(3);
      node.pop_blocks(d as usize);
      gens.truncate((height - d + 1) as usize);
      let mut g = gens.last().unwrap().clone();
      g.rng = rng.fork();
      for _ in 0..(d + extra_blocks) {
        let b = g.block(&node, dist);
        node.push_block(b);
        gens.push(g.clone());
      }
      history.push_str(&format!("R{d}+{};", d + extra_blocks));
      dist.hit("reorg");
      dist.hit(&format!("reorg_depth_{}", if d <= 1 { "1" } else if d < s { "lt_interval" } else if d < s * (m - 1) { "lt_window" } else { "deep" }));
    } else {
      let k = 1 + rng.below(2 * s);
      let mut g = gens.last().unwrap().clone();
      for _ in 0..k {
        let b = g.block(&node, dist);
        node.push_block(b);
        gens.push(g.clone());
      }
      history.push_str(&format!("M{k};"));
    }
    points::reset(true);
    let outcome = env::update(&ix, timeout);
    let trace = points::take_trace();
    points::reset(false);
    let restores = trace.iter().filter(|(n, _)| n == "reorg:post-commit").count();
    // protocol line: node chain as ids; implementation answer from its dump + trace
    {
      let node_ids: Vec<String> = {
        let state = node.core.state();
        state.hashes.clone()
      }
      .iter()
      .map(|h| {
        let n = ids.len();
        ids.entry(*h).or_insert(n).to_string()
      })
      .collect();
      let rows = ix.index.verif_dump().unwrap();
      let chain_ids: Vec<String> = rows
        .iter()
        .filter(|r| r.starts_with("header "))
        .map(|r| {
          let hash: bitcoin::BlockHash = r.split(' ').nth(2).unwrap().parse().unwrap();
          ids.get(&hash).map(|i| i.to_string()).unwrap_or("?".into())
        })
        .collect();
      let lastsp = rows
        .iter()
        .find(|r| r.starts_with("bookkeeping statistic LastSavepointHeight "))
        .map(|r| r.rsplit(' ').next().unwrap().to_string())
        .unwrap_or("0".into());
      let evs: Vec<String> = trace
        .iter()
        .filter_map(|(n, h)| match n.as_str() {
          "commit:post-durable" => Some(format!("C{h}")),
          "savepoint:deleted-uncommitted" => Some(format!("D{h}")),
          "savepoint:post-create-commit" => Some(format!("S{h}")),
          "reorg:post-commit" => Some(format!("R{h}")),
          _ => None,
        })
        .collect();
      let (o, evs) = match &outcome {
        UpdateOutcome::Ok => ("ok".to_string(), evs),
        UpdateOutcome::Err(e) if e.contains("unrecoverable reorg") => ("unrecoverable".to_string(), evs),
        UpdateOutcome::Hang => ("hang".to_string(), Vec::new()),
        UpdateOutcome::Err(e) => (format!("err:{}", e.replace(' ', "_")), evs),
        UpdateOutcome::Panic(p) => (format!("panic:{}", p.replace(' ', "_")), evs),
      };
      let join = |v: &Vec<String>| if v.is_empty() { "-".to_string() } else { v.join(",") };
      out.emit(
        &format!("proto.update {} 40 {}", if real_headers { node.height() as u64 } else { 0 }, join(&node_ids)),
        &format!("{o} chain={} lastsp={lastsp} ev={}", join(&chain_ids), join(&evs)),
      );
    }
    let desc = format!(
      "case={case} step={step} s={s} m={m} tip={} history={history} restores={restores}",
      node.height()
    );
    match outcome {
      UpdateOutcome::Ok => {
        // from-scratch index on the node's current chain
        let fresh = env::open(&node, scratch, flags, &[], false);
        if let Err(e) = crate::must_update(&fresh) {
          out.emit(&format!("store.oracle.true 0 {desc} class=scratch-update-failed:{}", e.replace(' ', "_")), "true");
          return;
        }
        let a = content_of(&fresh);
        let b = content_of(&ix);
        let same = a == b;
        out.emit(
          &format!(
            "store.oracle.same {} {} {desc} class={} diff={}",
            digest(&a),
            digest(&b),
            if same { "ok" } else { "stale-content" },
            first_diff(&a, &b)
          ),
          "true",
        );
        if restores > 0 {
          dist.hit("reorg_recovered");
        }
      }
      UpdateOutcome::Err(e) if e.contains("unrecoverable reorg") => {
        let flagged = ix.index.verif_dump().unwrap().iter().any(|r| r == "flag unrecoverably_reorged true");
        out.emit(&format!("store.oracle.true {} {desc} class=unrecoverable flagged={flagged}", flagged as u8), "true");
        dist.hit("reorg_unrecoverable");
        return;
      }
      UpdateOutcome::Err(e) => {
        out.emit(&format!("store.oracle.true 0 {desc} class=error:{}", e.replace(' ', "_")), "true");
        return;
      }
      UpdateOutcome::Panic(p) => {
        out.emit(&format!("store.oracle.true 0 {desc} class=panic:{}", p.replace(' ', "_")), "true");
        return;
      }
      UpdateOutcome::Hang => {
        // the rollback loop never terminates (the thread is leaked; the process exits soon)
        out.emit(&format!("store.oracle.true 0 {desc} class=hang"), "true");
        dist.hit("reorg_hang");
        return;
      }
    }
  }
}

/// C14, last clause, at the one place where the index holds NO savepoint: an index that stopped
/// (height limit, shutdown) while it was still far behind the node's tip has not taken any savepoint
/// yet (`is_savepoint_required` is false until `blocks - height <= interval * max + 1`).  If the node
/// then reorganises a few blocks below that index tip, `update` finds a reorg of recoverable depth
/// and has nothing to roll back to: the property demands "reported as unrecoverable and flagged",
/// and that no block of the abandoned branch is kept silently.
pub fn no_savepoint_scenario(rng: &mut Rng, out: &mut Streams, dist: &mut Dist, scratch: &Path) {
  // mockcore reports `headers: 0` by default, which makes every height look close to the tip
  mockcore::verif::report_headers(true);
  no_savepoint_scenario_inner(rng, out, dist, scratch);
  mockcore::verif::report_headers(false);
}

fn no_savepoint_scenario_inner(rng: &mut Rng, out: &mut Streams, dist: &mut Dist, scratch: &Path) {
  let node = Node::new("regtest", scratch);
  let mut g = chaingen::Gen::new(rng.fork(), node.core.state().network);
  g.absorb(&node.block_at(0), 0);
  g.max_txs = 2;
  let mut gens = vec![g.clone()];
  for _ in 0..40 {
    let b = g.block(&node, dist);
    node.push_block(b);
    gens.push(g.clone());
  }
  let limit = 9u32;
  let sp = vec!["--savepoint-interval".to_string(), "10".to_string(), "--max-savepoints".to_string(), "2".to_string()];
  let mut limited = sp.clone();
  limited.extend(["--height-limit".to_string(), limit.to_string()]);
  let ix = env::open(&node, scratch, Flags::all(), &limited, false);
  let first = env::update(&ix, Duration::from_secs(60));
  let rows = ix.index.verif_dump().unwrap();
  let indexed = rows.iter().filter(|r| r.starts_with("header ")).count();
  // the node replaces everything from height `limit - 3` on (3 blocks below the index tip)
  let keep = (limit - 3) as usize;
  node.pop_blocks(41 - keep);
  gens.truncate(keep);
  let mut g = gens.last().unwrap().clone();
  g.rng = rng.fork();
  for _ in 0..45 {
    let b = g.block(&node, dist);
    node.push_block(b);
  }
  let ix = env::reopen(&node, ix, Flags::all(), &sp);
  let outcome = env::update(&ix, Duration::from_secs(60));
  let desc = format!(
    "scenario=no-savepoint first={} indexed={indexed} limit={limit} fork={keep} tip={}",
    match &first {
      UpdateOutcome::Ok => "ok".to_string(),
      UpdateOutcome::Err(e) => format!("err:{}", e.replace(' ', "_")),
      UpdateOutcome::Panic(p) => format!("panic:{}", p.replace(' ', "_")),
      UpdateOutcome::Hang => "hang".to_string(),
    },
    node.height()
  );
  dist.hit("no_savepoint_scenario");
  match outcome {
    UpdateOutcome::Ok => {
      // acceptable only if the index now equals a from-scratch index of the new chain
      let fresh = env::open(&node, scratch, Flags::all(), &[], false);
      let ok = crate::must_update(&fresh).is_ok();
      let a = content_of(&fresh);
      let b = content_of(&ix);
      out.emit(
        &format!("store.oracle.same {} {} {desc} class={} diff={}", digest(&a), digest(&b), if ok && a == b { "ok" } else { "stale-content" }, first_diff(&a, &b)),
        "true",
      );
    }
    UpdateOutcome::Err(e) if e.contains("unrecoverable reorg") => {
      let flagged = ix.index.verif_dump().unwrap().iter().any(|r| r == "flag unrecoverably_reorged true");
      out.emit(&format!("store.oracle.true {} {desc} class=unrecoverable flagged={flagged}", flagged as u8), "true");
    }
    UpdateOutcome::Err(e) => out.emit(&format!("store.oracle.true 0 {desc} class=error:{}", e.replace(' ', "_")), "true"),
    UpdateOutcome::Panic(p) => out.emit(&format!("store.oracle.true 0 {desc} class=panic:{}", p.replace(' ', "_")), "true"),
    UpdateOutcome::Hang => out.emit(&format!("store.oracle.true 0 {desc} class=hang"), "true"),
  }
}
