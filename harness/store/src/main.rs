//! Correspondence / differential harness for the store-level properties:
//!   sched  (C12) the same chain under different commit intervals, update-call partitions and
//!          reopen points gives the same content, equal to the Lean cache+commit model driven
//!          with the commits where the implementation really made them (trace points);
//!   flags  (C15) inscription / rune results do not depend on the optional indexes;
//!   reorg  (C14) reorganisations are undone or reported;
//!   crash  (C13) death at any named point leaves a committed state that resumes correctly.
use {
  bitcoin::Block,
  common::*,
  ixlib::{
    Flags, Node, UpdateOutcome, chaingen,
    emit::emit_block,
    env::{self, Ix},
  },
  ord::verif::points,
  std::{path::Path, time::Duration},
};

mod crash;
mod reorg;

pub fn digest(rows: &[String]) -> String {
  // FNV-1a over the rows: a short content fingerprint for the oracle lines
  let mut h: u64 = 0xcbf29ce484222325;
  for r in rows {
    for b in r.bytes().chain(std::iter::once(b'\n')) {
      h ^= u64::from(b);
      h = h.wrapping_mul(0x100000001b3);
    }
  }
  format!("{h:016x}:{}", rows.len())
}

pub fn first_diff(a: &[String], b: &[String]) -> String {
  for (x, y) in a.iter().zip(b.iter()) {
    if x != y {
      return format!("A[{}] B[{}]", x.replace(' ', "_"), y.replace(' ', "_"));
    }
  }
  if a.len() != b.len() {
    return format!("len {} vs {}", a.len(), b.len());
  }
  "-".into()
}

/// generate a chain on a scratch node and return its blocks (heights 1..)
pub fn gen_chain(rng: &mut Rng, chain: &'static str, scratch: &Path, nblocks: u64, premine: u64, dist: &mut Dist) -> Vec<Block> {
  let node = Node::new(chain, scratch);
  let mut g = chaingen::Gen::new(rng.fork(), node.core.state().network);
  g.malformed = rng.chance(1, 4);
  g.absorb(&node.block_at(0), 0);
  let saved = g.max_txs;
  let mut blocks = Vec::new();
  for b in 0..(premine + nblocks) {
    g.max_txs = if b < premine { 0 } else { saved };
    let block = g.block(&node, dist);
    node.push_block(block.clone());
    blocks.push(block);
  }
  blocks
}

pub fn content_of(ix: &Ix) -> Vec<String> {
  env::content(&ix.index.verif_dump().unwrap())
}

pub fn pick_flags(rng: &mut Rng) -> Flags {
  match rng.below(5) {
    0..=2 => Flags::all(),
    _ => {
      let mut f = Flags::from_bits(rng.below(32) as u32);
      if !f.sats && !f.addr && !f.ins && !f.runes {
        f.ins = true;
      }
      f
    }
  }
}

pub fn must_update(ix: &Ix) -> Result<(), String> {
  match env::update(ix, Duration::from_secs(120)) {
    UpdateOutcome::Ok => Ok(()),
    UpdateOutcome::Err(e) => Err(format!("err:{e}")),
    UpdateOutcome::Panic(p) => Err(format!("panic:{p}")),
    UpdateOutcome::Hang => Err("hang".into()),
  }
}

fn cfg_line(flags: Flags, chain: &str) -> String {
  let (first_ins, jubilee, first_rune) = match chain {
    "regtest" => (0, 110, 0),
    "testnet4" => (0, 0, 0),
    _ => panic!("chain parameters not tabulated for {chain}"),
  };
  format!(
    "cfg sats={} addr={} tx={} ins={} runes={} first_ins={first_ins} jubilee={jubilee} first_rune={first_rune}",
    flags.sats as u8, flags.addr as u8, flags.tx as u8, flags.ins as u8, flags.runes as u8
  )
}

/// C12: one chain, several schedules
fn sched_case(args: &Args, rng: &mut Rng, out: &mut Streams, dist: &mut Dist, scratch: &Path, case: u64) {
  let chain = if rng.chance(1, 4) { "testnet4" } else { "regtest" };
  let flags = pick_flags(rng);
  let maxb = args.get("blocks").map(|v| v.parse().unwrap()).unwrap_or(12u64);
  let nblocks = 3 + rng.below(maxb);
  let premine = if rng.chance(1, 3) { 6 + rng.below(3) } else { 0 };
  let blocks = gen_chain(rng, chain, scratch, nblocks, premine, dist);
  let n = blocks.len();
  // reference: everything in one update call with default settings
  let reference = {
    let node = Node::new(chain, scratch);
    for b in &blocks {
      node.push_block(b.clone());
    }
    let ix = env::open(&node, scratch, flags, &[], false);
    if let Err(e) = must_update(&ix) {
      out.emit(&format!("store.oracle.true 0 case={case} reference-update-failed {}", e.replace(' ', "_")), "true");
      return;
    }
    content_of(&ix)
  };
  let nsched = args.get("schedules").map(|v| v.parse().unwrap()).unwrap_or(4u64);
  for sched in 0..nsched {
    let interval = 1 + rng.below(n as u64 + 2);
    let integration = rng.chance(1, 2);
    let mut extra = vec!["--commit-interval".to_string(), interval.to_string()];
    if integration {
      extra.push("--integration-test".into());
    }
    if rng.chance(1, 3) {
      extra.push("--savepoint-interval".into());
      extra.push((1 + rng.below(5)).to_string());
    }
    // partition into update calls
    let mut cuts = vec![];
    let mut at = 0usize;
    while at < n {
      let step = 1 + rng.below((n - at) as u64) as usize;
      at += if rng.chance(1, 3) { n - at } else { step };
      cuts.push(at);
    }
    let node = Node::new(chain, scratch);
    let mut ix = env::open(&node, scratch, flags, &extra, false);
    // the Lean concrete-layer model follows this schedule: commits where the trace says
    let follow = sched == 0;
    if follow {
      out.emit(&cfg_line(flags, chain), "ok");
    }
    // tx map for the request lines
    let mut txs = std::collections::HashMap::new();
    let genesis = node.block_at(0);
    for tx in &genesis.txdata {
      txs.insert(tx.compute_txid(), (tx.clone(), 0u32));
    }
    for (h, b) in blocks.iter().enumerate() {
      for tx in &b.txdata {
        txs.insert(tx.compute_txid(), (tx.clone(), h as u32 + 1));
      }
    }
    let network = node.core.state().network;
    let mut pushed = 0usize;
    let mut failed = None;
    let mut reopens = 0;
    let mut emitted_height = 0u32; // next block height to describe to the model
    for &cut in &cuts {
      while pushed < cut {
        node.push_block(blocks[pushed].clone());
        pushed += 1;
      }
      points::reset(true);
      if let Err(e) = must_update(&ix) {
        failed = Some(e);
        break;
      }
      if follow {
        // replay the trace: block-indexed(h') means block h'-1 was indexed; commit:start a flush
        for (name, height) in points::take_trace() {
          match name.as_str() {
            "update:block-indexed" => {
              let h = height - 1;
              assert_eq!(h, emitted_height);
              let blk = if h == 0 { genesis.clone() } else { blocks[h as usize - 1].clone() };
              emit_block(out, h, &blk, network, &txs);
              out.emit("endblock", "ok");
              emitted_height += 1;
            }
            "commit:start" => out.emit("commit", "ok"),
            _ => {}
          }
        }
        // after an update call everything is committed: compare the tables
        let rows = ix.index.verif_dump().unwrap();
        let secs = env::sections(&rows);
        for name in ["chain", "stats", "utxo", "sat2satpoint", "ins", "tx", "addr", "runes"] {
          let on = match name {
            "utxo" => flags.sats || flags.addr || flags.ins,
            "sat2satpoint" => flags.sats,
            "ins" | "tx" => flags.ins,
            "addr" => flags.addr,
            "runes" => flags.runes,
            _ => true,
          };
          if on {
            out.emit(&format!("dump {name}"), &secs[name]);
          }
        }
      }
      points::reset(false);
      if pushed < n && rng.chance(1, 3) {
        ix = env::reopen(&node, ix, flags, &extra);
        reopens += 1;
      }
    }
    let desc = format!(
      "case={case} sched={sched} chain={chain} n={n} interval={interval} integration={} calls={} reopens={reopens}",
      integration as u8,
      cuts.len()
    );
    match failed {
      Some(e) => out.emit(&format!("store.oracle.true 0 {desc} update-failed {}", e.replace(' ', "_")), "true"),
      None => {
        let c = content_of(&ix);
        out.emit(
          &format!("store.oracle.same {} {} {desc} diff={}", digest(&reference), digest(&c), first_diff(&reference, &c)),
          "true",
        );
      }
    }
    dist.hit("schedule");
    dist.hit(&format!("interval_{}", if interval == 1 { "1" } else if (interval as usize) < n { "mid" } else { "ge_n" }));
    if reopens > 0 {
      dist.hit("with_reopen");
    }
    if integration {
      dist.hit("integration_test");
    }
  }
  dist.hit("chain");
}

/// Duplicate-txid scenario (outside C12's domain: BIP30-violating chain): a coinbase repeated
/// byte for byte while its first copy is unspent, then spent.  The committed content then
/// DOES depend on the schedule (the Lean model proves it: `c12_dup_txid_fails`); here the real
/// indexer and the cache+commit model are followed under both schedules so that the model's
/// account of this corner is tied to the code too.  No cross-schedule oracle is emitted.
fn dup_scenario(out: &mut Streams, dist: &mut Dist, scratch: &Path) {
  use bitcoin::{Amount, OutPoint, ScriptBuf, Sequence, Transaction, TxIn, TxOut, Witness, absolute::LockTime, script, transaction::Version};
  let chain = "regtest";
  let flags = Flags { sats: true, addr: true, tx: false, ins: true, runes: false };
  let coinbase = |tag: i64, value: u64| Transaction {
    version: Version(2),
    lock_time: LockTime::ZERO,
    input: vec![TxIn { previous_output: OutPoint::null(), script_sig: script::Builder::new().push_int(tag).into_script(), sequence: Sequence::MAX, witness: Witness::new() }],
    output: vec![TxOut { value: Amount::from_sat(value), script_pubkey: chaingen::p2tr(7) }],
  };
  for sched in 0..2 {
    let node = Node::new(chain, scratch);
    let extra = vec!["--integration-test".to_string(), "--commit-interval".to_string(), "100".to_string()];
    let ix = env::open(&node, scratch, flags, &extra, false);
    let t = coinbase(1, 50 * 100_000_000);
    let x = OutPoint { txid: t.compute_txid(), vout: 0 };
    let b1 = Block { header: env::make_header(node.tip(), 1, 1), txdata: vec![t.clone()] };
    let b1h = b1.block_hash();
    let b2 = Block { header: env::make_header(b1h, 2, 2), txdata: vec![t.clone()] };
    let b2h = b2.block_hash();
    let spend = Transaction {
      version: Version(2),
      lock_time: LockTime::ZERO,
      input: vec![TxIn { previous_output: x, script_sig: ScriptBuf::new(), sequence: Sequence::MAX, witness: Witness::new() }],
      output: vec![TxOut { value: Amount::from_sat(50 * 100_000_000), script_pubkey: chaingen::p2wpkh(1) }],
    };
    let b3 = Block { header: env::make_header(b2h, 3, 3), txdata: vec![coinbase(3, 50 * 100_000_000), spend] };
    let blocks = vec![b1, b2, b3];
    let mut txs = std::collections::HashMap::new();
    let genesis = node.block_at(0);
    for tx in &genesis.txdata {
      txs.insert(tx.compute_txid(), (tx.clone(), 0u32));
    }
    for (h, b) in blocks.iter().enumerate() {
      for tx in &b.txdata {
        txs.insert(tx.compute_txid(), (tx.clone(), h as u32 + 1));
      }
    }
    // schedule 0: an update (= commit) after every block; schedule 1: block 1, then 2+3 together
    let cuts: Vec<usize> = if sched == 0 { vec![1, 2, 3] } else { vec![1, 3] };
    out.emit(&cfg_line(flags, chain), "ok");
    let network = node.core.state().network;
    let mut pushed = 0;
    let mut emitted = 0u32;
    for cut in cuts {
      while pushed < cut {
        node.push_block(blocks[pushed].clone());
        pushed += 1;
      }
      points::reset(true);
      if must_update(&ix).is_err() {
        return;
      }
      for (name, height) in points::take_trace() {
        match name.as_str() {
          "update:block-indexed" => {
            let h = height - 1;
            assert_eq!(h, emitted);
            let blk = if h == 0 { genesis.clone() } else { blocks[h as usize - 1].clone() };
            emit_block(out, h, &blk, network, &txs);
            out.emit("endblock", "ok");
            emitted += 1;
          }
          "commit:start" => out.emit("commit", "ok"),
          _ => {}
        }
      }
      points::reset(false);
      let rows = ix.index.verif_dump().unwrap();
      let secs = env::sections(&rows);
      for name in ["chain", "stats", "utxo", "sat2satpoint", "ins", "addr"] {
        out.emit(&format!("dump {name}"), &secs[name]);
      }
    }
    let kept = ix.index.verif_dump().unwrap().iter().any(|r| r.starts_with(&format!("utxo {x} ")));
    dist.hit(&format!("dup_scenario_sched{sched}_displaced_output_{}", if kept { "kept" } else { "gone" }));
  }
}

/// C15: the same chain under every combination of the optional index flags
fn flags_case(args: &Args, rng: &mut Rng, out: &mut Streams, dist: &mut Dist, scratch: &Path, case: u64) {
  let chain = if rng.chance(1, 4) { "testnet4" } else { "regtest" };
  let maxb = args.get("blocks").map(|v| v.parse().unwrap()).unwrap_or(12u64);
  let nblocks = 3 + rng.below(maxb);
  let premine = if rng.chance(1, 3) { 6 + rng.below(3) } else { 0 };
  let blocks = gen_chain(rng, chain, scratch, nblocks, premine, dist);
  // projection: inscription ids, numbers, locations, parents, fees, heights, non-sat charms;
  // rune entries and balances
  const SAT_CHARMS: u32 = 1 | 4 | 8 | 32 | 64 | 512 | 2048 | 8192; // coin epic legendary nineball rare uncommon mythic palindrome
  let project = |rows: &[String]| -> Vec<String> {
    let mut v = Vec::new();
    for r in rows {
      let head = r.split(' ').next().unwrap();
      match head {
        "entry" => {
          let toks: Vec<String> = r
            .split(' ')
            .filter_map(|t| {
              if t.starts_with("sat=") {
                None
              } else if let Some(c) = t.strip_prefix("charms=") {
                Some(format!("charms={}", c.parse::<u32>().unwrap() & !SAT_CHARMS))
              } else {
                Some(t.to_string())
              }
            })
            .collect();
          v.push(toks.join(" "));
        }
        "id2seq" | "num2seq" | "seq2satpoint" | "children" | "collection2latest" | "latest2collection" | "gallery"
        | "home" | "height2lastseq" | "rune" | "rune2id" | "balances" | "txid2rune" | "seq2runeid" => v.push(r.clone()),
        "statistic" if r.contains("Inscriptions") || r.contains("Runes") => v.push(r.clone()),
        _ => {}
      }
    }
    v
  };
  let mut reference: Option<(Flags, Vec<String>)> = None;
  for bits in 0..8u32 {
    let flags = Flags { sats: bits & 1 != 0, addr: bits & 2 != 0, tx: bits & 4 != 0, ins: true, runes: true };
    let node = Node::new(chain, scratch);
    for b in &blocks {
      node.push_block(b.clone());
    }
    let ix = env::open(&node, scratch, flags, &[], false);
    let desc = format!("case={case} chain={chain} n={} flags={}{}{}", blocks.len(), flags.sats as u8, flags.addr as u8, flags.tx as u8);
    if let Err(e) = must_update(&ix) {
      out.emit(&format!("store.oracle.true 0 {desc} update-failed {}", e.replace(' ', "_")), "true");
      continue;
    }
    let p = project(&ix.index.verif_dump().unwrap());
    match &reference {
      None => reference = Some((flags, p)),
      Some((_, r)) => out.emit(&format!("store.oracle.same {} {} {desc} diff={}", digest(r), digest(&p), first_diff(r, &p)), "true"),
    }
    dist.hit("flag_combination");
  }
  dist.hit("chain");
}

fn main() {
  let args = Args::parse();
  let mut out = Streams::create(&args.out);
  let mut dist = Dist::default();
  let mut rng = Rng::new(args.seed);
  let scratch = args.out.join("scratch");
  std::fs::create_dir_all(&scratch).unwrap();
  if args.stream == "sched" {
    dup_scenario(&mut out, &mut dist, &scratch);
  }
  if args.stream == "reorg" {
    reorg::no_savepoint_scenario(&mut rng.fork(), &mut out, &mut dist, &scratch);
  }
  for case in 0..args.cases {
    let mut r = rng.fork();
    match args.stream.as_str() {
      "sched" => sched_case(&args, &mut r, &mut out, &mut dist, &scratch, case),
      "flags" => flags_case(&args, &mut r, &mut out, &mut dist, &scratch, case),
      "reorg" => reorg::case(&args, &mut r, &mut out, &mut dist, &scratch, case),
      "crash" => crash::case(&args, &mut r, &mut out, &mut dist, &scratch, case),
      s => panic!("unknown stream {s}"),
    }
  }
  let _ = std::fs::remove_dir_all(&scratch);
  dist.write(&args.out);
  out.finish();
}
