//! A mock node plus a real ord `Index` on it.
use {
  bitcoin::{
    Amount, Block, BlockHash, CompactTarget, OutPoint, Transaction, TxMerkleNode, Txid,
    block::{Header, Version as BlockVersion},
    hashes::Hash,
  },
  clap::Parser,
  ord::{Index, index::event::Event, options::Options, settings::Settings},
  std::{
    collections::BTreeMap,
    path::PathBuf,
    sync::{Arc, mpsc},
    time::Duration,
  },
};

#[derive(Clone, Copy, Debug, PartialEq, Eq)]
pub struct Flags {
  pub sats: bool,
  pub addr: bool,
  pub tx: bool,
  pub ins: bool,
  pub runes: bool,
}

impl Flags {
  pub fn all() -> Self {
    Flags { sats: true, addr: true, tx: true, ins: true, runes: true }
  }
  pub fn from_bits(b: u32) -> Self {
    Flags {
      sats: b & 1 != 0,
      addr: b & 2 != 0,
      tx: b & 4 != 0,
      ins: b & 8 != 0,
      runes: b & 16 != 0,
    }
  }
  pub fn args(&self) -> Vec<&'static str> {
    let mut v = Vec::new();
    if self.sats {
      v.push("--index-sats");
    }
    if self.addr {
      v.push("--index-addresses");
    }
    if self.tx {
      v.push("--index-transactions");
    }
    if !self.ins {
      v.push("--no-index-inscriptions");
    }
    if self.runes {
      v.push("--index-runes");
    }
    v
  }
}

pub struct Node {
  pub core: mockcore::Handle,
  pub dir: tempfile::TempDir,
  pub cookie: PathBuf,
  pub chain: &'static str,
}

impl Node {
  pub fn new(chain: &'static str, scratch: &std::path::Path) -> Self {
    let network = match chain {
      "regtest" => bitcoin::Network::Regtest,
      "testnet4" => bitcoin::Network::Testnet4,
      "signet" => bitcoin::Network::Signet,
      "testnet" => bitcoin::Network::Testnet,
      _ => bitcoin::Network::Bitcoin,
    };
    let core = mockcore::builder().network(network).build();
    let dir = tempfile::Builder::new().prefix("node").tempdir_in(scratch).unwrap();
    let cookie = dir.path().join("cookie");
    std::fs::write(&cookie, "username:password").unwrap();
    Node { core, dir, cookie, chain }
  }

  /// append a block built by the caller to the mock node's best chain
  pub fn push_block(&self, block: Block) {
    let mut state = self.core.state();
    let height = u32::try_from(state.hashes.len()).unwrap();
    for tx in &block.txdata {
      let txid = tx.compute_txid();
      state.transactions.insert(txid, tx.clone());
      state.txid_to_block_height.insert(txid, height);
      for input in &tx.input {
        state.utxos.remove(&input.previous_output);
      }
      for (vout, out) in tx.output.iter().enumerate() {
        if !out.script_pubkey.is_op_return() {
          state.utxos.insert(OutPoint { txid, vout: vout as u32 }, out.value);
        }
      }
    }
    let hash = block.block_hash();
    state.blocks.insert(hash, block);
    state.hashes.push(hash);
  }

  pub fn tip(&self) -> BlockHash {
    *self.core.state().hashes.last().unwrap()
  }

  pub fn height(&self) -> u32 {
    u32::try_from(self.core.state().hashes.len() - 1).unwrap()
  }

  pub fn block_at(&self, height: u32) -> Block {
    let state = self.core.state();
    state.blocks[&state.hashes[height as usize]].clone()
  }

  /// drop the last `n` blocks (a reorg's first half)
  pub fn pop_blocks(&self, n: usize) {
    let mut state = self.core.state();
    for _ in 0..n {
      let hash = state.hashes.pop().unwrap();
      let block = state.blocks.remove(&hash).unwrap();
      for tx in &block.txdata {
        let txid = tx.compute_txid();
        state.txid_to_block_height.remove(&txid);
      }
    }
  }
}

pub fn make_header(prev: BlockHash, time: u32, nonce: u32) -> Header {
  Header {
    version: BlockVersion::ONE,
    prev_blockhash: prev,
    merkle_root: TxMerkleNode::all_zeros(),
    time,
    bits: CompactTarget::from_consensus(0),
    nonce,
  }
}

pub struct Ix {
  pub index: Arc<Index>,
  pub events: Option<tokio::sync::mpsc::Receiver<Event>>,
  pub dir: tempfile::TempDir,
}

pub fn settings(node: &Node, datadir: &std::path::Path, flags: Flags, extra: &[String]) -> Settings {
  let mut args: Vec<String> = vec![
    "ord".into(),
    "--bitcoin-rpc-url".into(),
    node.core.url(),
    "--datadir".into(),
    datadir.display().to_string(),
    "--cookie-file".into(),
    node.cookie.display().to_string(),
    format!("--chain={}", node.chain),
  ];
  args.extend(flags.args().iter().map(|s| s.to_string()));
  args.extend(extra.iter().cloned());
  let options = Options::try_parse_from(args).unwrap();
  Settings::from_options(options).or_defaults().unwrap()
}

pub fn open(node: &Node, scratch: &std::path::Path, flags: Flags, extra: &[String], events: bool) -> Ix {
  let dir = tempfile::Builder::new().prefix("ix").tempdir_in(scratch).unwrap();
  let s = settings(node, dir.path(), flags, extra);
  if events {
    let (tx, rx) = tokio::sync::mpsc::channel(1 << 20);
    let index = Index::open_with_event_sender(&s, Some(tx)).unwrap();
    Ix { index: Arc::new(index), events: Some(rx), dir }
  } else {
    Ix { index: Arc::new(Index::open(&s).unwrap()), events: None, dir }
  }
}

/// reopen an index on an existing data dir
pub fn reopen(node: &Node, ix: Ix, flags: Flags, extra: &[String]) -> Ix {
  let Ix { index, dir, .. } = ix;
  drop(index);
  let s = settings(node, dir.path(), flags, extra);
  Ix { index: Arc::new(Index::open(&s).unwrap()), events: None, dir }
}

pub enum UpdateOutcome {
  Ok,
  Err(String),
  Panic(String),
  Hang,
}

/// `Index::update` under a watchdog (C14: a hang is an outcome, not a harness failure)
pub fn update(ix: &Ix, timeout: Duration) -> UpdateOutcome {
  let (tx, rx) = mpsc::channel();
  let index = ix.index.clone();
  std::thread::spawn(move || {
    let r = std::panic::catch_unwind(std::panic::AssertUnwindSafe(|| index.update()));
    // release this thread's handle on the database before reporting, so that the caller may
    // drop its own and reopen the index at once
    drop(index);
    let _ = tx.send(match r {
      Ok(Ok(())) => UpdateOutcome::Ok,
      Ok(Err(e)) => UpdateOutcome::Err(format!("{e:#}").lines().next().unwrap_or("").to_string()),
      Err(p) => UpdateOutcome::Panic(
        p.downcast_ref::<String>()
          .cloned()
          .or_else(|| p.downcast_ref::<&str>().map(|s| s.to_string()))
          .unwrap_or_else(|| "unknown".into())
          .lines()
          .next()
          .unwrap_or("")
          .to_string(),
      ),
    });
  });
  match rx.recv_timeout(timeout) {
    Ok(o) => o,
    Err(_) => UpdateOutcome::Hang,
  }
}

/// the dump rows grouped into the sections the model renders, each section sorted and joined
pub fn sections(rows: &[String]) -> BTreeMap<&'static str, String> {
  let mut m: BTreeMap<&'static str, Vec<String>> = BTreeMap::new();
  for name in ["chain", "utxo", "sat2satpoint", "ins", "addr", "tx", "runes", "stats"] {
    m.insert(name, Vec::new());
  }
  let mut stats: BTreeMap<&str, String> = BTreeMap::new();
  for row in rows {
    let head = row.split(' ').next().unwrap();
    let sec = match head {
      "header" => "chain",
      "utxo" => "utxo",
      "sat2satpoint" => "sat2satpoint",
      "entry" | "id2seq" | "num2seq" | "seq2satpoint" | "sat2seq" | "children" | "collection2latest"
      | "latest2collection" | "gallery" | "home" | "height2lastseq" => "ins",
      "script2outpoints" => "addr",
      "txid2tx" => "tx",
      "rune" | "rune2id" | "balances" | "txid2rune" | "seq2runeid" => "runes",
      "statistic" => {
        let mut it = row.split(' ');
        it.next();
        let name = it.next().unwrap();
        stats.insert(name, row.clone());
        continue;
      }
      _ => continue,
    };
    if head == "script2outpoints" {
      // values are in redb byte order; canonical order here is string order
      let mut it = row.splitn(3, ' ');
      let (h, k, v) = (it.next().unwrap(), it.next().unwrap(), it.next().unwrap_or(""));
      let mut vals: Vec<&str> = v.split(',').collect();
      vals.sort();
      m.get_mut(sec).unwrap().push(format!("{h} {k} {}", vals.join(",")));
      continue;
    }
    m.get_mut(sec).unwrap().push(row.clone());
  }
  for name in [
    "LostSats",
    "CursedInscriptions",
    "BlessedInscriptions",
    "UnboundInscriptions",
    "Runes",
    "ReservedRunes",
  ] {
    m.get_mut("stats")
      .unwrap()
      .push(stats.get(name).cloned().unwrap_or_else(|| format!("statistic {name} 0")));
  }
  m.into_iter()
    .map(|(k, mut v)| {
      v.sort();
      (k, if v.is_empty() { "-".to_string() } else { v.join("|") })
    })
    .collect()
}

/// all non-bookkeeping rows, for index-vs-index comparisons (C12–C15)
pub fn content(rows: &[String]) -> Vec<String> {
  rows.iter().filter(|r| !r.starts_with("bookkeeping")).cloned().collect()
}

pub fn render_event(e: &Event) -> String {
  match e {
    Event::InscriptionCreated { block_height, charms, inscription_id, location, parent_inscription_ids, sequence_number } => format!(
      "InscriptionCreated h={block_height} charms={charms} id={inscription_id} loc={} parents={} seq={sequence_number}",
      location.map(|l| l.to_string()).unwrap_or("-".into()),
      if parent_inscription_ids.is_empty() { "-".to_string() } else { parent_inscription_ids.iter().map(|p| p.to_string()).collect::<Vec<_>>().join(",") },
    ),
    Event::InscriptionTransferred { block_height, inscription_id, new_location, old_location, sequence_number } => format!(
      "InscriptionTransferred h={block_height} id={inscription_id} new={new_location} old={old_location} seq={sequence_number}"
    ),
    Event::RuneBurned { amount, block_height, rune_id, txid } => format!("RuneBurned amount={amount} h={block_height} rune={rune_id} txid={txid}"),
    Event::RuneEtched { block_height, rune_id, txid } => format!("RuneEtched h={block_height} rune={rune_id} txid={txid}"),
    Event::RuneMinted { amount, block_height, rune_id, txid } => format!("RuneMinted amount={amount} h={block_height} rune={rune_id} txid={txid}"),
    Event::RuneTransferred { amount, block_height, outpoint, rune_id, txid } => format!("RuneTransferred amount={amount} h={block_height} outpoint={outpoint} rune={rune_id} txid={txid}"),
  }
}

/// consecutive RuneBurned events come out of a HashMap: order them canonically
pub fn canon_events(evs: Vec<String>) -> String {
  let mut out: Vec<String> = Vec::new();
  let mut run: Vec<String> = Vec::new();
  for e in evs {
    if e.starts_with("RuneBurned") {
      run.push(e);
    } else {
      run.sort();
      out.append(&mut run);
      out.push(e);
    }
  }
  run.sort();
  out.append(&mut run);
  if out.is_empty() { "-".into() } else { out.join("|") }
}

pub fn _unused(_: Amount, _: Transaction, _: Txid) {}
