//! Grammar-directed generator of mostly consensus-valid chains (DESIGN §3.4).
use {
  crate::env::{Node, make_header},
  bitcoin::{
    Amount, Block, OutPoint, ScriptBuf, Sequence, Transaction, TxIn, TxOut, Txid, Witness,
    absolute::LockTime,
    opcodes,
    script::{self, PushBytesBuf},
    transaction::Version,
  },
  common::{Dist, Rng},
  ord::InscriptionId,
  ordinals::{Edict, Etching, Rune, RuneId, Runestone, Terms},
  std::collections::HashMap,
};

#[derive(Clone, Debug)]
pub struct Utxo {
  pub op: OutPoint,
  pub value: u64,
  pub script: ScriptBuf,
  pub height: u32,
  /// created by a transaction that carried an envelope or a runestone (bias target)
  pub hot: bool,
}

#[derive(Clone)]
pub struct Gen {
  pub rng: Rng,
  pub utxos: Vec<Utxo>,
  pub txs: HashMap<Txid, (Transaction, u32)>,
  pub ins_ids: Vec<InscriptionId>,
  pub rune_ids: Vec<RuneId>,
  pub rune_names: Vec<u128>,
  /// rune balances per unspent outpoint as the real index reports them (fed back by the harness)
  pub runic: HashMap<OutPoint, Vec<(RuneId, u128)>>,
  pub network: bitcoin::Network,
  pub max_txs: u64,
  /// probability knobs (per mille)
  pub p_envelope: u64,
  pub p_runestone: u64,
  pub malformed: bool,
}

pub fn p2wpkh(k: u8) -> ScriptBuf {
  let mut b = vec![0x00, 0x14];
  b.extend([k; 20]);
  ScriptBuf::from_bytes(b)
}

pub fn p2tr(k: u8) -> ScriptBuf {
  let mut b = vec![0x51, 0x20];
  b.extend([k; 32]);
  ScriptBuf::from_bytes(b)
}

pub fn op_return(data: &[u8]) -> ScriptBuf {
  let mut b = vec![0x6a];
  if !data.is_empty() {
    b.push(data.len() as u8);
    b.extend_from_slice(data);
  }
  ScriptBuf::from_bytes(b)
}

fn push(builder: script::Builder, data: &[u8]) -> script::Builder {
  builder.push_slice(PushBytesBuf::try_from(data.to_vec()).unwrap())
}

impl Gen {
  pub fn new(rng: Rng, network: bitcoin::Network) -> Self {
    Gen {
      rng,
      utxos: Vec::new(),
      txs: HashMap::new(),
      ins_ids: Vec::new(),
      rune_ids: Vec::new(),
      rune_names: Vec::new(),
      runic: HashMap::new(),
      network,
      max_txs: 5,
      p_envelope: 450,
      p_runestone: 400,
      malformed: false,
    }
  }

  /// register an existing block; the genesis coinbase is unspendable on a real chain (it is
  /// not in Bitcoin Core's UTXO set and `getrawtransaction` does not know it), so height 0 adds
  /// nothing spendable
  pub fn absorb(&mut self, block: &Block, height: u32) {
    for tx in &block.txdata {
      let txid = tx.compute_txid();
      self.txs.insert(txid, (tx.clone(), height));
      if height == 0 {
        continue;
      }
      for (vout, out) in tx.output.iter().enumerate() {
        self.utxos.push(Utxo {
          op: OutPoint { txid, vout: vout as u32 },
          value: out.value.to_sat(),
          script: out.script_pubkey.clone(),
          height,
          hot: false,
        });
      }
    }
  }

  fn script_pool(&mut self) -> ScriptBuf {
    match self.rng.below(20) {
      0..=4 => p2wpkh(1),
      5..=7 => p2wpkh(2),
      8 => p2wpkh(3),
      9..=14 => p2tr(7),
      15 => p2tr(8),
      16 => op_return(&[]),
      17 => op_return(b"hello"),
      18 => ScriptBuf::new(),
      _ => ScriptBuf::from_bytes(vec![0x51]),
    }
  }

  fn pick_input(&mut self, height: u32) -> Option<Utxo> {
    if self.utxos.is_empty() {
      return None;
    }
    let n = self.utxos.len();
    // bias: hot outputs, then recent, then any; occasionally an old taproot output (commitments)
    let idx = match self.rng.below(10) {
      0..=3 => {
        let hot: Vec<usize> = (0..n).filter(|&i| self.utxos[i].hot).collect();
        if hot.is_empty() { self.rng.below(n as u64) as usize } else { *self.rng.pick(&hot) }
      }
      4..=6 => n - 1 - self.rng.below(n.min(6) as u64) as usize,
      7 => {
        let old: Vec<usize> = (0..n)
          .filter(|&i| self.utxos[i].script.is_p2tr() && self.utxos[i].height + 5 <= height)
          .collect();
        if old.is_empty() { self.rng.below(n as u64) as usize } else { *self.rng.pick(&old) }
      }
      _ => self.rng.below(n as u64) as usize,
    };
    Some(self.utxos.remove(idx))
  }

  fn some_id(&mut self, own: Txid) -> InscriptionId {
    match self.rng.below(10) {
      0..=5 if !self.ins_ids.is_empty() => *self.rng.pick(&self.ins_ids.clone()),
      6 => InscriptionId { txid: own, index: self.rng.below(3) as u32 },
      7 => InscriptionId { txid: Txid::from_raw_hash(bitcoin::hashes::Hash::from_byte_array([9; 32])), index: 0 },
      _ if !self.ins_ids.is_empty() => {
        let mut id = *self.rng.pick(&self.ins_ids.clone());
        id.index += 1;
        id
      }
      _ => InscriptionId { txid: own, index: 0 },
    }
  }

  fn id_value(id: InscriptionId) -> Vec<u8> {
    use bitcoin::hashes::Hash;
    let mut v = id.txid.to_byte_array().to_vec();
    let idx = id.index.to_le_bytes();
    let mut n = 4;
    while n > 0 && idx[n - 1] == 0 {
      n -= 1;
    }
    v.extend_from_slice(&idx[..n]);
    v
  }

  fn pointer_value(p: u64) -> Vec<u8> {
    let mut v = p.to_le_bytes().to_vec();
    while v.last() == Some(&0) {
      v.pop();
    }
    v
  }

  /// one envelope appended to `b`; `total_out`/`in_value` steer pointer choices
  fn envelope(&mut self, mut b: script::Builder, own: Txid, total_out: u64, dist: &mut Dist) -> script::Builder {
    let r = &mut self.rng;
    if r.chance(1, 12) {
      // stutter: an extra OP_FALSE before the real prefix
      b = b.push_opcode(opcodes::OP_FALSE);
      dist.hit("env_stutter");
    }
    b = b.push_opcode(opcodes::OP_FALSE).push_opcode(opcodes::all::OP_IF);
    b = push(b, b"ord");
    // content type
    if !r.chance(1, 8) {
      let ct: &[u8] = match r.below(6) {
        0 => b"text/plain;charset=utf-8",
        1 => b"image/png",
        2 => b"application/json",
        3 => b"text/html",
        4 => b"image/svg+xml",
        _ => b"\xff\xfe",
      };
      if r.chance(1, 15) {
        b = b.push_opcode(opcodes::all::OP_PUSHNUM_1);
        dist.hit("env_pushnum");
      } else {
        b = push(b, &[1]);
      }
      b = push(b, ct);
      if r.chance(1, 15) {
        b = push(b, &[1]);
        b = push(b, b"image/gif");
        dist.hit("env_duplicate");
      }
    }
    if self.rng.chance(1, 4) {
      let p = match self.rng.below(8) {
        0 => 0,
        1 => total_out.saturating_sub(1),
        2 => total_out,
        3 => total_out + 1,
        4 => u64::MAX,
        5 => self.rng.below(total_out.max(1)),
        6 => 546,
        _ => 1,
      };
      b = push(b, &[2]);
      if self.rng.chance(1, 10) {
        let mut v = Self::pointer_value(p);
        v.resize(9, 1);
        b = push(b, &v);
      } else {
        b = push(b, &Self::pointer_value(p));
      }
      dist.hit("env_pointer");
    }
    let nparents = match self.rng.below(10) {
      0..=5 => 0,
      6..=8 => 1,
      _ => 2 + self.rng.below(2),
    };
    for _ in 0..nparents {
      let id = self.some_id(own);
      b = push(b, &[3]);
      b = push(b, &Self::id_value(id));
      dist.hit("env_parent");
    }
    if self.rng.chance(1, 12) {
      b = push(b, &[7]);
      b = push(b, b"brc-20");
    }
    if self.rng.chance(1, 15) {
      let id = self.some_id(own);
      b = push(b, &[11]);
      b = push(b, &Self::id_value(id));
    }
    if self.rng.chance(1, 7) {
      // properties field (tag 17): a real gallery, attributes only, or damaged CBOR
      let id = self.some_id(own);
      let mut props = ord::Properties::default();
      let cbor: Vec<u8> = match self.rng.below(8) {
        0..=3 => {
          props.gallery.push(ord::Item { id: Some(id), attributes: Default::default(), index: None });
          if self.rng.chance(1, 3) {
            let id2 = self.some_id(own);
            props.gallery.push(ord::Item { id: Some(id2), attributes: Default::default(), index: None });
          }
          dist.hit("env_gallery");
          ord::verif::props::to_inline_cbor(&props).unwrap_or_default()
        }
        4 => {
          props.gallery.push(ord::Item { id: Some(id), attributes: Default::default(), index: None });
          let mut c = ord::verif::props::to_inline_cbor(&props).unwrap_or_default();
          if !c.is_empty() {
            let at = self.rng.below(c.len() as u64) as usize;
            c[at] ^= 1 << self.rng.below(8);
          }
          dist.hit("env_properties_mutated");
          c
        }
        5 => {
          // a map header that claims an absurd number of entries
          dist.hit("env_properties_huge_len");
          // every length-prefixed place of the properties schema: the traits map (top-level
          // attributes and inside a gallery item), the title string, the txids byte string, and
          // a random nesting
          let mut c: Vec<u8> = match self.rng.below(6) {
            0 | 1 => vec![0xa1, 0x01, 0xa1, 0x01, 0xbb],
            2 => vec![0xa1, 0x00, 0x81, 0xa1, 0x01, 0xa1, 0x01, 0xbb],
            3 => vec![0xa1, 0x01, 0xa1, 0x00, 0x7b],
            4 => vec![0xa1, 0x02, 0x5b],
            _ => vec![0xa1, self.rng.below(3) as u8, 0xa1, self.rng.below(3) as u8, 0xbb],
          };
          c.extend([0xff; 8]);
          c
        }
        6 => {
          dist.hit("env_properties_huge_len");
          let mut c = vec![0xa1, 0x00, 0x9b];
          c.extend([0xff; 8]);
          c
        }
        _ => {
          dist.hit("env_properties_random");
          let n = self.rng.below(40) as usize;
          self.rng.bytes(n)
        }
      };
      for chunk in cbor.chunks(520) {
        b = push(b, &[17]);
        b = push(b, chunk);
      }
    }
    if self.rng.chance(1, 14) {
      // unknown odd tag: ignored
      b = push(b, &[21]);
      b = push(b, b"x");
    }
    if self.rng.chance(1, 14) {
      // unknown even tag: unbound
      b = push(b, &[22]);
      b = push(b, b"x");
      dist.hit("env_even");
    }
    if self.rng.chance(1, 16) {
      // incomplete field: a tag without value
      b = push(b, &[5]);
      dist.hit("env_incomplete");
    } else if !self.rng.chance(1, 6) {
      b = b.push_opcode(opcodes::OP_FALSE);
      let body: &[u8] = match self.rng.below(5) {
        0 => b"hello",
        1 => b"/content/0000000000000000000000000000000000000000000000000000000000000000i0",
        2 => b"",
        3 => b"{\"p\":\"x\"}",
        _ => b"\x89PNG",
      };
      if !body.is_empty() {
        b = push(b, body);
      }
    }
    if self.malformed && self.rng.chance(1, 6) {
      // missing OP_ENDIF / garbage
      dist.hit("env_unterminated");
      return b.push_opcode(opcodes::all::OP_CHECKSIG);
    }
    b.push_opcode(opcodes::all::OP_ENDIF)
  }

  fn rune_name(&mut self, minimum: u128) -> Option<Rune> {
    Some(Rune(match self.rng.below(12) {
      0 => minimum.saturating_sub(1 + self.rng.below(1000) as u128),
      1 => minimum,
      2 if !self.rune_names.is_empty() => *self.rng.pick(&self.rune_names.clone()),
      3 => Rune::reserved(0, 0).0 + self.rng.below(10) as u128,
      4 => return None,
      _ => minimum + (self.rng.next_u128() % 1_000_000_007u128),
    }))
  }

  fn some_rune_id(&mut self, height: u32, tx_index: u32) -> RuneId {
    match self.rng.below(10) {
      0..=5 if !self.rune_ids.is_empty() => *self.rng.pick(&self.rune_ids.clone()),
      6 => RuneId { block: 0, tx: 0 },
      7 => RuneId { block: u64::from(height), tx: tx_index },
      8 => RuneId { block: u64::from(height), tx: tx_index.saturating_sub(1).max(1) },
      _ => RuneId { block: u64::from(height) + 1 + self.rng.below(3), tx: 1 },
    }
  }

  /// a runestone (or garbage) OP_RETURN script; returns (script, etched name if any)
  fn runestone(&mut self, height: u32, tx_index: u32, n_out: usize, minimum: u128, force_etch: bool, held: &[(RuneId, u128)], dist: &mut Dist) -> (ScriptBuf, Option<Rune>) {
    if self.malformed && self.rng.chance(1, 5) {
      dist.hit("rs_garbage");
      let mut b = vec![0x6a, 0x5d];
      let n = self.rng.below(30) as usize;
      b.extend(self.rng.bytes(n));
      return (ScriptBuf::from_bytes(b), None);
    }
    let mut edicts = Vec::new();
    let ne = match self.rng.below(6) {
      0 | 1 => 0,
      2 | 3 => 1,
      _ => 2 + self.rng.below(3),
    };
    let ne = if !held.is_empty() && ne == 0 && self.rng.chance(2, 3) { 1 + self.rng.below(3) } else { ne };
    for _ in 0..ne {
      // mostly edicts over runes the inputs really hold, with amounts around the balance
      let (id, amount) = if !held.is_empty() && self.rng.chance(2, 3) {
        let (id, bal) = *self.rng.pick(held);
        dist.hit("rs_edict_over_held_rune");
        let amount = match self.rng.below(8) {
          0 => 0,
          1 => 1,
          2 => bal,
          3 => bal + 1,
          4 => bal / 2,
          5 => bal / 3,
          6 => u128::MAX,
          _ => self.rng.below(bal.min(u64::MAX as u128) as u64 + 1) as u128,
        };
        (id, amount)
      } else {
        let id = self.some_rune_id(height, tx_index);
        let amount = match self.rng.below(7) {
          0 => 0,
          1 => 1,
          2 => u128::MAX,
          3 => 1000,
          _ => self.rng.below(5000) as u128,
        };
        (id, amount)
      };
      let output = match self.rng.below(6) {
        0 | 1 => n_out as u32,
        _ => self.rng.below(n_out.max(1) as u64) as u32,
      };
      edicts.push(Edict { id, amount, output });
    }
    let mut etched = None;
    let etching = if force_etch || self.rng.chance(1, 4) {
      let rune = self.rune_name(minimum);
      etched = rune;
      let terms = if self.rng.chance(2, 3) {
        let h = u64::from(height);
        let start = match self.rng.below(10) {
          0..=4 => None,
          5 | 6 => Some(h.saturating_sub(self.rng.below(3))),
          7 | 8 => Some(h + 1 + self.rng.below(3)),
          _ => Some(u64::MAX - self.rng.below(3)),
        };
        let end = match self.rng.below(10) {
          0..=4 => None,
          5..=7 => Some(h + 2 + self.rng.below(10)),
          8 => Some(h.saturating_sub(self.rng.below(2))),
          _ => Some(u64::MAX - self.rng.below(3)),
        };
        let ostart = match self.rng.below(10) {
          0..=5 => None,
          6..=8 => Some(self.rng.below(3)),
          _ => Some(u64::MAX - self.rng.below(3)),
        };
        let oend = match self.rng.below(10) {
          0..=4 => None,
          5..=8 => Some(3 + self.rng.below(10)),
          _ => Some(u64::MAX - self.rng.below(3)),
        };
        Some(Terms {
          amount: if self.rng.chance(9, 10) { Some(1 + self.rng.below(1000) as u128) } else { None },
          cap: match self.rng.below(10) {
            0 => None,
            1 => Some(0),
            2 => Some(1),
            3 => Some(u128::MAX / 1000),
            _ => Some(self.rng.below(5) as u128 + 2),
          },
          height: (start, end),
          offset: (ostart, oend),
        })
      } else {
        None
      };
      dist.hit("rs_etching");
      Some(Etching {
        divisibility: if self.rng.chance(1, 2) { Some(self.rng.below(39) as u8) } else { None },
        premine: match self.rng.below(4) {
          0 => None,
          1 => Some(0),
          _ => Some(self.rng.below(100_000) as u128),
        },
        rune,
        spacers: if self.rng.chance(1, 3) { Some(self.rng.below(64) as u32) } else { None },
        symbol: if self.rng.chance(1, 3) { Some(*self.rng.pick(&['$', 'ᚠ', '🧿'])) } else { None },
        terms,
        turbo: self.rng.chance(1, 4),
      })
    } else {
      None
    };
    let mint = if self.rng.chance(1, 2) {
      dist.hit("rs_mint");
      Some(self.some_rune_id(height, tx_index))
    } else {
      None
    };
    let pointer = match self.rng.below(6) {
      0 | 1 => Some(self.rng.below(n_out.max(1) as u64) as u32),
      _ => None,
    };
    let rs = Runestone { edicts, etching, mint, pointer };
    let mut script = rs.encipher();
    if self.rng.chance(1, 7) {
      // integer-level damage: append a stray byte push (cenotaph paths) or an unknown even tag
      let mut bytes = script.to_bytes();
      match self.rng.below(3) {
        0 => bytes.extend([0x01, 0x80]),
        1 => bytes.extend([0x02, 0x7e, 0x01]),
        _ => bytes.push(0x51),
      }
      script = ScriptBuf::from_bytes(bytes);
      dist.hit("rs_damaged");
    }
    (script, etched)
  }

  fn out_value(&mut self, avail: u64) -> u64 {
    let v = match self.rng.below(12) {
      0 => 0,
      1 => 1,
      2 => 330,
      3 => 546,
      4 => 10_000,
      5 => avail,
      6 => avail / 2,
      7 => avail.saturating_sub(1),
      8 => avail / 3,
      _ => self.rng.below(avail.max(1) + 1),
    };
    v.min(avail)
  }

  /// one non-coinbase transaction; returns it with its fee
  fn transaction(&mut self, height: u32, tx_index: u32, minimum: u128, dist: &mut Dist) -> Option<(Transaction, u64)> {
    let nin = 1 + match self.rng.below(10) {
      0..=5 => 0,
      6..=8 => 1,
      _ => 2 + self.rng.below(2),
    };
    let mut ins = Vec::new();
    // a transaction that is going to try a named etching first looks for a taproot output old
    // enough to carry the commitment (6 confirmations)
    let plan_etch = self.rng.below(1000) < self.p_runestone && self.rng.chance(1, 2);
    if plan_etch {
      let n = self.utxos.len();
      let old: Vec<usize> = (0..n)
        .filter(|&i| self.utxos[i].script.is_p2tr() && self.utxos[i].height + 5 <= height + self.rng.below(2) as u32)
        .collect();
      if !old.is_empty() {
        let idx = *self.rng.pick(&old);
        ins.push(self.utxos.remove(idx));
      }
    }
    let want_runic = self.rng.below(1000) < self.p_runestone;
    if want_runic {
      let n = self.utxos.len();
      let runic: Vec<usize> = (0..n).filter(|&i| self.runic.contains_key(&self.utxos[i].op)).collect();
      if !runic.is_empty() {
        let idx = *self.rng.pick(&runic);
        ins.push(self.utxos.remove(idx));
      }
    }
    for _ in 0..nin {
      if let Some(u) = self.pick_input(height) {
        ins.push(u);
      }
    }
    if ins.is_empty() {
      return None;
    }
    let total_in: u64 = ins.iter().map(|u| u.value).sum();
    let nout = match self.rng.below(10) {
      0 => 0,
      1..=4 => 1,
      5..=7 => 2,
      _ => 3 + self.rng.below(2),
    } as usize;
    let fee_mode = self.rng.below(5); // 0: everything to fees possible
    let mut outs = Vec::new();
    let mut avail = total_in;
    for i in 0..nout {
      let v = if i + 1 == nout && fee_mode >= 2 { if fee_mode == 2 { avail } else { avail.saturating_sub(self.rng.below(2000)) } } else { self.out_value(avail) };
      avail -= v;
      outs.push(TxOut { value: Amount::from_sat(v), script_pubkey: self.script_pool() });
    }
    let mut held: Vec<(RuneId, u128)> = Vec::new();
    for u in &ins {
      if let Some(b) = self.runic.get(&u.op) {
        for (id, amt) in b {
          match held.iter_mut().find(|(i, _)| i == id) {
            Some(e) => e.1 = e.1.saturating_add(*amt),
            None => held.push((*id, *amt)),
          }
        }
      }
    }
    let hot_rs = plan_etch || want_runic || (!held.is_empty() && self.rng.chance(3, 4)) || self.rng.below(1000) < self.p_runestone;
    let mut etched = None;
    if hot_rs {
      let n_out_total = outs.len() + 1;
      let (script, e) = self.runestone(height, tx_index, n_out_total, minimum, plan_etch, &held, dist);
      etched = e;
      let at = self.rng.below(outs.len() as u64 + 1) as usize;
      outs.insert(at, TxOut { value: Amount::ZERO, script_pubkey: script });
      dist.hit("tx_runestone");
    }
    let total_out: u64 = outs.iter().map(|o| o.value.to_sat()).sum();
    let mut tx = Transaction {
      version: Version(2),
      lock_time: LockTime::ZERO,
      input: ins
        .iter()
        .map(|u| TxIn { previous_output: u.op, script_sig: ScriptBuf::new(), sequence: Sequence::MAX, witness: Witness::new() })
        .collect(),
      output: outs,
    };
    let txid = tx.compute_txid();
    // witnesses: envelopes and/or rune commitment
    let mut hot = hot_rs;
    for i in 0..tx.input.len() {
      let want_env = self.rng.below(1000) < self.p_envelope / (1 + i as u64);
      let want_commit = etched.is_some() && (i == 0 || self.rng.chance(1, 3)) && !self.rng.chance(1, 6);
      if !want_env && !want_commit {
        continue;
      }
      let mut b = script::Builder::new();
      if want_commit {
        let c = etched.unwrap().commitment();
        b = push(b, &c);
        if c.is_empty() {
          // push_slice of an empty slice is OP_0, which is what the indexer compares against
        }
        dist.hit("tx_commitment");
      }
      if want_env {
        let n = match self.rng.below(8) {
          0..=5 => 1,
          6 => 2,
          _ => 3,
        };
        for _ in 0..n {
          b = self.envelope(b, txid, total_out, dist);
        }
        hot = true;
        dist.hit("tx_envelope");
      }
      let script = b.into_script();
      tx.input[i].witness = Witness::from_slice(&[script.into_bytes(), Vec::new()]);
    }
    if self.malformed && self.rng.chance(1, 10) {
      let n = self.rng.below(60) as usize;
      let junk = self.rng.bytes(n);
      tx.input[0].witness = Witness::from_slice(&[junk, Vec::new()]);
      dist.hit("tx_junk_witness");
    }
    assert_eq!(tx.compute_txid(), txid);
    // new inscription ids (upper bound: whatever the real parser finds)
    let found = ord::ParsedEnvelope::from_transaction(&tx).len();
    for k in 0..found {
      self.ins_ids.push(InscriptionId { txid, index: k as u32 });
    }
    if let Some(r) = etched {
      self.rune_names.push(r.0);
    }
    for (vout, out) in tx.output.iter().enumerate() {
      self.utxos.push(Utxo {
        op: OutPoint { txid, vout: vout as u32 },
        value: out.value.to_sat(),
        script: out.script_pubkey.clone(),
        height,
        hot,
      });
    }
    self.txs.insert(txid, (tx.clone(), height));
    Some((tx, total_in - total_out))
  }

  /// the next block on top of `node`'s tip
  pub fn block(&mut self, node: &Node, dist: &mut Dist) -> Block {
    let height = node.height() + 1;
    let minimum = Rune::minimum_at_height(self.network, ordinals::Height(height)).0;
    let ntx = self.rng.below(self.max_txs + 1);
    let mut txs = Vec::new();
    let mut fees = 0u64;
    for i in 0..ntx {
      if let Some((tx, fee)) = self.transaction(height, (txs.len() + 1) as u32, minimum, dist) {
        fees += fee;
        txs.push(tx);
        dist.hit("tx");
        if fee > 0 {
          dist.hit("tx_fee");
        }
      }
      let _ = i;
    }
    let subsidy = ordinals::Height(height).subsidy();
    let reward = subsidy + fees;
    // coinbase: claim everything, underpay, split, zero-value and OP_RETURN outputs
    let mut outs = Vec::new();
    let mode = self.rng.below(10);
    match mode {
      0 => {
        // underpay: some sats are lost
        let v = reward - self.rng.below(reward.min(100_000) + 1);
        outs.push(TxOut { value: Amount::from_sat(v), script_pubkey: p2tr(7) });
        dist.hit("cb_underpay");
      }
      1 => {
        outs.push(TxOut { value: Amount::from_sat(reward / 2), script_pubkey: p2wpkh(1) });
        outs.push(TxOut { value: Amount::ZERO, script_pubkey: op_return(b"cb") });
        outs.push(TxOut { value: Amount::from_sat(reward - reward / 2), script_pubkey: p2tr(7) });
        dist.hit("cb_split");
      }
      2 => {
        // claims only the subsidy: all fees lost
        outs.push(TxOut { value: Amount::from_sat(subsidy.min(reward)), script_pubkey: p2tr(8) });
        dist.hit("cb_no_fees");
      }
      3 => {
        outs.push(TxOut { value: Amount::ZERO, script_pubkey: p2wpkh(2) });
        outs.push(TxOut { value: Amount::from_sat(reward), script_pubkey: p2tr(7) });
      }
      _ => outs.push(TxOut { value: Amount::from_sat(reward), script_pubkey: if self.rng.chance(1, 2) { p2tr(7) } else { p2wpkh(1) } }),
    }
    // a coinbase may carry a runestone too (transaction index 0): it can mint, and it can etch an
    // UNNAMED rune (a named one can never be committed to, a coinbase has no inputs to commit with)
    if self.p_runestone > 0 && self.rng.chance(1, 6) {
      let n_out_total = outs.len() + 1;
      let script = if self.rng.chance(1, 2) {
        dist.hit("cb_runestone_unnamed_etching");
        Runestone {
          edicts: Vec::new(),
          etching: Some(Etching {
            divisibility: None,
            premine: if self.rng.chance(2, 3) { Some(1 + self.rng.below(10_000) as u128) } else { None },
            rune: None,
            spacers: None,
            symbol: None,
            terms: if self.rng.chance(1, 2) {
              Some(Terms { amount: Some(1 + self.rng.below(100) as u128), cap: Some(2 + self.rng.below(4) as u128), height: (None, None), offset: (None, None) })
            } else {
              None
            },
            turbo: false,
          }),
          mint: None,
          pointer: if self.rng.chance(1, 3) { Some(self.rng.below(n_out_total as u64) as u32) } else { None },
        }
        .encipher()
      } else {
        dist.hit("cb_runestone_general");
        self.runestone(height, 0, n_out_total, minimum, false, &[], dist).0
      };
      let at = self.rng.below(outs.len() as u64 + 1) as usize;
      outs.insert(at, TxOut { value: Amount::ZERO, script_pubkey: script });
    }
    let coinbase = Transaction {
      version: Version(2),
      lock_time: LockTime::ZERO,
      input: vec![TxIn {
        previous_output: OutPoint::null(),
        script_sig: script::Builder::new().push_int(i64::from(height)).into_script(),
        sequence: Sequence::MAX,
        witness: Witness::new(),
      }],
      output: outs,
    };
    let cbid = coinbase.compute_txid();
    for (vout, out) in coinbase.output.iter().enumerate() {
      self.utxos.push(Utxo { op: OutPoint { txid: cbid, vout: vout as u32 }, value: out.value.to_sat(), script: out.script_pubkey.clone(), height, hot: false });
    }
    self.txs.insert(cbid, (coinbase.clone(), height));
    let mut txdata = vec![coinbase];
    txdata.extend(txs);
    dist.hit("block");
    Block { header: make_header(node.tip(), height, self.rng.next_u64() as u32), txdata }
  }
}
