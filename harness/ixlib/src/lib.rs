//! Library behind the index correspondence harnesses: a mock node, the real `Index` on it, the
//! chain generator, and the request lines that describe each block to the Lean index model.
//! Every engine crate (`eng_index`, `eng_ix_*`) calls `run` with its own probe: extra queries
//! against the real `Index` and oracle lines, emitted after every indexed block.
use {
  common::*,
  std::{collections::BTreeMap, path::Path, time::Duration},
};

pub mod chaingen;
pub mod emit;
pub mod env;

pub use env::{Flags, Node, UpdateOutcome};

/// What a probe sees after each indexed block.
pub struct Ctx<'a> {
  pub ix: &'a env::Ix,
  pub node: &'a env::Node,
  pub g: &'a chaingen::Gen,
  pub flags: env::Flags,
  pub chain: &'static str,
  /// number of the chain within this run
  pub case: u64,
  /// `Index::verif_dump()` rows of the implementation at this height
  pub rows: &'a [String],
  /// the same rows grouped into the model's sections (sorted, joined by '|')
  pub secs: BTreeMap<&'static str, String>,
  /// this update's canonical event string exactly as on the `events` line ("-" when empty)
  pub events: &'a str,
  /// heights indexed by this update (usually one; the empty prefix is indexed in one go)
  pub first_new_height: u32,
}

pub type Probe<'p> = &'p mut dyn FnMut(&Ctx, &mut Rng, &mut Streams, &mut Dist);

fn cfg_line(flags: Flags, chain: &str) -> String {
  let (first_ins, jubilee, first_rune) = match chain {
    "regtest" => (0, 110, 0),
    "testnet4" => (0, 0, 0),
    "signet" => (112402, 175392, 0),
    _ => panic!("chain parameters not tabulated for {chain}"),
  };
  format!(
    "cfg sats={} addr={} tx={} ins={} runes={} first_ins={first_ins} jubilee={jubilee} first_rune={first_rune}",
    flags.sats as u8, flags.addr as u8, flags.tx as u8, flags.ins as u8, flags.runes as u8
  )
}

fn dump_sections(out: &mut Streams, ix: &env::Ix, flags: Flags) {
  let rows = ix.index.verif_dump().unwrap();
  let secs = env::sections(&rows);
  let mut names = vec!["chain", "stats"];
  if flags.sats || flags.addr || flags.ins {
    names.push("utxo");
  }
  if flags.sats {
    names.push("sat2satpoint");
  }
  if flags.ins {
    names.push("ins");
    names.push("tx");
  }
  if flags.addr {
    names.push("addr");
  }
  if flags.runes {
    names.push("runes");
  }
  for n in names {
    out.emit(&format!("dump {n}"), &secs[n]);
  }
}

/// what the generated chain actually exercised, measured on the implementation's final state
fn outcome_dist(ix: &env::Ix, dist: &mut Dist) {
  const CHARMS: [&str; 14] = [
    "coin", "cursed", "epic", "legendary", "lost", "nineball", "rare", "reinscription", "unbound", "uncommon",
    "vindicated", "mythic", "burned", "palindrome",
  ];
  let field = |row: &str, key: &str| -> Option<String> {
    row.split(' ').find_map(|t| t.strip_prefix(key).map(|v| v.to_string()))
  };
  for row in ix.index.verif_dump().unwrap() {
    let head = row.split(' ').next().unwrap().to_string();
    match head.as_str() {
      "entry" => {
        dist.hit("got_inscription");
        let charms: u32 = field(&row, "charms=").unwrap().parse().unwrap();
        for (i, name) in CHARMS.iter().enumerate() {
          if charms & (1 << i) != 0 {
            dist.hit(&format!("got_charm_{name}"));
          }
        }
        if field(&row, "number=").unwrap().starts_with('-') {
          dist.hit("got_negative_number");
        }
        if field(&row, "parents=").unwrap() != "-" {
          dist.hit("got_child");
        }
        if field(&row, "fee=").unwrap() != "0" {
          dist.hit("got_fee");
        }
      }
      "rune" => {
        dist.hit("got_rune");
        if field(&row, "mints=").unwrap() != "0" {
          dist.hit("got_rune_minted");
        }
        if field(&row, "burned=").unwrap() != "0" {
          dist.hit("got_rune_burned");
        }
        if field(&row, "premine=").unwrap() != "0" {
          dist.hit("got_rune_premine");
        }
        let rune: u128 = field(&row, "rune=").unwrap().parse().unwrap();
        if rune >= 6402364363415443603228541259936211926 {
          dist.hit("got_rune_reserved_name");
        } else {
          dist.hit("got_rune_named");
        }
      }
      "balances" => dist.hit("got_balance_row"),
      "sat2satpoint" => dist.hit("got_rare_sat_row"),
      "children" => dist.hit("got_children_row"),
      "seq2runeid" => dist.hit("got_seq2runeid"),
      "utxo" => {
        if row.contains("ffffffff") || row.starts_with("utxo 0000000000000000000000000000000000000000000000000000000000000000:") {
          dist.hit("got_special_outpoint_row");
        }
        if let Some(ins) = field(&row, "ins=") {
          if ins.contains(',') {
            dist.hit("got_utxo_multi_inscription");
          }
        }
      }
      _ => {}
    }
  }
}

fn drain_events(ix: &mut env::Ix) -> String {
  let mut evs = Vec::new();
  if let Some(rx) = ix.events.as_mut() {
    while let Ok(e) = rx.try_recv() {
      evs.push(env::render_event(&e));
    }
  }
  env::canon_events(evs)
}

/// one generated chain, indexed block by block by the real indexer, with the model following
fn chain_case(args: &Args, rng: &mut Rng, out: &mut Streams, dist: &mut Dist, scratch: &Path, case: u64, probe: Probe) {
  let chain = if rng.chance(1, 4) { "testnet4" } else { "regtest" };
  let flagsweep = args.get("flagsweep") == Some("1");
  let flags = match if flagsweep { 5 } else { rng.below(6) } {
    0..=2 => Flags::all(),
    _ => {
      let mut f = Flags::from_bits(if flagsweep { (args.seed.wrapping_add(case) % 32) as u32 } else { rng.below(32) as u32 });
      if !f.sats && !f.addr && !f.ins && !f.runes {
        f.ins = true;
      }
      f
    }
  };
  let node = Node::new(chain, scratch);
  let mut ix = env::open(&node, scratch, flags, &[], true);
  let mut g = chaingen::Gen::new(rng.fork(), node.core.state().network);
  g.malformed = rng.chance(1, 3) || args.get("malformed") == Some("1");
  let blocks = args.get("blocks").map(|v| v.parse().unwrap()).unwrap_or(14u64);
  let nblocks = 2 + rng.below(blocks);
  let batchp = args.get("batchp").map(|v| v.parse().unwrap()).unwrap_or(250u64);
  // regtest jubilee is at 110: a third of the regtest chains start with ~105 empty blocks
  let premine = if chain == "regtest" && rng.chance(1, 3) { 100 + rng.below(9) } else if rng.chance(1, 2) { 6 + rng.below(3) } else { 0 };
  out.emit(&cfg_line(flags, chain), "ok");
  let genesis = node.block_at(0);
  g.absorb(&genesis, 0);
  emit::emit_block(out, 0, &genesis, g.network, &g.txs);
  let mut next_emit = 1u32;
  let saved_max = g.max_txs;
  for b in 0..(premine + nblocks) {
    g.max_txs = if b < premine { 0 } else { saved_max };
    let block = g.block(&node, dist);
    node.push_block(block);
    if b < premine && b + 1 != premine {
      continue; // index the empty prefix in one go
    }
    // now and then let two or three blocks accumulate before the next update call, so that a
    // block is also indexed inside a multi-block batch (its predecessor uncommitted)
    if b >= premine && b + 1 < premine + nblocks && rng.below(1000) < batchp {
      dist.hit("block_left_for_next_update");
      continue;
    }
    match env::update(&ix, Duration::from_secs(120)) {
      UpdateOutcome::Ok => {}
      // C16: indexing a valid chain never fails — the implementation's outcome is the input of the
      // oracle line (the generated chain is valid by construction)
      UpdateOutcome::Err(e) => {
        out.emit(&format!("index.oracle.nofail {case} {} err:{}", node.height(), e.replace(' ', "_")), "true");
        dist.hit("impl_err");
        return;
      }
      UpdateOutcome::Panic(p) => {
        out.emit(&format!("index.oracle.nofail {case} {} panic:{}", node.height(), p.replace(' ', "_")), "true");
        dist.hit("impl_panic");
        return;
      }
      UpdateOutcome::Hang => {
        out.emit(&format!("index.oracle.nofail {case} {} hang", node.height()), "true");
        dist.hit("impl_hang");
        return;
      }
    }
    let first_new_height = next_emit.max(1);
    // describe every block the indexer just consumed
    while next_emit <= node.height() {
      if next_emit > 1 || true {
        // block 0's endblock comes with the first update
      }
      if next_emit == 1 {
        out.emit("endblock", "ok");
      }
      let blk = node.block_at(next_emit);
      emit::emit_block(out, next_emit, &blk, g.network, &g.txs);
      out.emit("endblock", "ok");
      next_emit += 1;
    }
    // feed the generator the runes that really exist, so mints/edicts mostly name live runes
    if flags.runes {
      let runes = ix.index.runes().unwrap();
      g.rune_ids = runes.iter().map(|(id, _)| *id).collect();
      g.rune_names = runes.iter().map(|(_, e)| e.spaced_rune.rune.0).collect();
      g.runic = ix.index.get_rune_balances().unwrap().into_iter().collect();
    }
    let evs = drain_events(&mut ix);
    out.emit("events", &evs);
    dump_sections(out, &ix, flags);
    // property-specific queries and oracle lines (one module per property group)
    {
      let rows = ix.index.verif_dump().unwrap();
      let ctx = Ctx { ix: &ix, node: &node, g: &g, flags, chain, case, rows: &rows, secs: env::sections(&rows), events: &evs, first_new_height };
      probe(&ctx, rng, out, dist);
    }
    // C16 oracle: indexing a valid chain never fails (evaluated on the implementation)
    out.emit(&format!("index.oracle.nofail {case} {} ok", node.height()), "true");
  }
  outcome_dist(&ix, dist);
  dist.hit(&format!("chain_{chain}"));
  dist.hit(&format!("flags_{}{}{}{}{}", flags.sats as u8, flags.addr as u8, flags.tx as u8, flags.ins as u8, flags.runes as u8));
}

/// the `chain` stream: `args.cases` generated chains, each indexed block by block by the real
/// indexer with the model following; `probe` runs after every block
pub fn run(args: &Args, probe: Probe) {
  let mut out = Streams::create(&args.out);
  let mut dist = Dist::default();
  let mut rng = Rng::new(args.seed);
  let scratch = args.out.join("scratch");
  std::fs::create_dir_all(&scratch).unwrap();
  if args.replay.is_some() {
    // chains are replayed by seed, not from request lines: the request lines embed the
    // implementation's parsed inputs; re-running the same seed regenerates them
    eprintln!("replay of index streams is by VERIF_SEED (the ops file is for reading)");
  }
  match args.stream.as_str() {
    "chain" => {
      for case in 0..args.cases {
        let mut r = rng.fork();
        chain_case(args, &mut r, &mut out, &mut dist, &scratch, case, probe);
      }
    }
    s => panic!("unknown stream {s}"),
  }
  let _ = std::fs::remove_dir_all(&scratch);
  dist.write(&args.out);
  out.finish();
}
