//! Request lines describing a block to the Lean index model.  Parsing (envelopes, runestones,
//! txids) is done by the real ord code; the model consumes the parsed forms.
use {
  bitcoin::{Block, Transaction, Txid, consensus::Encodable, script::Instruction},
  common::{Streams, hex},
  ord::ParsedEnvelope,
  ordinals::{Artifact, Rune, Runestone},
  std::collections::HashMap,
};

fn on(b: bool) -> char {
  if b { '1' } else { '0' }
}

fn opt<T: ToString>(o: Option<T>) -> String {
  o.map(|x| x.to_string()).unwrap_or("-".into())
}

pub fn artifact_str(a: &Option<Artifact>) -> String {
  match a {
    None => "-".into(),
    Some(Artifact::Cenotaph(c)) => format!("C/{}/{}", opt(c.etching.map(|r| r.0)), opt(c.mint)),
    Some(Artifact::Runestone(r)) => {
      let etching = match &r.etching {
        None => "-".to_string(),
        Some(e) => {
          let terms = match &e.terms {
            None => "-".to_string(),
            Some(t) => format!(
              "{},{},{},{},{},{}",
              opt(t.amount),
              opt(t.cap),
              opt(t.height.0),
              opt(t.height.1),
              opt(t.offset.0),
              opt(t.offset.1)
            ),
          };
          format!(
            "{}.{}.{}.{}.{}.{}.{}",
            opt(e.divisibility),
            opt(e.premine),
            opt(e.rune.map(|r| r.0)),
            opt(e.spacers),
            opt(e.symbol.map(u32::from)),
            on(e.turbo),
            terms
          )
        }
      };
      let edicts = if r.edicts.is_empty() {
        "-".to_string()
      } else {
        r.edicts
          .iter()
          .map(|e| format!("{}:{}:{}:{}", e.id.block, e.id.tx, e.amount, e.output))
          .collect::<Vec<_>>()
          .join(";")
      };
      format!("R/{}/{}/{}/{}", opt(r.pointer), opt(r.mint), etching, edicts)
    }
  }
}

/// `txs`: every transaction known to the node with its block height (what mockcore answers to
/// getrawtransaction / getblockheader for rune commitments)
pub fn tx_line(tx: &Transaction, txs: &HashMap<Txid, (Transaction, u32)>) -> String {
  let txid = tx.compute_txid();
  let mut size = Vec::new();
  tx.consensus_encode(&mut size).unwrap();
  let mut s = format!("tx {txid} {} {}", size.len(), tx.input.len());
  for input in &tx.input {
    let prev = input.previous_output;
    let (taproot, conf) = match txs.get(&prev.txid) {
      Some((ptx, h)) => (
        ptx.output.get(prev.vout as usize).map(|o| o.script_pubkey.is_p2tr()).unwrap_or(false),
        Some(*h),
      ),
      None => (false, None),
    };
    // data pushes of the tapscript (≤ 16 bytes: a rune commitment is at most 16 bytes), up to
    // the first script error
    let mut pushes = Vec::new();
    #[allow(deprecated)]
    if let Some(script) = input.witness.tapscript() {
      for ins in script.instructions() {
        let Ok(ins) = ins else { break };
        if let Instruction::PushBytes(b) = ins {
          if b.len() <= 16 {
            pushes.push(if b.is_empty() { "_".to_string() } else { hex(b.as_bytes()) });
          }
        }
      }
    }
    s.push_str(&format!(
      " {} {} {} {} {}",
      prev.txid,
      prev.vout,
      on(taproot),
      opt(conf),
      if pushes.is_empty() { "-".to_string() } else { pushes.join(",") }
    ));
  }
  s.push_str(&format!(" {}", tx.output.len()));
  for o in &tx.output {
    s.push_str(&format!(" {} {} {}", o.value.to_sat(), on(o.script_pubkey.is_op_return()), hex(o.script_pubkey.as_bytes())));
  }
  let envs = ParsedEnvelope::from_transaction(tx);
  s.push_str(&format!(" {}", envs.len()));
  for e in &envs {
    let p = &e.payload;
    let flags: String = [
      p.unrecognized_even_field,
      p.duplicate_field,
      p.incomplete_field,
      e.pushnum,
      e.stutter,
      p.hidden(),
      // the real decoder may panic on adversarial CBOR (then the indexer will too, and the
      // update's outcome line reports it); the request line must still be written
      common::catch(std::panic::AssertUnwindSafe(|| ord::verif::inscription_has_gallery(p))).unwrap_or(false),
    ]
    .iter()
    .map(|b| on(*b))
    .collect();
    let parents = p.parents();
    s.push_str(&format!(
      " {} {} {} {} {} {}",
      e.input,
      e.offset,
      flags,
      on(p.pointer.is_some()),
      opt(p.pointer()),
      if parents.is_empty() { "-".to_string() } else { parents.iter().map(|i| format!("{}:{}", i.txid, i.index)).collect::<Vec<_>>().join(",") }
    ));
  }
  s.push_str(&format!(" {}", artifact_str(&Runestone::decipher(tx))));
  s
}

pub fn emit_block(out: &mut Streams, height: u32, block: &Block, network: bitcoin::Network, txs: &HashMap<Txid, (Transaction, u32)>) {
  let min = Rune::minimum_at_height(network, ordinals::Height(height)).0;
  out.emit(&format!("block {height} {} {} {min}", block.header.time, block.block_hash()), "ok");
  for tx in &block.txdata {
    out.emit(&tx_line(tx, txs), "ok");
  }
}
