//! Probe of the `runemint` group (C10 mint terms, C11 etchings): queries against the real
//! `Index` and oracle lines built from the implementation's own dump rows, emitted after every
//! indexed block.  Used by both streams (`chain`: shared generator, `scenarios`: own chains).
use {
  bitcoin::{Transaction, Txid, script::Instruction},
  common::{Dist, Rng, Streams, hex},
  ixlib::env::Node,
  ord::{Index, RuneEntry},
  ordinals::{Artifact, Height, Rune, RuneId, Runestone},
  std::collections::{BTreeSet, HashMap},
};

pub struct View<'a> {
  pub index: &'a Index,
  pub node: &'a Node,
  /// every transaction known to the node with its block height
  pub txs: &'a HashMap<Txid, (Transaction, u32)>,
  pub network: bitcoin::Network,
  pub runes_on: bool,
  pub case: u64,
  /// `Index::verif_dump()` rows
  pub rows: &'a [String],
}

#[derive(Default)]
pub struct ProbeState {
  started: bool,
  case: u64,
  /// first block height not examined yet
  next: u32,
  /// the implementation's `rune …` rows after the previous probe
  rune_rows: Vec<String>,
  /// the implementation's `rune2id` names after the previous probe
  names: Vec<u128>,
  runes: Vec<(RuneId, RuneEntry)>,
}

fn join(v: &[String], sep: &str) -> String {
  if v.is_empty() { "-".into() } else { v.join(sep) }
}

fn terms_str(t: &Option<ordinals::Terms>) -> String {
  fn o<T: ToString>(x: Option<T>) -> String {
    x.map(|v| v.to_string()).unwrap_or("-".into())
  }
  match t {
    None => "-".into(),
    Some(t) => format!(
      "amount:{}/cap:{}/height:{}:{}/offset:{}:{}",
      o(t.amount),
      o(t.cap),
      o(t.height.0),
      o(t.height.1),
      o(t.offset.0),
      o(t.offset.1)
    ),
  }
}

/// what the node would answer about each input plus the small pushes of its tapscript:
/// `(taproot, height of the spent transaction, pushes)`; recomputed here from the chain the
/// harness built, not taken from the request lines of the model
pub fn input_facts(tx: &Transaction, txs: &HashMap<Txid, (Transaction, u32)>) -> Vec<(bool, Option<u32>, Vec<Vec<u8>>)> {
  tx.input
    .iter()
    .map(|input| {
      let prev = input.previous_output;
      let (taproot, conf) = match txs.get(&prev.txid) {
        Some((ptx, h)) => (ptx.output.get(prev.vout as usize).map(|o| o.script_pubkey.is_p2tr()).unwrap_or(false), Some(*h)),
        None => (false, None),
      };
      let mut pushes = Vec::new();
      #[allow(deprecated)]
      if let Some(script) = input.witness.tapscript() {
        for ins in script.instructions() {
          let Ok(ins) = ins else { break };
          if let Instruction::PushBytes(b) = ins {
            if b.len() <= 16 {
              pushes.push(b.as_bytes().to_vec());
            }
          }
        }
      }
      (taproot, conf, pushes)
    })
    .collect()
}

fn facts_str(f: &[(bool, Option<u32>, Vec<Vec<u8>>)]) -> String {
  let v: Vec<String> = f
    .iter()
    .map(|(tap, conf, pushes)| {
      let p: Vec<String> = pushes.iter().map(|b| if b.is_empty() { "_".to_string() } else { hex(b) }).collect();
      format!("{},{},{}", *tap as u8, conf.map(|c| c.to_string()).unwrap_or("-".into()), if p.is_empty() { "-".to_string() } else { p.join(".") })
    })
    .collect();
  join(&v, "/")
}

fn mint_error(e: &impl std::fmt::Display) -> String {
  let s = e.to_string();
  if s == "not mintable" {
    "unmintable".into()
  } else if let Some(r) = s.strip_prefix("mint starts on block ") {
    format!("start:{r}")
  } else if let Some(r) = s.strip_prefix("mint ended on block ") {
    format!("end:{r}")
  } else if let Some(r) = s.strip_prefix("limited to ") {
    format!("cap:{}", r.trim_end_matches(" mints"))
  } else {
    format!("other:{}", s.replace(' ', "_"))
  }
}

fn mintable_str(e: &RuneEntry, h: u64) -> String {
  match e.mintable(h) {
    Ok(a) => format!("ok:{a}"),
    Err(err) => mint_error(&err),
  }
}

/// classification of one etching attempt, for the measured distribution only
fn classify_etching(
  h: u32,
  minimum: u128,
  taken: &BTreeSet<u128>,
  cenotaph: bool,
  name: Option<u128>,
  facts: &[(bool, Option<u32>, Vec<Vec<u8>>)],
) -> (&'static str, bool) {
  let Some(name) = name else {
    return if cenotaph { ("etch_none_cenotaph_unnamed", false) } else { ("etch_ok_unnamed_reserved", true) };
  };
  if name < minimum {
    return ("etch_rej_below_minimum", false);
  }
  if name >= Rune::RESERVED {
    return ("etch_rej_reserved", false);
  }
  if taken.contains(&name) {
    return ("etch_rej_duplicate", false);
  }
  let c = Rune(name).commitment();
  let mut seen_push = false;
  let mut seen_taproot = false;
  let mut best: Option<u32> = None;
  for (tap, conf, pushes) in facts {
    if pushes.iter().any(|p| *p == c) {
      seen_push = true;
      if *tap {
        seen_taproot = true;
        if let Some(ch) = conf {
          let confs = h.saturating_sub(*ch) + 1;
          best = Some(best.map(|b| b.max(confs)).unwrap_or(confs));
        }
      }
    }
  }
  if !seen_push {
    return ("etch_rej_no_commitment", false);
  }
  if !seen_taproot {
    return ("etch_rej_commitment_not_taproot", false);
  }
  match best {
    Some(c) if c >= 6 => {
      if cenotaph {
        ("etch_ok_named_cenotaph", true)
      } else if c == 6 {
        ("etch_ok_named_6conf", true)
      } else {
        ("etch_ok_named", true)
      }
    }
    Some(5) => ("etch_rej_commitment_5conf", false),
    _ => ("etch_rej_commitment_young", false),
  }
}

pub fn probe(ps: &mut ProbeState, v: &View, rng: &mut Rng, out: &mut Streams, dist: &mut Dist) {
  let height = v.node.height();
  if !ps.started || ps.case != v.case || height < ps.next {
    // a new chain: the first probe comes after blocks 0..=height (nothing rune-relevant can be
    // in them on a generated chain; checked below like any other gap)
    *ps = ProbeState { started: true, case: v.case, next: 0, ..Default::default() };
  }
  let first_new = ps.next;
  let runes = v.index.runes().unwrap();
  let rune_rows: Vec<String> = v.rows.iter().filter(|r| r.starts_with("rune ")).cloned().collect();
  let names: Vec<u128> = v
    .rows
    .iter()
    .filter(|r| r.starts_with("rune2id "))
    .map(|r| r.split(' ').nth(1).unwrap().parse().unwrap())
    .collect();

  // ---------------------------------------------------------------- queries (model vs index)
  let mut sorted = runes.clone();
  sorted.sort_by_key(|(id, _)| (id.block, id.tx));
  let listing: Vec<String> = sorted
    .iter()
    .map(|(id, e)| format!("{}:{},{},{},{}", id.block, id.tx, e.spaced_rune.rune.0, e.number, e.mints))
    .collect();
  out.emit("ix.runes", &join(&listing, ";"));
  if !v.runes_on {
    dist.hit("probe_runes_off");
    ps.next = height + 1;
    return;
  }

  // what this block (or these blocks) tried
  struct Attempt {
    t: u32,
    id: RuneId,
    cenotaph: bool,
  }
  struct Etch {
    t: u32,
    txid: Txid,
    cenotaph: bool,
    name: Option<u128>,
    terms: String,
    facts: Vec<(bool, Option<u32>, Vec<Vec<u8>>)>,
  }
  let mut attempts: Vec<Attempt> = Vec::new();
  let mut etches: Vec<Etch> = Vec::new();
  let mut txids: Vec<Txid> = Vec::new();
  let mut earlier_artifacts = false;
  for bh in first_new..=height {
    let block = v.node.block_at(bh);
    for (t, tx) in block.txdata.iter().enumerate() {
      let t = t as u32;
      let Some(artifact) = Runestone::decipher(tx) else { continue };
      if bh != height {
        earlier_artifacts = true;
        continue;
      }
      txids.push(tx.compute_txid());
      let cenotaph = matches!(artifact, Artifact::Cenotaph(_));
      if let Some(id) = artifact.mint() {
        attempts.push(Attempt { t, id, cenotaph });
      }
      let etching: Option<(Option<u128>, String)> = match &artifact {
        Artifact::Runestone(r) => r.etching.map(|e| (e.rune.map(|r| r.0), terms_str(&e.terms))),
        // a cenotaph keeps only the name; without a name nothing says an etching was meant
        Artifact::Cenotaph(c) => c.etching.map(|r| (Some(r.0), "-".to_string())),
      };
      if let Some((name, terms)) = etching {
        etches.push(Etch { t, txid: tx.compute_txid(), cenotaph, name, terms, facts: input_facts(tx, v.txs) });
      } else if cenotaph {
        dist.hit("cenotaph_without_named_etching");
      }
    }
    if bh == height {
      for tx in block.txdata.iter().take(6) {
        let id = tx.compute_txid();
        if !txids.contains(&id) {
          txids.push(id);
        }
      }
    }
  }
  // the oracles compare against the rows of the previous probe: that is the previous block
  // unless several blocks were indexed at once (only the empty prefix of a chain)
  let single = !earlier_artifacts;
  let minimum = Rune::minimum_at_height(v.network, Height(height)).0;

  // names and ids to ask about: everything that exists, everything that was tried
  let mut ask_names: Vec<u128> = sorted.iter().map(|(_, e)| e.spaced_rune.rune.0).collect();
  for e in &etches {
    if let Some(n) = e.name {
      ask_names.push(n);
    }
    ask_names.push(Rune::reserved(u64::from(height), e.t).0);
  }
  ask_names.push(minimum);
  ask_names.push(rng.next_u128());
  ask_names.sort();
  ask_names.dedup();
  for n in ask_names.iter().take(48) {
    let a = match v.index.rune(Rune(*n)).unwrap() {
      None => "none".to_string(),
      Some((id, e, parent)) => format!("{}:{} number={} etching={} parent={}", id.block, id.tx, e.number, e.etching, parent.is_some() as u8),
    };
    out.emit(&format!("ix.rune {n}"), &a);
  }
  let mut ask_ids: Vec<RuneId> = sorted.iter().map(|(id, _)| *id).collect();
  for a in &attempts {
    ask_ids.push(a.id);
  }
  ask_ids.push(RuneId { block: u64::from(height), tx: 0 });
  ask_ids.push(RuneId { block: u64::from(height) + 1, tx: 1 });
  ask_ids.sort_by_key(|id| (id.block, id.tx));
  ask_ids.dedup();
  for id in ask_ids.iter().take(48) {
    let a = v.index.get_rune_by_id(*id).unwrap().map(|r| r.0.to_string()).unwrap_or("none".into());
    out.emit(&format!("ix.runebyid {}:{}", id.block, id.tx), &a);
  }
  for (_, e) in sorted.iter().rev().take(8) {
    if !txids.contains(&e.etching) {
      txids.push(e.etching);
    }
  }
  for txid in &txids {
    let a = v
      .index
      .get_etching(*txid)
      .unwrap()
      .map(|s| format!("{}:{}", s.rune.0, s.spacers))
      .unwrap_or("none".into());
    out.emit(&format!("ix.etching {txid}"), &a);
  }
  // `mintable` at the next height (what /rune/<rune> shows) and around every window edge
  for (id, e) in sorted.iter().take(48) {
    let mut hs: Vec<u64> = vec![u64::from(height) + 1, u64::from(height)];
    for edge in [e.start(), e.end()].into_iter().flatten() {
      hs.push(edge);
      hs.push(edge.saturating_sub(1));
      hs.push(edge.saturating_add(1));
    }
    hs.sort();
    hs.dedup();
    for h in hs {
      let a = mintable_str(e, h);
      dist.hit(&format!("mintable_{}", a.split(':').next().unwrap()));
      out.emit(&format!("ix.mintable {}:{} {h}", id.block, id.tx), &a);
    }
  }
  out.emit(&format!("ix.mintable {}:{} {}", u64::from(height) + 7, 3, height), "none");

  // ---------------------------------------------------------------- oracle lines
  out.emit(&format!("ix.oracle.mintcap {}", join(&rune_rows, "|")), "true");
  let numbering: Vec<String> = v
    .rows
    .iter()
    .filter(|r| r.starts_with("rune ") || r.starts_with("rune2id ") || r.starts_with("txid2rune ") || r.starts_with("statistic Runes "))
    .cloned()
    .collect();
  out.emit(&format!("ix.oracle.runenumbers {height} {}", join(&numbering, "|")), "true");

  if single {
    // C10: each mint attempt of this block against the previous block's rows
    let att: Vec<String> = attempts.iter().map(|a| format!("{}:{}:{}", a.t, a.id.block, a.id.tx)).collect();
    out.emit(
      &format!("ix.oracle.mintwindow {height} {} ## {} ## {}", join(&att, ","), join(&ps.rune_rows, "|"), join(&rune_rows, "|")),
      "true",
    );
    // C11: the new rows of this block against the etching attempts of this block
    let new_rows: Vec<String> = rune_rows.iter().filter(|r| !ps.rune_rows.iter().any(|p| p.split(' ').nth(1) == r.split(' ').nth(1))).cloned().collect();
    let etx: Vec<String> = etches
      .iter()
      .map(|e| {
        format!(
          "t={} txid={} kind={} name={} terms={} ins={}",
          e.t,
          e.txid,
          if e.cenotaph { "C" } else { "R" },
          e.name.map(|n| n.to_string()).unwrap_or("-".into()),
          e.terms,
          facts_str(&e.facts)
        )
      })
      .collect();
    let prev_names: Vec<String> = ps.names.iter().map(|n| n.to_string()).collect();
    out.emit(
      &format!(
        "ix.oracle.etching {height} {minimum} {} ## {} ## {} ## {}",
        ps.rune_rows.len(),
        join(&prev_names, ","),
        join(&etx, "|"),
        join(&new_rows, "|")
      ),
      "true",
    );
    dist.hit("oracle_block");
  } else {
    dist.hit("oracle_skipped_multiblock");
  }

  // ---------------------------------------------------------------- measured distribution
  if single {
    let mut taken: BTreeSet<u128> = ps.names.iter().copied().collect();
    for e in &etches {
      let (class, ok) = classify_etching(height, minimum, &taken, e.cenotaph, e.name, &e.facts);
      dist.hit(class);
      if ok {
        if let Some(n) = e.name {
          taken.insert(n);
        }
        if let Some(n) = e.name {
          if n == minimum {
            dist.hit("etch_ok_at_minimum");
          }
        }
      }
    }
    let h = u64::from(height);
    let mut minted: HashMap<RuneId, u128> = HashMap::new();
    for a in &attempts {
      let prev = ps.runes.iter().find(|(id, _)| *id == a.id).map(|(_, e)| *e);
      let entry = match prev {
        Some(e) => Some(e),
        None => {
          if a.id.block == h && a.id.tx == a.t {
            dist.hit("mint_same_transaction");
            None
          } else if a.id.block == h && a.id.tx > a.t {
            dist.hit("mint_later_in_block");
            None
          } else if a.id.block == h {
            match runes.iter().find(|(id, _)| *id == a.id) {
              Some((_, e)) => {
                dist.hit("mint_etched_earlier_in_block");
                Some(RuneEntry { mints: 0, ..*e })
              }
              None => {
                dist.hit("mint_unknown_id");
                None
              }
            }
          } else {
            dist.hit("mint_unknown_id");
            None
          }
        }
      };
      let Some(e) = entry else { continue };
      let Some(terms) = e.terms else {
        dist.hit("mint_no_terms");
        continue;
      };
      let done = *minted.get(&a.id).unwrap_or(&0);
      let cap = terms.cap.unwrap_or_default();
      if let Some(s) = e.start() {
        if h < s {
          dist.hit("mint_before_start");
          if h + 1 == s {
            dist.hit("mint_last_block_before_start");
          }
          continue;
        }
        if h == s {
          dist.hit("mint_at_start");
        }
      }
      if let Some(en) = e.end() {
        if h >= en {
          dist.hit(if h == en { "mint_at_end" } else { "mint_after_end" });
          continue;
        }
        if h + 1 == en {
          dist.hit("mint_last_block_before_end");
        }
      }
      if e.mints + done >= cap {
        dist.hit("mint_cap_reached");
        continue;
      }
      if e.mints + done + 1 == cap {
        dist.hit("mint_last_under_cap");
      }
      dist.hit(if a.cenotaph { "mint_ok_in_cenotaph" } else { "mint_ok" });
      let subset = [terms.amount.is_some(), terms.cap.is_some(), terms.height.0.is_some(), terms.height.1.is_some(), terms.offset.0.is_some(), terms.offset.1.is_some()];
      dist.hit(&format!("mint_ok_terms_{}", subset.iter().map(|b| if *b { '1' } else { '0' }).collect::<String>()));
      *minted.entry(a.id).or_default() += 1;
    }
  }
  for (_, e) in &runes {
    if let Some(t) = e.terms {
      let near = |o: Option<u64>| o.map(|x| x > u64::MAX - 1000).unwrap_or(false);
      if near(t.offset.0) || near(t.offset.1) {
        dist.hit("entry_offset_near_u64_max");
      }
    }
  }

  ps.next = height + 1;
  ps.rune_rows = rune_rows;
  ps.names = names;
  ps.runes = runes;
}
