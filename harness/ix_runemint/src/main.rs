//! Engine of the `runemint` group (C10 mint terms, C11 etchings).
//!   chain      the shared chain generator (ixlib) with this group's probe after every block
//!   scenarios  rune-centred chains built here (see scenarios.rs), same probe
mod probe;
mod scenarios;

fn main() {
  let args = common::Args::parse();
  match args.stream.as_str() {
    "scenarios" => scenarios::run(&args),
    _ => {
      let mut ps = probe::ProbeState::default();
      ixlib::run(&args, &mut |ctx, rng, out, dist| {
        let view = probe::View {
          index: &ctx.ix.index,
          node: ctx.node,
          txs: &ctx.g.txs,
          network: ctx.g.network,
          runes_on: ctx.flags.runes,
          case: ctx.case,
          rows: ctx.rows,
        };
        probe::probe(&mut ps, &view, rng, out, dist);
      });
    }
  }
}
