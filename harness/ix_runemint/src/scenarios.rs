//! Stream `scenarios`: rune-centred chains built by hand on the mock node (the shared chain
//! generator etches few runes per chain).  Every chain funds a pool of taproot and non-taproot
//! outputs of known age, then in every block etches (names below / at / above the minimum,
//! reserved, duplicate, unnamed; commitments absent / wrong / on non-taproot / with 5, 6 or more
//! confirmations; runestone or cenotaph; terms from every subset of the six fields with offsets
//! near 2^64) and mints (live runes at every window edge, several times per block to reach the
//! cap, ids that do not exist yet, ids etched later in the block or in the same transaction,
//! runes without terms; inside runestones and inside cenotaphs).
use {
  crate::probe::{self, ProbeState, View},
  bitcoin::{
    Amount, Block, OutPoint, ScriptBuf, Sequence, Transaction, TxIn, TxOut, Txid, Witness,
    absolute::LockTime,
    opcodes,
    script::{self, PushBytesBuf},
    transaction::Version,
  },
  common::{Args, Dist, Rng, Streams},
  ixlib::{
    chaingen::{op_return, p2tr, p2wpkh},
    emit,
    env::{self, Flags, Node, UpdateOutcome, make_header},
  },
  ord::RuneEntry,
  ordinals::{Etching, Height, Rune, RuneId, Runestone, Terms},
  std::{collections::HashMap, path::Path, time::Duration},
};

#[derive(Clone, Debug)]
struct Utxo {
  op: OutPoint,
  value: u64,
  taproot: bool,
  height: u32,
}

struct Sc {
  rng: Rng,
  pool: Vec<Utxo>,
  txs: HashMap<Txid, (Transaction, u32)>,
  network: bitcoin::Network,
  /// live runes as the real index reports them (refreshed after every block)
  runes: Vec<(RuneId, RuneEntry)>,
}

fn push(b: script::Builder, data: &[u8]) -> script::Builder {
  b.push_slice(PushBytesBuf::try_from(data.to_vec()).unwrap())
}

#[derive(Clone, Copy, PartialEq, Debug)]
enum Age {
  /// at least 6 confirmations at `h`
  Old,
  /// exactly `n` confirmations at `h`
  Exactly(u32),
  /// 1 to 4 confirmations
  Young,
  Any,
}

impl Sc {
  fn take(&mut self, h: u32, taproot: Option<bool>, age: Age) -> Option<Utxo> {
    let ok = |u: &Utxo| {
      let confs = h - u.height + 1;
      taproot.map(|t| t == u.taproot).unwrap_or(true)
        && u.value >= 2000
        && match age {
          Age::Old => confs >= 6,
          Age::Exactly(n) => confs == n,
          Age::Young => confs <= 4,
          Age::Any => true,
        }
    };
    let c: Vec<usize> = (0..self.pool.len()).filter(|&i| ok(&self.pool[i])).collect();
    if c.is_empty() {
      return None;
    }
    let i = *self.rng.pick(&c);
    Some(self.pool.remove(i))
  }

  fn terms(&mut self, h: u32, dist: &mut Dist) -> Terms {
    let h = u64::from(h);
    let r = &mut self.rng;
    let near = |r: &mut Rng| u64::MAX - r.below(4);
    let height_start = r.chance(1, 2).then(|| match r.below(12) {
      0 => 0,
      1 => near(r),
      _ => (h + r.below(6)).saturating_sub(2),
    });
    let height_end = r.chance(1, 2).then(|| match r.below(12) {
      0 => near(r),
      1 => h.saturating_sub(1),
      _ => h + r.below(8),
    });
    let offset_start = r.chance(1, 2).then(|| match r.below(12) {
      0 => near(r),
      // block + offset lands on either side of 2^64 - 1
      1 => u64::MAX - h - 1 + r.below(3),
      _ => r.below(5),
    });
    let offset_end = r.chance(1, 2).then(|| match r.below(12) {
      0 => near(r),
      1 => u64::MAX - h - 1 + r.below(3),
      2 => 0,
      _ => 1 + r.below(8),
    });
    let cap = r.chance(9, 10).then(|| match r.below(20) {
      0 => 0,
      1..=3 => 1,
      4..=7 => 2,
      8..=11 => 3,
      12 | 13 => u128::MAX / 4000,
      _ => 4 + u128::from(r.below(3)),
    });
    let amount = r.chance(5, 6).then(|| if r.chance(1, 12) { 0 } else { 1 + u128::from(r.below(1000)) });
    if [offset_start, offset_end].iter().flatten().any(|o| *o > u64::MAX - 100_000) {
      dist.hit("gen_terms_offset_near_u64_max");
    }
    Terms { amount, cap, height: (height_start, height_end), offset: (offset_start, offset_end) }
  }

  /// one transaction of block `h` at index `t`; `block_names`: names etched earlier in this block
  fn transaction(&mut self, h: u32, t: u32, minimum: u128, block_etch: &mut Vec<(u32, Option<u128>)>, dist: &mut Dist) -> Option<(Transaction, u64)> {
    let action = self.rng.below(20);
    let etch = action < 6;
    let mint = (6..19).contains(&action) || (etch && self.rng.chance(1, 5));
    // ------------------------------------------------------------ etching
    let mut etching: Option<Etching> = None;
    let mut commit_mode = 99;
    if etch {
      let name_kind = self.rng.below(16);
      let used: Vec<u128> = self.runes.iter().map(|(_, e)| e.spaced_rune.rune.0).chain(block_etch.iter().filter_map(|(_, n)| *n)).collect();
      let rune: Option<u128> = match name_kind {
        0 => Some(minimum),
        1 => Some(minimum.saturating_sub(1 + u128::from(self.rng.below(50)))),
        2 => Some(match self.rng.below(4) {
          0 => Rune::RESERVED,
          1 => Rune::reserved(u64::from(h), t).0,
          2 => u128::MAX,
          _ => Rune::RESERVED + u128::from(self.rng.below(1 << 40)),
        }),
        3 | 4 if !used.is_empty() => Some(*self.rng.pick(&used)),
        5 | 6 => None,
        7 => Some(Rune::RESERVED - 1 - u128::from(self.rng.below(3))),
        _ => Some(minimum + 1 + self.rng.next_u128() % 1_000_000_007u128),
      };
      dist.hit(match name_kind {
        0 => "gen_name_at_minimum",
        1 => "gen_name_below_minimum",
        2 => "gen_name_reserved",
        3 | 4 if !used.is_empty() => "gen_name_duplicate",
        5 | 6 => "gen_name_unnamed",
        7 => "gen_name_just_below_reserved",
        _ => "gen_name_above_minimum",
      });
      let terms = if self.rng.chance(4, 5) { Some(self.terms(h, dist)) } else { None };
      etching = Some(Etching {
        divisibility: self.rng.chance(1, 3).then(|| self.rng.below(39) as u8),
        premine: match self.rng.below(3) {
          0 => None,
          1 => Some(0),
          _ => Some(u128::from(self.rng.below(100_000))),
        },
        rune: rune.map(Rune),
        spacers: None,
        symbol: self.rng.chance(1, 4).then_some('$'),
        terms,
        turbo: self.rng.chance(1, 4),
      });
      commit_mode = match self.rng.below(20) {
        0..=8 => 0,
        9 | 10 => 1,
        11 | 12 => 2,
        13 => 3,
        14 => 4,
        15 => 5,
        16 => 6,
        17 => 7,
        18 => 8,
        _ => 0,
      };
    }
    // ------------------------------------------------------------ inputs
    let mut ins: Vec<Utxo> = Vec::new();
    // (input index carrying a commitment, wrong bytes?)
    let mut commits: Vec<(usize, bool)> = Vec::new();
    match commit_mode {
      0 => {
        if let Some(u) = self.take(h, Some(true), Age::Old) {
          ins.push(u);
          commits.push((0, false));
        }
      }
      1 => {
        if let Some(u) = self.take(h, Some(true), Age::Exactly(6)) {
          ins.push(u);
          commits.push((0, false));
          dist.hit("gen_commit_exactly_6");
        }
      }
      2 => {
        if let Some(u) = self.take(h, Some(true), Age::Exactly(5)) {
          ins.push(u);
          commits.push((0, false));
          dist.hit("gen_commit_exactly_5");
        }
      }
      3 => {
        if let Some(u) = self.take(h, Some(true), Age::Young) {
          ins.push(u);
          commits.push((0, false));
          dist.hit("gen_commit_young");
        }
      }
      4 => {
        if let Some(u) = self.take(h, Some(false), Age::Old) {
          ins.push(u);
          commits.push((0, false));
          dist.hit("gen_commit_not_taproot");
        }
      }
      5 => dist.hit("gen_commit_absent"),
      6 => {
        if let Some(u) = self.take(h, Some(true), Age::Old) {
          ins.push(u);
          commits.push((0, true));
          dist.hit("gen_commit_wrong_bytes");
        }
      }
      7 => {
        if let (Some(a), Some(b)) = (self.take(h, None, Age::Any), self.take(h, Some(true), Age::Old)) {
          ins.push(a);
          ins.push(b);
          commits.push((1, false));
          dist.hit("gen_commit_second_input");
        }
      }
      8 => {
        if let (Some(a), Some(b)) = (self.take(h, Some(true), Age::Young), self.take(h, Some(true), Age::Old)) {
          ins.push(a);
          ins.push(b);
          commits.push((0, false));
          commits.push((1, false));
          dist.hit("gen_commit_young_then_old");
        }
      }
      _ => {}
    }
    if ins.is_empty() {
      let u = self.take(h, None, Age::Any)?;
      ins.push(u);
    }
    if self.rng.chance(1, 6) {
      if let Some(u) = self.take(h, None, Age::Any) {
        ins.push(u);
      }
    }
    // ------------------------------------------------------------ mint
    let mut mint_id: Option<RuneId> = None;
    if mint {
      let with_terms: Vec<RuneId> = self.runes.iter().filter(|(_, e)| e.terms.is_some()).map(|(id, _)| *id).collect();
      let without: Vec<RuneId> = self.runes.iter().filter(|(_, e)| e.terms.is_none()).map(|(id, _)| *id).collect();
      let earlier: Vec<u32> = block_etch.iter().map(|(t, _)| *t).collect();
      let k = self.rng.below(20);
      mint_id = Some(match k {
        0 => RuneId { block: u64::from(h), tx: t },
        1 => RuneId { block: u64::from(h), tx: t + 1 },
        2 => RuneId { block: u64::from(h) + 1 + self.rng.below(3), tx: 1 },
        3 => match self.rng.below(3) {
          0 => RuneId { block: 0, tx: 0 },
          1 => RuneId { block: u64::from(h.saturating_sub(1)), tx: 77 },
          _ => RuneId { block: 1, tx: 0 },
        },
        4 | 5 if !earlier.is_empty() => RuneId { block: u64::from(h), tx: *self.rng.pick(&earlier) },
        6 if !without.is_empty() => *self.rng.pick(&without),
        _ if !with_terms.is_empty() => {
          // mostly runes whose window is open or about to open / just closed
          let hh = u64::from(h);
          let near: Vec<RuneId> = self
            .runes
            .iter()
            .filter(|(_, e)| e.terms.is_some() && e.start().map(|s| s <= hh + 1).unwrap_or(true) && e.end().map(|en| en.saturating_add(1) >= hh).unwrap_or(true))
            .map(|(id, _)| *id)
            .collect();
          if !near.is_empty() && self.rng.chance(5, 6) { *self.rng.pick(&near) } else { *self.rng.pick(&with_terms) }
        }
        _ if etching.is_some() => RuneId { block: u64::from(h), tx: t },
        _ => RuneId { block: u64::from(h) + 2, tx: 2 },
      });
      if etching.is_some() && mint_id == Some(RuneId { block: u64::from(h), tx: t }) {
        dist.hit("gen_mint_own_etching");
      }
    }
    // ------------------------------------------------------------ outputs
    let total_in: u64 = ins.iter().map(|u| u.value).sum();
    let fee = self.rng.below(500);
    let mut avail = total_in - fee;
    let nout = 1 + self.rng.below(2);
    let mut outs: Vec<TxOut> = Vec::new();
    for i in 0..nout {
      let v = if i + 1 == nout { avail } else { avail / 2 };
      avail -= v;
      let script = if self.rng.chance(3, 5) { p2tr(7) } else { p2wpkh(1) };
      outs.push(TxOut { value: Amount::from_sat(v), script_pubkey: script });
    }
    if self.rng.chance(1, 25) {
      // no spendable output at all: unallocated runes burn
      outs = vec![TxOut { value: Amount::from_sat(total_in - fee), script_pubkey: op_return(b"x") }];
    }
    let has_artifact = etching.is_some() || mint_id.is_some() || self.rng.chance(1, 3);
    if has_artifact {
      let pointer = if self.rng.chance(1, 6) { Some(self.rng.below(outs.len() as u64) as u32) } else { None };
      let rs = Runestone { edicts: Vec::new(), etching, mint: mint_id, pointer };
      let mut script = rs.encipher();
      match self.rng.below(16) {
        0 | 1 => {
          // unrecognised even tag 126: a cenotaph that keeps the mint and the etched name
          let mut b = script.to_bytes();
          b.extend([0x02, 0x7e, 0x01]);
          script = ScriptBuf::from_bytes(b);
          dist.hit("gen_cenotaph_even_tag");
        }
        2 => {
          // a non-push opcode: a cenotaph with nothing in it
          let mut b = script.to_bytes();
          b.push(0x51);
          script = ScriptBuf::from_bytes(b);
          dist.hit("gen_cenotaph_opcode");
        }
        _ => {}
      }
      let at = if self.rng.chance(1, 4) { 0 } else { outs.len() };
      outs.insert(at, TxOut { value: Amount::ZERO, script_pubkey: script });
    }
    let mut tx = Transaction {
      version: Version(2),
      lock_time: LockTime::ZERO,
      input: ins
        .iter()
        .map(|u| TxIn { previous_output: u.op, script_sig: ScriptBuf::new(), sequence: Sequence::MAX, witness: Witness::new() })
        .collect(),
      output: outs,
    };
    // ------------------------------------------------------------ witnesses
    if let Some(e) = etching {
      let name = e.rune.map(|r| r.0).unwrap_or(minimum);
      for (i, wrong) in &commits {
        let mut c = Rune(name).commitment();
        if *wrong {
          match self.rng.below(3) {
            0 => c.push(0),
            1 => c = Rune(name.wrapping_add(1)).commitment(),
            _ => {
              c.pop();
            }
          }
        }
        let mut b = script::Builder::new();
        if self.rng.chance(1, 4) {
          b = push(b, b"noise");
        }
        b = push(b, &c);
        if self.rng.chance(1, 5) {
          // an inscription in the same reveal: the rune gets a parent / sequence-number row
          b = b.push_opcode(opcodes::OP_FALSE).push_opcode(opcodes::all::OP_IF);
          b = push(b, b"ord");
          b = push(b, &[1]);
          b = push(b, b"text/plain");
          b = b.push_opcode(opcodes::OP_FALSE);
          b = push(b, b"rune");
          b = b.push_opcode(opcodes::all::OP_ENDIF);
          dist.hit("gen_etching_with_inscription");
        }
        tx.input[*i].witness = Witness::from_slice(&[b.into_script().into_bytes(), Vec::new()]);
      }
      block_etch.push((t, e.rune.map(|r| r.0)));
    }
    let txid = tx.compute_txid();
    for (vout, o) in tx.output.iter().enumerate() {
      if !o.script_pubkey.is_op_return() {
        self.pool.push(Utxo { op: OutPoint { txid, vout: vout as u32 }, value: o.value.to_sat(), taproot: o.script_pubkey.is_p2tr(), height: h });
      }
    }
    self.txs.insert(txid, (tx.clone(), h));
    Some((tx, fee))
  }

  fn block(&mut self, node: &Node, ntx: u64, dist: &mut Dist) -> Block {
    let h = node.height() + 1;
    let minimum = Rune::minimum_at_height(self.network, Height(h)).0;
    let mut txs = Vec::new();
    let mut fees = 0;
    let mut block_etch = Vec::new();
    for _ in 0..ntx {
      if let Some((tx, fee)) = self.transaction(h, txs.len() as u32 + 1, minimum, &mut block_etch, dist) {
        fees += fee;
        txs.push(tx);
        dist.hit("tx");
      }
    }
    // the coinbase keeps the pool stocked with taproot and non-taproot outputs of every age
    let reward = Height(h).subsidy() + fees;
    let parts = [(p2tr(7), 3u64), (p2tr(8), 3), (p2wpkh(1), 2), (p2tr(7), 2)];
    let mut outs = Vec::new();
    let mut left = reward;
    for (i, (script, w)) in parts.iter().enumerate() {
      let v = if i + 1 == parts.len() { left } else { reward * w / 10 };
      left -= v;
      outs.push(TxOut { value: Amount::from_sat(v), script_pubkey: script.clone() });
    }
    let coinbase = Transaction {
      version: Version(2),
      lock_time: LockTime::ZERO,
      input: vec![TxIn {
        previous_output: OutPoint::null(),
        script_sig: script::Builder::new().push_int(i64::from(h)).into_script(),
        sequence: Sequence::MAX,
        witness: Witness::new(),
      }],
      output: outs,
    };
    let cbid = coinbase.compute_txid();
    for (vout, o) in coinbase.output.iter().enumerate() {
      self.pool.push(Utxo { op: OutPoint { txid: cbid, vout: vout as u32 }, value: o.value.to_sat(), taproot: o.script_pubkey.is_p2tr(), height: h });
    }
    self.txs.insert(cbid, (coinbase.clone(), h));
    let mut txdata = vec![coinbase];
    txdata.extend(txs);
    dist.hit("block");
    Block { header: make_header(node.tip(), h, self.rng.next_u64() as u32), txdata }
  }
}

fn dump_sections(out: &mut Streams, rows: &[String], flags: Flags) {
  let secs = env::sections(rows);
  let mut names = vec!["chain", "stats"];
  if flags.sats || flags.addr || flags.ins {
    names.push("utxo");
  }
  if flags.sats {
    names.push("sat2satpoint");
  }
  if flags.ins {
    names.push("ins");
    names.push("tx");
  }
  if flags.addr {
    names.push("addr");
  }
  if flags.runes {
    names.push("runes");
  }
  for n in names {
    out.emit(&format!("dump {n}"), &secs[n]);
  }
}

fn scenario(args: &Args, rng: &mut Rng, out: &mut Streams, dist: &mut Dist, scratch: &Path, case: u64, ps: &mut ProbeState) {
  let flags = match rng.below(4) {
    0 => Flags::all(),
    1 => Flags { sats: false, addr: false, tx: false, ins: true, runes: true },
    2 => Flags { sats: false, addr: false, tx: false, ins: false, runes: true },
    _ => {
      let mut f = Flags::from_bits(rng.below(32) as u32);
      f.runes = true;
      f
    }
  };
  let node = Node::new("regtest", scratch);
  let mut ix = env::open(&node, scratch, flags, &[], true);
  let network = node.core.state().network;
  let mut sc = Sc { rng: rng.fork(), pool: Vec::new(), txs: HashMap::new(), network, runes: Vec::new() };
  out.emit(
    &format!(
      "cfg sats={} addr={} tx={} ins={} runes={} first_ins=0 jubilee=110 first_rune=0",
      flags.sats as u8, flags.addr as u8, flags.tx as u8, flags.ins as u8, flags.runes as u8
    ),
    "ok",
  );
  let genesis = node.block_at(0);
  for tx in &genesis.txdata {
    sc.txs.insert(tx.compute_txid(), (tx.clone(), 0));
  }
  let blocks = args.get("blocks").map(|v| v.parse().unwrap()).unwrap_or(14u64);
  let funding = 6 + rng.below(3);
  let nblocks = 4 + rng.below(blocks);
  let mut next_emit = 0u32;
  for b in 0..(funding + nblocks) {
    let ntx = if b < funding { 0 } else { rng.below(8) };
    let block = sc.block(&node, ntx, dist);
    node.push_block(block);
    if b + 1 < funding {
      continue; // the funding prefix is indexed in one go
    }
    match env::update(&ix, Duration::from_secs(120)) {
      UpdateOutcome::Ok => {}
      UpdateOutcome::Err(e) => {
        out.emit("endblock", &format!("err {e}"));
        dist.hit("impl_err");
        return;
      }
      UpdateOutcome::Panic(p) => {
        out.emit("endblock", &format!("panic {p}"));
        dist.hit("impl_panic");
        return;
      }
      UpdateOutcome::Hang => {
        out.emit("endblock", "hang");
        dist.hit("impl_hang");
        return;
      }
    }
    let emitted = node.height() + 1 - next_emit;
    while next_emit <= node.height() {
      let blk = node.block_at(next_emit);
      emit::emit_block(out, next_emit, &blk, network, &sc.txs);
      out.emit("endblock", "ok");
      next_emit += 1;
    }
    let mut evs = Vec::new();
    if let Some(rx) = ix.events.as_mut() {
      while let Ok(e) = rx.try_recv() {
        evs.push(env::render_event(&e));
      }
    }
    if emitted == 1 {
      out.emit("events", &env::canon_events(evs));
    }
    let rows = ix.index.verif_dump().unwrap();
    dump_sections(out, &rows, flags);
    sc.runes = ix.index.runes().unwrap();
    sc.runes.sort_by_key(|(id, _)| (id.block, id.tx));
    let view = View { index: &ix.index, node: &node, txs: &sc.txs, network, runes_on: flags.runes, case, rows: &rows };
    probe::probe(ps, &view, rng, out, dist);
  }
  dist.hit(&format!("flags_{}{}{}{}{}", flags.sats as u8, flags.addr as u8, flags.tx as u8, flags.ins as u8, flags.runes as u8));
  dist.add("final_runes", sc.runes.len() as u64);
}

pub fn run(args: &Args) {
  let mut out = Streams::create(&args.out);
  let mut dist = Dist::default();
  let mut rng = Rng::new(args.seed ^ 0x5ce0_a210);
  let scratch = args.out.join("scratch");
  std::fs::create_dir_all(&scratch).unwrap();
  let mut ps = ProbeState::default();
  for case in 0..args.cases {
    let mut r = rng.fork();
    scenario(args, &mut r, &mut out, &mut dist, &scratch, case, &mut ps);
  }
  let _ = std::fs::remove_dir_all(&scratch);
  dist.write(&args.out);
  out.finish();
}
