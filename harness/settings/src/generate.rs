//! Generators for the settings engine.
//!
//! `merge` stream: (1) for every field, every presence pattern over (flag, env, file) with
//! pairwise-distinct values — exhaustive, several value/encoding variants each; (2) random
//! combinations across all fields; each followed by an oracle line built from the values the
//! generator *intended* (independent of the implementation's parsers).  The config file is
//! reached through every lookup route of `merge` (`--config`, `ORD_CONFIG`, `--config-dir`,
//! `ORD_CONFIG_DIR`, `--data-dir`, `ORD_DATA_DIR`, default data dir), with decoy files at the
//! routes of lower precedence.  Some cases also go through `Settings::load` (process environment).
//!
//! `fuzz` stream: malformed / boundary environment values, malformed YAML, and direct calls of
//! `or`, `from_env`, `from_options`, `or_defaults` on random records.
use super::*;

const POOL_TXIDS: [&str; 5] = [
  "0000000000000000000000000000000000000000000000000000000000000000",
  "1111111111111111111111111111111111111111111111111111111111111111",
  "abcdefabcdefabcdefabcdefabcdefabcdefabcdefabcdefabcdefabcdefabcd",
  "ffffffffffffffffffffffffffffffffffffffffffffffffffffffffffffffff",
  "0123456789abcdef0123456789abcdef0123456789abcdef0123456789abcdef",
];

fn gen_id(rng: &mut Rng) -> String {
  let txid = if rng.chance(3, 4) {
    POOL_TXIDS[rng.below(5) as usize].to_string()
  } else {
    rng.bytes(32).iter().map(|b| format!("{b:02x}")).collect()
  };
  let index = *rng.pick(&[0u64, 0, 1, 2, 7, 255, 256, u32::MAX as u64]);
  format!("{txid}i{index}")
}

fn max_of(ty: Ty) -> u64 {
  match ty {
    Ty::U16 => u16::MAX as u64,
    Ty::U32 => u32::MAX as u64,
    _ => u64::MAX,
  }
}

/// a canonical value for field `f`; `tag` makes values of different sources differ
fn gen_value(rng: &mut Rng, f: &FieldInfo, tag: &str, for_flag: bool) -> V {
  match f.ty {
    Ty::Path => {
      let k = rng.below(if for_flag { 5 } else { 6 });
      V::Text(match k {
        0 => format!("/@/fs/v/{}-{tag}", f.name),
        1 => format!("/abs/{} {tag}/", f.name),
        2 => format!("rel/{}-{tag}", f.name),
        3 => format!("/ü/{}-{tag}é", f.name),
        4 => format!("/{tag}//{}/../x/", f.name),
        _ => String::new(), // the option parser rejects an empty path, the other sources do not
      })
    }
    Ty::Str => {
      let k = rng.below(6);
      V::Text(match k {
        0 => format!("{}-{tag}", f.name),
        1 => format!("{tag} with space = {}", rng.below(1000)),
        2 => format!("ü{tag}\"'\\#: {}", f.name),
        3 => format!("http://{tag}.example:{}", rng.below(65536)),
        4 => format!("-{tag}"),
        _ => {
          if tag == "flag" { "".into() } else { format!("{tag}\ttab") }
        }
      })
    }
    Ty::U16 | Ty::U32 | Ty::Usize => {
      let max = max_of(f.ty);
      let k = rng.below(6);
      V::Num(match k {
        0 => 0,
        1 => max,
        2 => max - 1,
        3 => rng.below(100),
        _ => rng.u64_any_width() % (max / 2 + 1) * 2 % max.max(1),
      })
    }
    Ty::Chain => V::Chain(rng.below(5) as usize),
    Ty::Ids => {
      let n = rng.below(4);
      V::Ids((0..n).map(|_| gen_id(rng)).collect())
    }
    Ty::Bool => V::Bool(true),
  }
}

/// three values, pairwise distinct where the type allows it
fn gen_triple(rng: &mut Rng, f: &FieldInfo) -> [V; 3] {
  loop {
    let a = gen_value(rng, f, "flag", true);
    let b = gen_value(rng, f, "env", false);
    let c = gen_value(rng, f, "file", false);
    if matches!(f.ty, Ty::Ids | Ty::Bool) || (a != b && b != c && a != c) {
      return [a, b, c];
    }
  }
}

/// raw environment text for a canonical value (several spellings parse to the same value)
fn env_raw(rng: &mut Rng, v: &V) -> String {
  match v {
    V::Text(s) => s.clone(),
    V::Num(n) => match rng.below(5) {
      0 => format!("+{n}"),
      1 => format!("0{n}"),
      2 => format!("+000{n}"),
      _ => n.to_string(),
    },
    V::Chain(c) => CHAINS[*c].to_string(),
    V::Bool(_) => rng.pick(&["1", "true", "0", "false", "yes", " ", "off"]).to_string(),
    V::Ids(ids) => {
      let sep = *rng.pick(&[" ", "\n", "\t ", "  ", "\u{a0}", "\u{3000}"]);
      let mut s = String::new();
      if rng.chance(1, 4) {
        s.push_str(" ");
      }
      for (i, id) in ids.iter().enumerate() {
        if i > 0 {
          s.push_str(sep);
        }
        let (txid, idx) = id.split_once('i').unwrap();
        let txid = if rng.chance(1, 4) { txid.to_uppercase() } else { txid.to_string() };
        let idx = match rng.below(4) {
          0 => format!("+{idx}"),
          1 => format!("00{idx}"),
          _ => idx.to_string(),
        };
        s.push_str(&format!("{txid}i{idx}"));
      }
      if rng.chance(1, 4) {
        s.push_str("\n");
      }
      s
    }
  }
}

/// command-line arguments for a canonical flag value
fn flag_args(rng: &mut Rng, f: &FieldInfo, v: &V) -> Vec<(String, Option<String>)> {
  let name = f.flags[rng.below(f.flags.len() as u64) as usize].to_string();
  match v {
    V::Text(s) => vec![(name, Some(s.clone()))],
    V::Num(n) => vec![(name, Some(n.to_string()))],
    V::Bool(_) => vec![(name, None)],
    V::Chain(c) => {
      let c = *c;
      if c != 0 && rng.chance(1, 2) {
        vec![(CHAINS[c].to_string(), None)] // --regtest / --signet / --testnet / --testnet4
      } else {
        let spelled = match (c, rng.chance(1, 3)) {
          (0, true) => "main",
          (3, true) => "test",
          _ => CHAINS[c],
        };
        vec![("chain".into(), Some(spelled.to_string()))]
      }
    }
    V::Ids(_) => vec![],
  }
}

#[derive(Default)]
pub struct Scenario {
  pub home: String,
  pub data: String,
  pub flags: Vec<(String, Option<String>)>,
  pub env: Vec<(String, String)>,
  /// (path, Some(record) | None = undeserialisable with this content)
  pub files: Vec<(String, Result<Rec, String>)>,
  /// intended canonical values per source (flag, env, file actually used)
  pub fl: Rec,
  pub en: Rec,
  pub cf: Rec,
  pub route: &'static str,
}

fn hexflags(flags: &[(String, Option<String>)]) -> String {
  flags
    .iter()
    .map(|(n, v)| match v {
      None => n.clone(),
      Some(v) => format!("{n}={}", hextext(v)),
    })
    .collect::<Vec<_>>()
    .join(" ")
}

fn hexpairs(kvs: &[(String, String)]) -> String {
  kvs.iter().map(|(k, v)| format!("{}={}", hextext(k), hextext(v))).collect::<Vec<_>>().join(" ")
}

fn files_toks(files: &[(String, Result<Rec, String>)]) -> String {
  files
    .iter()
    .map(|(p, c)| match c {
      Ok(r) => format!("C {} ok {}", hextext(p), rec_toks(r)),
      Err(content) => format!("C {} bad {}", hextext(p), hextext(content)),
    })
    .collect::<Vec<_>>()
    .join(" ")
}

impl Scenario {
  pub fn params(&self, ctx: &Ctx) -> String {
    format!("s{} s{} {}", hextext(&self.home), hextext(&self.data), ctx.mem_quarter)
  }
  pub fn merge_line(&self, ctx: &Ctx) -> String {
    format!(
      "settings.merge {} F {} E {} {}",
      self.params(ctx),
      hexflags(&self.flags),
      hexpairs(&self.env),
      files_toks(&self.files)
    )
  }
  pub fn load_line(&self, ctx: &Ctx, extra: &[(String, String)]) -> String {
    let mut vars: Vec<(String, String)> = self.env.iter().map(|(k, v)| (format!("ORD_{k}"), v.clone())).collect();
    vars.extend_from_slice(extra);
    format!(
      "settings.load {} F {} X {} {}",
      self.params(ctx),
      hexflags(&self.flags),
      hexpairs(&vars),
      files_toks(&self.files)
    )
  }
  pub fn oracle_line(&self, ctx: &Ctx, answer: &str) -> String {
    format!(
      "settings.oracle.prec {} F {} E {} C {} R {}",
      self.params(ctx),
      rec_toks(&self.fl),
      rec_toks(&self.en),
      rec_toks(&self.cf),
      answer
    )
  }
}

/// presence of one field in (flag, env, file)
type Pattern = [bool; 3];

const LOCATION_FIELDS: [&str; 3] = ["config", "config_dir", "data_dir"];

fn decoy(rng: &mut Rng, which: u64) -> Rec {
  let mut r = Rec::new();
  r.insert("commit_interval", V::Num(4242 + which));
  r.insert("index_transactions", V::Bool(true));
  if rng.chance(1, 2) {
    r.insert("chain", V::Chain(2));
  }
  r.insert("server_url", V::Text(format!("decoy-{which}")));
  r
}

/// Build one scenario.  `force`: (field index, pattern) to impose on one field; every other field
/// is present in each source with probability `density`/100.
pub fn build(rng: &mut Rng, force: Option<(usize, Pattern)>, density: u64, dist: &mut Dist) -> Scenario {
  let mut sc = Scenario::default();
  sc.home = rng.pick(&["/@/fs/home", "/@/fs/h 2/", "/@/fs/hü"]).to_string();
  sc.data = if rng.chance(1, 2) {
    // XDG_DATA_HOME unset: dirs::data_dir() = $HOME/.local/share
    PathBuf::from(&sc.home).join(".local/share").to_str().unwrap().to_string()
  } else {
    rng.pick(&["/@/fs/xdg", "/@/fs/x d/"]).to_string()
  };
  let forced_name = force.map(|(i, _)| FIELDS[i].name);

  // 1. presence patterns
  let mut pat: Vec<Pattern> = FIELDS
    .iter()
    .enumerate()
    .map(|(i, f)| {
      let mut p = match force {
        Some((j, p)) if i == j => p,
        _ => [rng.below(100) < density, rng.below(100) < density, rng.below(100) < density],
      };
      if f.flags.is_empty() {
        p[0] = false;
      }
      p
    })
    .collect();
  let idx = |n: &str| FIELDS.iter().position(|f| f.name == n).unwrap();

  // 2. credential pairs: mostly balanced (an unbalanced pair makes `merge` fail)
  for (user, pass) in [("bitcoin_rpc_username", "bitcoin_rpc_password"), ("server_username", "server_password")] {
    let (u, p) = (idx(user), idx(pass));
    let any = |q: &Pattern| q.iter().any(|b| *b);
    let fix = |rng: &mut Rng, pat: &mut Vec<Pattern>, fixed: usize, free: usize| {
      let want = pat[fixed].iter().any(|b| *b);
      if want && !pat[free].iter().any(|b| *b) {
        let k = if FIELDS[free].flags.is_empty() { 1 + rng.below(2) } else { rng.below(3) } as usize;
        pat[free][k] = true;
      } else if !want {
        pat[free] = [false; 3];
      }
    };
    if forced_name == Some(pass) {
      fix(rng, &mut pat, p, u);
    } else if forced_name == Some(user) || rng.chance(9, 10) {
      fix(rng, &mut pat, u, p);
    } else if any(&pat[u]) != any(&pat[p]) {
      dist.hit("credentials_unbalanced");
    }
  }

  // 3. config lookup route: the six location-giving (field, source) slots in precedence order
  //    --config, ORD_CONFIG, --config-dir, ORD_CONFIG_DIR, --data-dir, ORD_DATA_DIR
  let (ic, icd, idd) = (idx("config"), idx("config_dir"), idx("data_dir"));
  let slots = [(ic, 0), (ic, 1), (icd, 0), (icd, 1), (idd, 0), (idd, 1)];
  if force.is_none() || !LOCATION_FIELDS.contains(&forced_name.unwrap()) {
    // choose the winning route uniformly; slots above it must be absent
    let route = rng.below(7) as usize;
    for (k, (f, s)) in slots.iter().enumerate() {
      if Some(*f) == force.map(|(i, _)| i) {
        continue;
      }
      if k < route {
        pat[*f][*s] = false;
      } else if k == route {
        pat[*f][*s] = true;
      }
    }
  }
  // a forced data_dir field keeps free values: route it away from data_dir unless it must win
  let route = slots.iter().position(|(f, s)| pat[*f][*s]).unwrap_or(6);
  sc.route = ["flag_config", "env_config", "flag_config_dir", "env_config_dir", "flag_data_dir", "env_data_dir", "default_dir"][route];

  // 4. values
  let slot_paths = ["/@/fs/cF.yaml", "/@/fs/c E.yaml", "/@/fs/cdF", "/@/fs/cdE/", "/@/fs/ddF/", "/@/fs/dd E"];
  for (i, f) in FIELDS.iter().enumerate() {
    let triple = gen_triple(rng, f);
    for s in 0..3 {
      if !pat[i][s] {
        continue;
      }
      let mut v = triple[s].clone();
      // location slots get paths below the scratch root so that files can be placed there
      if let Some(k) = slots.iter().position(|(ff, ss)| *ff == i && *ss == s) {
        let free_value = forced_name == Some("data_dir") && i == idd && k != route;
        if !free_value {
          v = V::Text(slot_paths[k].to_string());
        }
      }
      match s {
        0 => {
          sc.flags.extend(flag_args(rng, f, &v));
          sc.fl.insert(f.name, v);
        }
        1 => {
          let raw = env_raw(rng, &v);
          sc.env.push((f.name.to_uppercase(), raw));
          sc.en.insert(f.name, v);
        }
        _ => {
          sc.cf.insert(f.name, v);
        }
      }
    }
    // switches: an environment variable that is present but empty, and an explicit `false` in
    // the file, do not set the switch
    if f.ty == Ty::Bool {
      if !pat[i][1] && rng.chance(1, 6) {
        sc.env.push((f.name.to_uppercase(), String::new()));
        dist.hit("env_switch_empty");
      }
      if !pat[i][2] && rng.chance(1, 6) {
        sc.cf.insert(f.name, V::Bool(false));
        dist.hit("file_switch_false");
      }
    }
  }
  // shuffle argument and variable order (must not matter)
  for i in (1..sc.flags.len()).rev() {
    let j = rng.below(i as u64 + 1) as usize;
    sc.flags.swap(i, j);
  }
  // unrelated variables are ignored
  if rng.chance(1, 4) {
    sc.env.push(("UNKNOWN_KEY".into(), "x".into()));
    sc.env.push(("chain".into(), "signet".into()));
  }

  // 5. files: the record `cf` at the winning route (if a file is wanted), decoys below it
  let default_path = PathBuf::from(&sc.data).join("ord").join("ord.yaml").to_str().unwrap().to_string();
  let path_of = |k: usize| -> String {
    if k == 6 {
      default_path.clone()
    } else if k < 2 {
      slot_paths[k].to_string()
    } else {
      PathBuf::from(slot_paths[k]).join("ord.yaml").to_str().unwrap().to_string()
    }
  };
  let want_file = !sc.cf.is_empty() || rng.chance(1, 2);
  let explicit_missing = route < 2 && !want_file;
  if want_file {
    sc.files.push((path_of(route), Ok(sc.cf.clone())));
    dist.hit("file_present");
  } else {
    dist.hit(if explicit_missing { "file_missing_explicit" } else { "file_absent" });
  }
  for k in route + 1..7 {
    if rng.chance(1, 2) {
      sc.files.push((path_of(k), Ok(decoy(rng, k as u64))));
      dist.hit("decoy_file");
    }
  }
  dist.hit(&format!("route_{}", sc.route));
  sc
}

fn emit_scenario(ctx: &Ctx, sc: &Scenario, rng: &mut Rng, out: &mut Streams, dist: &mut Dist, with_load: bool) {
  let line = sc.merge_line(ctx);
  let toks: Vec<&str> = line.split(' ').filter(|t| !t.is_empty()).collect();
  let ans = answer(ctx, &toks);
  dist.hit(if ans.starts_with("ok ") { "merge_ok" } else if ans.starts_with("err ") { "merge_err" } else { "merge_other" });
  if let Some(e) = ans.strip_prefix("err ") {
    dist.hit(&format!("err_{}", e.split(':').next().unwrap()));
  }
  out.emit(&line, &ans);
  // the oracle is evaluated on every ok answer and on credential-pair errors; other errors
  // (missing explicit config file) are only compared with the model
  let oracle_applies = |a: &str| a.starts_with("ok ") || a.starts_with("err no-");
  if oracle_applies(&ans) {
    out.emit(&sc.oracle_line(ctx, &ans), "true");
  }
  if with_load {
    // the same through the process environment, plus variables that must not be picked up
    let mut extra = Vec::new();
    if rng.chance(1, 2) {
      extra.push(("ORDX_CHAIN".to_string(), "signet".to_string()));
      extra.push(("ord_chain".to_string(), "signet".to_string()));
      extra.push(("XORD_INDEX_SATS".to_string(), "1".to_string()));
      extra.push(("ORD".to_string(), "1".to_string()));
    }
    let line = sc.load_line(ctx, &extra);
    let toks: Vec<&str> = line.split(' ').filter(|t| !t.is_empty()).collect();
    let ans2 = answer(ctx, &toks);
    out.emit(&line, &ans2);
    if oracle_applies(&ans2) {
      out.emit(&sc.oracle_line(ctx, &ans2), "true");
    }
    dist.hit("load_cases");
  }
}

pub fn merge_stream(ctx: &Ctx, args: &Args, rng: &mut Rng, out: &mut Streams, dist: &mut Dist) {
  // (1) exhaustive: every field × every presence pattern, `per` variants each
  let per: u64 = args.get("per").and_then(|v| v.parse().ok()).unwrap_or(0);
  for rep in 0..per {
    for (i, f) in FIELDS.iter().enumerate() {
      for bits in 0..8u8 {
        let p = [bits & 1 != 0, bits & 2 != 0, bits & 4 != 0];
        if f.flags.is_empty() && p[0] {
          continue;
        }
        // other fields: absent (rep 0), sparse, or dense
        let density = [0, 15, 50][(rep % 3) as usize];
        let sc = build(rng, Some((i, p)), density, dist);
        dist.hit(&format!("pattern_{}{}{}", p[0] as u8, p[1] as u8, p[2] as u8));
        emit_scenario(ctx, &sc, rng, out, dist, rep % 4 == 3);
      }
    }
    dist.add("exhaustive_field_patterns", 27 * 8 - 3 * 4);
  }
  // (2) random combinations across fields
  for k in 0..args.cases {
    let density = *rng.pick(&[5, 20, 35, 50, 80]);
    let sc = build(rng, None, density, dist);
    emit_scenario(ctx, &sc, rng, out, dist, k % 8 == 0);
  }
}

// ---------------------------------------------------------------------------------- fuzz

fn fuzz_num(rng: &mut Rng, ty: Ty) -> String {
  let max = max_of(ty) as u128;
  match rng.below(14) {
    0 => String::new(),
    1 => "+".into(),
    2 => "-".into(),
    3 => "-0".into(),
    4 => format!("{}", max + 1),
    5 => format!("{max}"),
    6 => format!("+{max}"),
    7 => format!(" {}", rng.below(100)),
    8 => format!("{} ", rng.below(100)),
    9 => format!("{}_000", rng.below(100)),
    10 => format!("0x{:x}", rng.below(100)),
    11 => "１２".into(), // full-width digits
    12 => format!("{:030}", rng.below(1000)),
    _ => format!("{}", rng.next_u128() >> rng.below(128)),
  }
}

fn fuzz_ids(rng: &mut Rng) -> String {
  let good = gen_id(rng);
  match rng.below(12) {
    0 => String::new(),
    1 => "   ".into(),
    2 => good[..good.len().min(65)].to_string(),
    3 => good.replace('i', "x"),
    4 => format!("{good} {}", &good[1..]),
    5 => good.replace('i', "i-"),
    6 => format!("{}4294967296", &good[..65]),
    7 => format!("{good}é"),
    8 => format!("g{}", &good[1..]),
    9 => format!("{good},{good}"),
    10 => format!("{}\u{2003}{}", good, gen_id(rng)),
    _ => format!("{good}\u{200b}{}", gen_id(rng)), // zero-width space is not whitespace
  }
}

fn random_rec(rng: &mut Rng, density: u64) -> Rec {
  let mut r = Rec::new();
  for f in &FIELDS {
    if rng.below(100) < density {
      let tag = *rng.pick(&["a", "b"]);
      let v = match f.ty {
        Ty::Bool => V::Bool(rng.chance(1, 2)),
        _ => gen_value(rng, f, tag, false),
      };
      r.insert(f.name, v);
    }
  }
  r
}

pub fn fuzz_stream(ctx: &Ctx, args: &Args, rng: &mut Rng, out: &mut Streams, dist: &mut Dist) {
  let run = |line: String, out: &mut Streams, dist: &mut Dist, what: &str| {
    let toks: Vec<&str> = line.split(' ').filter(|t| !t.is_empty()).collect();
    let ans = answer(ctx, &toks);
    let mut it = ans.split([' ', ':']);
    let head = it.next().unwrap_or("");
    let class = if head == "ok" { String::new() } else { format!("_{}", it.next().unwrap_or("")) };
    dist.hit(&format!("{what}_{head}{class}"));
    out.emit(&line, &ans);
  };
  let home = "/@/fs/home".to_string();
  let data = "/@/fs/home/.local/share".to_string();
  let params = format!("s{} s{} {}", hextext(&home), hextext(&data), ctx.mem_quarter);
  for k in 0..args.cases {
    match k % 6 {
      // Settings::or on arbitrary records
      0 => {
        let (d1, d2) = (*rng.pick(&[0, 30, 70, 100]), *rng.pick(&[0, 30, 70, 100]));
        let a = random_rec(rng, d1);
        let b = random_rec(rng, d2);
        run(format!("settings.or A {} B {}", rec_toks(&a), rec_toks(&b)), out, dist, "or");
      }
      // from_env with boundary / malformed values
      1 | 2 => {
        let mut env: Vec<(String, String)> = Vec::new();
        let n = 1 + rng.below(4);
        for _ in 0..n {
          let f = &FIELDS[rng.below(27) as usize];
          let raw = if rng.chance(1, 2) {
            {
              let v = gen_value(rng, f, "env", false);
              env_raw(rng, &v)
            }
          } else {
            match f.ty {
              Ty::U16 | Ty::U32 | Ty::Usize => fuzz_num(rng, f.ty),
              Ty::Chain => rng.pick(&["main", "test", "Mainnet", "REGTEST", "", " regtest", "testnet3", "bitcoin", "testnet4"]).to_string(),
              Ty::Ids => fuzz_ids(rng),
              Ty::Bool => rng.pick(&["", "0", "\0", "false"]).to_string(),
              _ => rng.pick(&["", " ", "\n", "a=b"]).to_string(),
            }
          };
          let key = match rng.below(12) {
            0 => f.name.to_string(),             // lower case: not the key
            1 => format!("ORD_{}", f.name.to_uppercase()), // doubly prefixed: not the key
            _ => f.name.to_uppercase(),
          };
          env.push((key, raw));
        }
        if k % 6 == 1 {
          run(format!("settings.fromenv {}", hexpairs(&env)), out, dist, "fromenv");
        } else {
          // a malformed variable fails `merge` even when a flag would override it
          let mut flags = Vec::new();
          if rng.chance(1, 2) {
            let f = &FIELDS[rng.below(27) as usize];
            if !f.flags.is_empty() {
              let v = gen_value(rng, f, "flag", true);
              flags = flag_args(rng, f, &v);
            }
          }
          run(format!("settings.merge {params} F {} E {} ", hexflags(&flags), hexpairs(&env)), out, dist, "merge_env");
        }
      }
      // from_options: valid flags, conflicting chain flags, repeated flags, bad values
      3 => {
        let mut flags = Vec::new();
        let n = rng.below(5);
        for _ in 0..n {
          let f = &FIELDS[rng.below(27) as usize];
          if f.flags.is_empty() {
            continue;
          }
          let v = gen_value(rng, f, "flag", true);
          flags.extend(flag_args(rng, f, &v));
        }
        match rng.below(8) {
          0 => flags.push((rng.pick(&["regtest", "signet", "testnet", "testnet4"]).to_string(), None)),
          1 => flags.push(("chain".into(), Some(rng.pick(&["Regtest", "bitcoin", "", "testnet3", "main", "test"]).to_string()))),
          2 => flags.push(("bitcoin-rpc-limit".into(), Some(rng.pick(&["4294967296", "x", ""]).to_string()))),
          3 => flags.push(("data-dir".into(), Some(String::new()))),
          _ => {}
        }
        run(format!("settings.fromopts {}", hexflags(&flags)), out, dist, "fromopts");
      }
      // or_defaults on arbitrary records
      4 => {
        let d = *rng.pick(&[0, 10, 50, 100]);
        let a = random_rec(rng, d);
        let p = if rng.chance(1, 2) { params.clone() } else { format!("s{} s{} {}", hextext("/@/fs/h/"), hextext("/@/fs/xdg data"), ctx.mem_quarter) };
        run(format!("settings.defaults {p} A {}", rec_toks(&a)), out, dist, "defaults");
      }
      // config files serde_yaml must reject (or accept: null / empty values)
      _ => {
        let body = rng
          .pick(&[
            "~\n",
            "chain: regtest\nunknown_key: 1\n",
            "chain: 5\n",
            "chain: Regtest\n",
            "index_sats: \"yes\"\n",
            "index_sats: 1\n",
            "commit_interval: -1\n",
            "commit_interval: \"7\"\n",
            "http_port: 65536\n",
            "hidden: abc\n",
            "hidden:\n- abc\n",
            "chain: [regtest\n",
            "- chain\n",
            "chain: regtest\nchain: signet\n",
            "bitcoin_rpc_limit: 4294967296\n",
            "height_limit: 1.5\n",
          ])
          .to_string();
        let route_flag = rng.chance(1, 2);
        let (flags, env) = if route_flag {
          (vec![("config".to_string(), Some("/@/fs/bad.yaml".to_string()))], vec![])
        } else {
          (vec![], vec![("CONFIG".to_string(), "/@/fs/bad.yaml".to_string())])
        };
        let missing = rng.chance(1, 8);
        let files = if missing { String::new() } else { format!("C {} bad {}", hextext("/@/fs/bad.yaml"), hextext(&body)) };
        run(format!("settings.merge {params} F {} E {} {files}", hexflags(&flags), hexpairs(&env)), out, dist, "merge_badfile");
      }
    }
  }
}
