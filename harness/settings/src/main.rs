//! Correspondence harness for C36 (settings precedence): runs the real `ord::settings::Settings`
//! (`merge`, `load`, `or`, `from_env`, `from_options`, `or_defaults`) in-process on generated
//! flags / environment maps / YAML config files and writes request lines plus the implementation's
//! canonically rendered answers.
//!
//! Line protocol: see /verif/lean/Driver/Settings.lean.  Every path below the `--out` scratch
//! directory is written `/@/…` on the wire, so request lines do not depend on the scratch location.
use {
  clap::Parser,
  common::*,
  ord::{options::Options, settings::Settings},
  std::{
    collections::BTreeMap,
    path::{Path, PathBuf},
  },
};

mod generate;

#[derive(Clone, Copy, PartialEq, Debug)]
pub enum Ty {
  Path,
  Str,
  U16,
  U32,
  Usize,
  Chain,
  Ids,
  Bool,
}

pub struct FieldInfo {
  pub name: &'static str,
  pub ty: Ty,
  /// long flag name(s); the first is the canonical one
  pub flags: &'static [&'static str],
}

/// the harness' own copy of the field list (a field added to `struct Settings` shows up in the
/// rendering of every answer and therefore disagrees with the model: fail closed)
pub const FIELDS: [FieldInfo; 27] = [
  FieldInfo { name: "bitcoin_data_dir", ty: Ty::Path, flags: &["bitcoin-data-dir"] },
  FieldInfo { name: "bitcoin_rpc_limit", ty: Ty::U32, flags: &["bitcoin-rpc-limit"] },
  FieldInfo { name: "bitcoin_rpc_password", ty: Ty::Str, flags: &["bitcoin-rpc-password"] },
  FieldInfo { name: "bitcoin_rpc_url", ty: Ty::Str, flags: &["bitcoin-rpc-url"] },
  FieldInfo { name: "bitcoin_rpc_username", ty: Ty::Str, flags: &["bitcoin-rpc-username"] },
  FieldInfo { name: "chain", ty: Ty::Chain, flags: &["chain"] },
  FieldInfo { name: "commit_interval", ty: Ty::Usize, flags: &["commit-interval"] },
  FieldInfo { name: "config", ty: Ty::Path, flags: &["config"] },
  FieldInfo { name: "config_dir", ty: Ty::Path, flags: &["config-dir"] },
  FieldInfo { name: "cookie_file", ty: Ty::Path, flags: &["cookie-file"] },
  FieldInfo { name: "data_dir", ty: Ty::Path, flags: &["data-dir", "datadir"] },
  FieldInfo { name: "height_limit", ty: Ty::U32, flags: &["height-limit"] },
  FieldInfo { name: "hidden", ty: Ty::Ids, flags: &[] },
  FieldInfo { name: "http_port", ty: Ty::U16, flags: &[] },
  FieldInfo { name: "index", ty: Ty::Path, flags: &["index"] },
  FieldInfo { name: "index_addresses", ty: Ty::Bool, flags: &["index-addresses"] },
  FieldInfo { name: "index_cache_size", ty: Ty::Usize, flags: &["index-cache-size"] },
  FieldInfo { name: "index_runes", ty: Ty::Bool, flags: &["index-runes"] },
  FieldInfo { name: "index_sats", ty: Ty::Bool, flags: &["index-sats"] },
  FieldInfo { name: "index_transactions", ty: Ty::Bool, flags: &["index-transactions"] },
  FieldInfo { name: "integration_test", ty: Ty::Bool, flags: &["integration-test"] },
  FieldInfo { name: "max_savepoints", ty: Ty::Usize, flags: &["max-savepoints"] },
  FieldInfo { name: "no_index_inscriptions", ty: Ty::Bool, flags: &["no-index-inscriptions", "noindex_inscriptions"] },
  FieldInfo { name: "savepoint_interval", ty: Ty::Usize, flags: &["savepoint-interval"] },
  FieldInfo { name: "server_password", ty: Ty::Str, flags: &["server-password"] },
  FieldInfo { name: "server_url", ty: Ty::Str, flags: &[] },
  FieldInfo { name: "server_username", ty: Ty::Str, flags: &["server-username"] },
];

pub const CHAINS: [&str; 5] = ["mainnet", "regtest", "signet", "testnet", "testnet4"];

pub fn field(name: &str) -> Option<&'static FieldInfo> {
  FIELDS.iter().find(|f| f.name == name)
}

/// a canonical field value
#[derive(Clone, PartialEq, Debug)]
pub enum V {
  Text(String),
  Num(u64),
  Chain(usize),
  Bool(bool),
  /// canonical ids (`<64 lower hex>i<decimal>`); `Ids(vec![])` is `Some(∅)`
  Ids(Vec<String>),
}

/// field name ↦ value; an absent key is `None` / `false`
pub type Rec = BTreeMap<&'static str, V>;

pub fn tok(v: &V) -> String {
  match v {
    V::Text(s) => format!("s{}", hextext(s)),
    V::Num(n) => format!("n{n}"),
    V::Chain(c) => format!("s{}", hextext(CHAINS[*c])),
    V::Bool(b) => if *b { "t".into() } else { "f".into() },
    V::Ids(ids) => {
      let mut ids = ids.clone();
      ids.sort();
      ids.dedup();
      format!("l{}", ids.join(","))
    }
  }
}

pub fn rec_toks(r: &Rec) -> String {
  FIELDS
    .iter()
    .filter_map(|f| r.get(f.name).map(|v| format!("{}={}", f.name, tok(v))))
    .collect::<Vec<_>>()
    .join(" ")
}

fn parse_tok(f: &FieldInfo, t: &str) -> Option<Option<V>> {
  if t == "-" {
    return Some(None);
  }
  let (head, rest) = t.split_at(1);
  Some(Some(match (f.ty, head) {
    (Ty::Bool, "t") if rest.is_empty() => V::Bool(true),
    (Ty::Bool, "f") if rest.is_empty() => V::Bool(false),
    (Ty::U16 | Ty::U32 | Ty::Usize, "n") => V::Num(rest.parse().ok()?),
    (Ty::Path | Ty::Str, "s") => V::Text(String::from_utf8(unhex(rest)?).ok()?),
    (Ty::Chain, "s") => {
      let name = String::from_utf8(unhex(rest)?).ok()?;
      V::Chain(CHAINS.iter().position(|c| *c == name)?)
    }
    (Ty::Ids, "l") => V::Ids(if rest.is_empty() { Vec::new() } else { rest.split(',').map(str::to_string).collect() }),
    _ => return None,
  }))
}

fn parse_rec(toks: &[&str]) -> Option<Rec> {
  let mut r = Rec::new();
  for t in toks {
    let (name, v) = t.split_once('=')?;
    let f = field(name)?;
    if let Some(v) = parse_tok(f, v)? {
      r.insert(f.name, v);
    }
  }
  Some(r)
}

/// everything the engine needs to talk to the real code
pub struct Ctx {
  /// canonical absolute scratch directory (`/@` on the wire)
  pub root: String,
  /// `sysinfo` total memory / 4 as this machine reports it (read from /proc/meminfo)
  pub mem_quarter: u64,
}

impl Ctx {
  pub fn new(out: &Path) -> Self {
    std::fs::create_dir_all(out).unwrap();
    let root = std::fs::canonicalize(out).unwrap().to_str().unwrap().to_string();
    let meminfo = std::fs::read_to_string("/proc/meminfo").unwrap();
    let kb: u64 = meminfo
      .lines()
      .find_map(|l| l.strip_prefix("MemTotal:"))
      .unwrap()
      .trim()
      .trim_end_matches("kB")
      .trim()
      .parse()
      .unwrap();
    Ctx { root, mem_quarter: kb * 1024 / 4 }
  }
  fn real(&self, s: &str) -> String {
    s.replace("/@", &self.root)
  }
  fn wire(&self, s: &str) -> String {
    s.replace(&self.root, "/@")
  }
}

fn json_of_rec(r: &Rec) -> serde_json::Value {
  let mut m = serde_json::Map::new();
  for f in &FIELDS {
    if let Some(v) = r.get(f.name) {
      m.insert(
        f.name.into(),
        match v {
          V::Text(s) => s.clone().into(),
          V::Num(n) => (*n).into(),
          V::Chain(c) => CHAINS[*c].into(),
          V::Bool(b) => (*b).into(),
          V::Ids(ids) => ids.clone().into(),
        },
      );
    }
  }
  m.into()
}

/// block / flow YAML text for a config record (style chosen by the caller)
pub fn yaml_of_rec(r: &Rec, style: u64) -> String {
  if r.is_empty() {
    // an empty document deserialises to `Settings::default()` as well
    return if style % 2 == 0 { "{}\n".into() } else { String::new() };
  }
  if style % 3 == 0 {
    // JSON is YAML
    return serde_json::to_string(&json_of_rec(r)).unwrap();
  }
  let plain = |s: &str| {
    !s.is_empty()
      && s.chars().all(|c| c.is_ascii_alphanumeric() || "/._-".contains(c))
      && !s.chars().next().unwrap().is_ascii_digit()
      && !s.starts_with('-')
      && !s.starts_with('.')
      && !["true", "false", "null", "yes", "no", "on", "off", "y", "n"].contains(&s.to_ascii_lowercase().as_str())
  };
  let scalar = |s: &str| {
    if style % 3 == 1 && plain(s) { s.to_string() } else { serde_json::to_string(s).unwrap() }
  };
  let mut out = String::new();
  if style % 3 == 2 {
    out.push_str("---\n# generated\n");
  }
  for f in &FIELDS {
    if let Some(v) = r.get(f.name) {
      match v {
        V::Text(s) => out.push_str(&format!("{}: {}\n", f.name, scalar(s))),
        V::Num(n) => out.push_str(&format!("{}: {n}\n", f.name)),
        V::Chain(c) => out.push_str(&format!("{}: {}\n", f.name, CHAINS[*c])),
        V::Bool(b) => out.push_str(&format!("{}: {b}\n", f.name)),
        V::Ids(ids) => {
          if ids.is_empty() {
            out.push_str(&format!("{}: []\n", f.name));
          } else {
            out.push_str(&format!("{}:\n", f.name));
            for id in ids {
              out.push_str(&format!("- {id}\n"));
            }
          }
        }
      }
    }
  }
  out
}

fn render_json(ctx: &Ctx, v: &serde_json::Value, mem_op: Option<u64>) -> String {
  let serde_json::Value::Object(m) = v else {
    return "bad-render".into();
  };
  let mut parts = Vec::new();
  for (k, v) in m {
    let t = match v {
      serde_json::Value::Null => "-".to_string(),
      serde_json::Value::Bool(b) => if *b { "t".into() } else { "f".into() },
      serde_json::Value::Number(n) => {
        // the machine-dependent default (total memory / 4) is reported as the `mem` parameter
        // of the request so that stored request lines replay on any machine
        match (n.as_u64(), mem_op) {
          (Some(x), Some(m)) if k == "index_cache_size" && x == ctx.mem_quarter => format!("n{m}"),
          _ => format!("n{n}"),
        }
      }
      serde_json::Value::String(s) => format!("s{}", hextext(&ctx.wire(s))),
      serde_json::Value::Array(a) => {
        let mut ids: Vec<String> = a.iter().map(|x| x.as_str().unwrap_or("?").to_string()).collect();
        ids.sort();
        ids.dedup();
        format!("l{}", ids.join(","))
      }
      serde_json::Value::Object(_) => "?".into(),
    };
    parts.push(format!("{k}={t}"));
  }
  parts.join(" ")
}

fn render_settings(ctx: &Ctx, s: &Settings, mem_op: Option<u64>) -> String {
  match serde_json::to_value(s) {
    Ok(v) => format!("ok {}", render_json(ctx, &v, mem_op)),
    Err(e) => format!("err render:{}", hextext(&e.to_string())),
  }
}

fn classify(msg: &str) -> String {
  if let Some(rest) = msg.strip_prefix("failed to parse environment variable ORD_") {
    if let Some((key, _)) = rest.split_once(" as ") {
      return format!("env:{key}");
    }
  }
  if msg.starts_with("failed to open config file") {
    return "config-open".into();
  }
  if msg.starts_with("failed to deserialize config file") {
    return "config-deserialize".into();
  }
  match msg {
    "no bitcoin RPC username specified" => "no-rpc-username".into(),
    "no bitcoin RPC password specified" => "no-rpc-password".into(),
    "no username specified" => "no-username".into(),
    "no password specified" => "no-password".into(),
    "could not get data dir" => "no-data-dir".into(),
    "failed to get cookie file path: could not get home dir" => "no-home-dir".into(),
    _ => format!("other:{}", hextext(msg)),
  }
}

fn render_result(ctx: &Ctx, r: Result<Result<Settings, String>, String>, mem_op: Option<u64>) -> String {
  match r {
    Ok(Ok(s)) => render_settings(ctx, &s, mem_op),
    Ok(Err(msg)) => format!("err {}", classify(&msg)),
    Err(p) => format!("panic {}", hextext(&p)),
  }
}

/// `name` / `name=<hex value>` → (name, value)
fn parse_flags(toks: &[&str]) -> Option<Vec<(String, Option<String>)>> {
  toks
    .iter()
    .map(|t| match t.split_once('=') {
      None => Some((t.to_string(), None)),
      Some((n, h)) => Some((n.to_string(), Some(String::from_utf8(unhex(h)?).ok()?))),
    })
    .collect()
}

fn parse_pairs(toks: &[&str]) -> Option<Vec<(String, String)>> {
  toks
    .iter()
    .map(|t| {
      let (k, v) = t.split_once('=')?;
      Some((String::from_utf8(unhex(k)?).ok()?, String::from_utf8(unhex(v)?).ok()?))
    })
    .collect()
}

fn options_of(ctx: &Ctx, flags: &[(String, Option<String>)]) -> Result<Options, String> {
  let mut argv = vec!["ord".to_string()];
  for (n, v) in flags {
    argv.push(match v {
      None => format!("--{n}"),
      Some(v) => format!("--{n}={}", ctx.real(v)),
    });
  }
  Options::try_parse_from(argv).map_err(|_| "clap".to_string())
}

fn sections<'a>(toks: &[&'a str]) -> Vec<(&'a str, Vec<&'a str>)> {
  let mut out: Vec<(&str, Vec<&str>)> = Vec::new();
  for t in toks {
    if ["A", "B", "F", "E", "X", "C", "R"].contains(t) {
      out.push((t, Vec::new()));
    } else if let Some(last) = out.last_mut() {
      last.1.push(t);
    }
  }
  out
}

fn section<'a, 'b>(ss: &'b [(&'a str, Vec<&'a str>)], m: &str) -> Option<&'b Vec<&'a str>> {
  ss.iter().find(|s| s.0 == m).map(|s| &s.1)
}

fn opt_text(t: &str) -> Option<Option<String>> {
  if t == "-" {
    return Some(None);
  }
  Some(Some(String::from_utf8(unhex(t.strip_prefix('s')?)?).ok()?))
}

/// make `dirs::home_dir()` / `dirs::data_dir()` return the requested values.  The engine is
/// single-threaded, so changing the process environment between two calls is race-free.
fn set_dirs(ctx: &Ctx, home: &Option<String>, data: &Option<String>) -> bool {
  let (Some(home), Some(data)) = (home, data) else {
    return false; // `None` cannot be produced on this platform (getpwuid fallback)
  };
  let home_real = ctx.real(home);
  let data_real = ctx.real(data);
  let derived = PathBuf::from(&home_real).join(".local/share");
  unsafe {
    std::env::set_var("HOME", &home_real);
    if derived.to_str() == Some(data_real.as_str()) {
      std::env::remove_var("XDG_DATA_HOME");
    } else {
      if !Path::new(&data_real).is_absolute() {
        return false;
      }
      std::env::set_var("XDG_DATA_HOME", &data_real);
    }
  }
  true
}

/// create the files of all `C` sections below the scratch root; returns false on a malformed entry
fn make_files(ctx: &Ctx, ss: &[(&str, Vec<&str>)]) -> bool {
  for (m, toks) in ss {
    if *m != "C" || toks.is_empty() {
      continue;
    }
    let Some(path) = unhex(toks[0]).and_then(|b| String::from_utf8(b).ok()) else {
      return false;
    };
    if !path.starts_with("/@/fs/") {
      return false;
    }
    let content = match toks.get(1) {
      Some(&"bad") => match toks.get(2).and_then(|h| unhex(h)) {
        Some(b) => b,
        None => return false,
      },
      Some(&"ok") => match parse_rec(&toks[2..]) {
        Some(mut r) => {
          // path values inside the file must be real paths too
          for v in r.values_mut() {
            if let V::Text(s) = v {
              *s = ctx.real(s);
            }
          }
          let style = toks.iter().map(|t| t.len() as u64).sum::<u64>();
          yaml_of_rec(&r, style).into_bytes()
        }
        None => return false,
      },
      _ => return false,
    };
    let real = PathBuf::from(ctx.real(&path));
    std::fs::create_dir_all(real.parent().unwrap()).unwrap();
    std::fs::write(real, content).unwrap();
  }
  true
}

fn clean_files(ctx: &Ctx) {
  let _ = std::fs::remove_dir_all(Path::new(&ctx.root).join("fs"));
}

/// the implementation's answer to one request line (also used by --replay)
pub fn answer(ctx: &Ctx, toks: &[&str]) -> String {
  match toks {
    ["settings.or", rest @ ..] => {
      let ss = sections(rest);
      let (Some(a), Some(b)) = (section(&ss, "A").and_then(|t| parse_rec(t)), section(&ss, "B").and_then(|t| parse_rec(t))) else {
        return "bad-op".into();
      };
      let (Ok(a), Ok(b)) = (
        serde_json::from_value::<Settings>(json_of_rec(&a)),
        serde_json::from_value::<Settings>(json_of_rec(&b)),
      ) else {
        return "bad-op".into();
      };
      render_result(ctx, catch(move || Ok(a.or(b))), None)
    }
    ["settings.fromenv", rest @ ..] => {
      let Some(kvs) = parse_pairs(rest) else {
        return "bad-op".into();
      };
      let env: BTreeMap<String, String> = kvs.into_iter().collect();
      render_result(ctx, catch(move || Settings::from_env(env).map_err(|e| e.to_string())), None)
    }
    ["settings.fromopts", rest @ ..] => {
      let Some(flags) = parse_flags(rest) else {
        return "bad-op".into();
      };
      match options_of(ctx, &flags) {
        Ok(o) => render_result(ctx, catch(move || Ok(Settings::from_options(o))), None),
        Err(e) => format!("err {e}"),
      }
    }
    ["settings.defaults", home, data, mem, rest @ ..] => {
      let ss = sections(rest);
      let (Some(home), Some(data), Ok(mem), Some(a)) =
        (opt_text(home), opt_text(data), mem.parse::<u64>(), section(&ss, "A").and_then(|t| parse_rec(t)))
      else {
        return "bad-op".into();
      };
      if !set_dirs(ctx, &home, &data) {
        return "bad-op".into();
      }
      let Ok(a) = serde_json::from_value::<Settings>(json_of_rec(&a)) else {
        return "bad-op".into();
      };
      render_result(ctx, catch(move || a.or_defaults().map_err(|e| e.to_string())), Some(mem))
    }
    [op @ ("settings.merge" | "settings.load"), home, data, mem, rest @ ..] => {
      let ss = sections(rest);
      let envsec = if *op == "settings.merge" { "E" } else { "X" };
      let (Some(home), Some(data), Ok(mem), Some(flags), Some(kvs)) = (
        opt_text(home),
        opt_text(data),
        mem.parse::<u64>(),
        section(&ss, "F").and_then(|t| parse_flags(t)),
        section(&ss, envsec).and_then(|t| parse_pairs(t)),
      ) else {
        return "bad-op".into();
      };
      if !set_dirs(ctx, &home, &data) {
        return "bad-op".into();
      }
      clean_files(ctx);
      if !make_files(ctx, &ss) {
        clean_files(ctx);
        return "bad-op".into();
      }
      let kvs: Vec<(String, String)> = kvs.into_iter().map(|(k, v)| (k, ctx.real(&v))).collect();
      let ans = match options_of(ctx, &flags) {
        Err(e) => format!("err {e}"),
        Ok(o) => {
          if *op == "settings.merge" {
            let env: BTreeMap<String, String> = kvs.into_iter().collect();
            render_result(ctx, catch(move || Settings::merge(o, env).map_err(|e| e.to_string())), Some(mem))
          } else {
            // the real entry point: variables are taken from the process environment
            let before: Vec<String> = std::env::vars_os()
              .filter_map(|(k, _)| k.into_string().ok())
              .filter(|k| k.starts_with("ORD"))
              .collect();
            unsafe {
              for k in &before {
                std::env::remove_var(k);
              }
              for (k, v) in &kvs {
                std::env::set_var(k, v);
              }
            }
            let r = render_result(ctx, catch(move || Settings::load(o).map_err(|e| e.to_string())), Some(mem));
            unsafe {
              for (k, _) in &kvs {
                std::env::remove_var(k);
              }
            }
            r
          }
        }
      };
      clean_files(ctx);
      ans
    }
    // oracle lines carry the implementation's own output; the model side evaluates the property
    [op, ..] if op.starts_with("settings.oracle.") => "true".into(),
    _ => "bad-op".into(),
  }
}

fn main() {
  let args = Args::parse();
  let mut out = Streams::create(&args.out);
  let mut dist = Dist::default();
  let mut rng = Rng::new(args.seed);
  let ctx = Ctx::new(&args.out);
  silence_panics();
  if let Some(path) = &args.replay {
    for line in replay_lines(path) {
      let toks: Vec<&str> = line.split(' ').filter(|t| !t.is_empty()).collect();
      let ans = answer(&ctx, &toks);
      out.emit(&line, &ans);
    }
  } else {
    match args.stream.as_str() {
      "merge" => generate::merge_stream(&ctx, &args, &mut rng, &mut out, &mut dist),
      "fuzz" => generate::fuzz_stream(&ctx, &args, &mut rng, &mut out, &mut dist),
      s => panic!("unknown stream {s}"),
    }
  }
  clean_files(&ctx);
  dist.write(&args.out);
  out.finish();
}
