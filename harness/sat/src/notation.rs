//! stream `notation` (C30): what ord prints for a sat parses back to it.
use {
  crate::{gen_sats::*, satparse::parse_result, sats::fld},
  common::*,
  ordinals::{Height, Sat},
};

fn prints(n: u64) -> [Result<String, String>; 4] {
  let s = Sat(n);
  let p = |f: &dyn Fn() -> String| -> Result<String, String> {
    catch(std::panic::AssertUnwindSafe(f)).map_err(|m| format!("panic:{}", crate::sats::panic_class(&m)))
  };
  [
    p(&|| s.to_string()),
    p(&|| s.decimal().to_string()),
    p(&|| s.degree().to_string()),
    p(&|| s.name()),
  ]
}

fn print_line(n: u64) -> String {
  prints(n)
    .iter()
    .map(|r| match r {
      Ok(t) => hextext(t),
      Err(e) => e.clone(),
    })
    .collect::<Vec<_>>()
    .join(" ")
}

fn rt_fields(n: u64) -> Vec<String> {
  prints(n)
    .iter()
    .map(|r| match r {
      Ok(t) => parse_result(t).replace(' ', ":"),
      Err(e) => e.clone(),
    })
    .collect()
}

pub fn answer(toks: &[&str]) -> String {
  match toks {
    ["notation.print", n] => n.parse().map(print_line).unwrap_or("bad-op".into()),
    ["notation.rt", n] => n.parse().map(|n| rt_fields(n).join(" ")).unwrap_or("bad-op".into()),
    [op, ..] if op.contains(".oracle.") => "true".into(),
    _ => "bad-op".into(),
  }
}

fn emit(out: &mut Streams, dist: &mut Dist, n: u64) {
  out.emit(&format!("notation.print {n}"), &print_line(n));
  let rt = rt_fields(n);
  out.emit(&format!("notation.rt {n}"), &rt.join(" "));
  if n < Sat::SUPPLY {
    out.emit(&format!("notation.oracle.rt {n} {}", rt.join(" ")), "true");
    // percentile: IEEE-754 arithmetic, sampled only (no model side)
    let pct = fld(move || parse_result(&Sat(n).percentile()).replace(' ', ":"), |v| v);
    out.emit(&format!("notation.oracle.pct {n} {pct}"), "true");
    dist.hit("rt_below_supply");
    dist.hit(&format!("rt_name_len_{:02}", Sat(n).name().len()));
  } else {
    dist.hit("rt_beyond_supply");
  }
}

pub fn generate(args: &Args, rng: &mut Rng, out: &mut Streams, dist: &mut Dist) {
  for n in boundary_sats() {
    emit(out, dist, n);
  }
  for h in boundary_heights() {
    if h < LAST_SUBSIDY_HEIGHT {
      let s = Height(h).starting_sat().0;
      emit(out, dist, s);
      emit(out, dist, s + Height(h).subsidy() - 1);
    }
  }
  // name-length boundaries: SUPPLY - (26^k + … + 26) ± 1
  let mut x: u64 = 0;
  for _ in 0..11 {
    x = x * 26 + 26;
    if x <= Sat::SUPPLY {
      for d in [0u64, 1, 2] {
        if x + d <= Sat::SUPPLY && x + d >= 1 {
          emit(out, dist, Sat::SUPPLY - (x + d) + 1);
        }
      }
    }
  }
  if let Some(hs) = sweep_heights(args) {
    for h in hs {
      let s = Height(h).starting_sat().0;
      emit(out, dist, s);
      emit(out, dist, s + Height(h).subsidy() - 1);
      dist.hit("sweep_heights");
    }
  }
  for case in 0..args.cases {
    if case % 16 == 0 {
      emit(out, dist, rng.u64_any_width());
    } else {
      emit(out, dist, random_sat(rng));
    }
  }
}
