//! stream `sat` (C29)
use {
  crate::gen_sats::*,
  common::*,
  ordinals::{Charm, Epoch, Height, Rarity, Sat, CYCLE_EPOCHS, COIN_VALUE},
};

const DIFFCHANGE_INTERVAL: u32 = 2016; // checked below against Height::period_offset
const SUBSIDY_HALVING_INTERVAL: u32 = 210_000; // checked below against Epoch::starting_height

pub fn panic_class(msg: &str) -> &'static str {
  if msg.contains("multiply with overflow") {
    "mul"
  } else if msg.contains("add with overflow") {
    "add"
  } else if msg.contains("subtract with overflow") {
    "sub"
  } else if msg.contains("divide by zero") {
    "divzero"
  } else if msg.contains("remainder with a divisor of zero") {
    "remzero"
  } else if msg.contains("unwrap()") {
    "unwrap"
  } else {
    "other"
  }
}

pub fn fld<T>(f: impl FnOnce() -> T + std::panic::UnwindSafe, show: impl Fn(T) -> String) -> String {
  match catch(f) {
    Ok(v) => show(v),
    Err(m) => format!("panic:{}", panic_class(&m)),
  }
}

fn attrs(n: u64) -> String {
  let s = Sat(n);
  let e = s.epoch().0;
  let name = |x: String| if x.is_empty() { "-".to_string() } else { x };
  format!(
    "e={e} pos={} h={} t={} cy={} pe={} deg={} dec={} r={} c={} ch={} n={}",
    s.epoch_position(),
    fld(move || s.height().0, |v| v.to_string()),
    fld(move || s.third(), |v| v.to_string()),
    s.cycle(),
    fld(move || s.period(), |v| v.to_string()),
    fld(move || s.degree(), |d| format!("{}.{}.{}.{}", d.hour, d.minute, d.second, d.third)),
    fld(move || s.decimal(), |d| format!("{}.{}", d.height.0, d.offset)),
    fld(move || s.rarity(), |r| r.to_string()),
    s.common(),
    fld(move || s.charms(), |c| c.to_string()),
    fld(move || s.name(), name),
  )
}

fn epoch_row(e: u32) -> String {
  format!(
    "{} {} {}",
    Epoch(e).starting_sat().0,
    Epoch(e).subsidy(),
    fld(move || Epoch(e).starting_height().0, |v| v.to_string())
  )
}

fn height_row(h: u32) -> String {
  let hh = Height(h);
  format!("{} {} {} {}", hh.starting_sat().0, hh.subsidy(), Epoch::from(hh).0, hh.period_offset())
}

pub fn answer(toks: &[&str]) -> String {
  match toks {
    ["table.const"] => format!(
      "{} {} {} {} {} {} {} {}",
      Sat::SUPPLY,
      Sat::LAST.0,
      COIN_VALUE,
      CYCLE_EPOCHS,
      // the two bitcoin constants are not re-exported: observe them through the API
      (1..5000u32).find(|h| Height(*h).period_offset() == 0).unwrap(),
      Epoch(1).starting_height().0,
      Epoch::FIRST_POST_SUBSIDY.0,
      Epoch::STARTING_SATS.len()
    ),
    ["table.epoch", e] => e.parse().map(epoch_row).unwrap_or("bad-op".into()),
    ["table.rarity", i] => match i.parse::<usize>() {
      Ok(i) => match Rarity::ALL.get(i) {
        Some(r) => format!("{r} {} {}", r.supply(), u8::from(*r)),
        None => "none".into(),
      },
      Err(_) => "bad-op".into(),
    },
    ["table.charm", i] => match i.parse::<usize>() {
      Ok(i) => match Charm::ALL.get(i) {
        Some(c) => format!("{c} {} {}", *c as u16, c.flag()),
        None => "none".into(),
      },
      Err(_) => "bad-op".into(),
    },
    ["height.attrs", h] => h.parse().map(height_row).unwrap_or("bad-op".into()),
    ["sat.attrs", n] => n.parse().map(attrs).unwrap_or("bad-op".into()),
    [op, ..] if op.contains(".oracle.") => "true".into(),
    _ => "bad-op".into(),
  }
}

fn emit_sat(out: &mut Streams, dist: &mut Dist, n: u64) {
  let a = attrs(n);
  out.emit(&format!("sat.attrs {n}"), &a);
  if n < Sat::SUPPLY {
    out.emit(&format!("sat.oracle.attrs {n} {a}"), "true");
    dist.hit(&format!("sat_rarity_{}", Sat(n).rarity()));
    dist.hit(&format!("sat_epoch_{:02}", Sat(n).epoch().0));
  } else {
    dist.hit("sat_beyond_supply");
  }
}

fn emit_height(out: &mut Streams, dist: &mut Dist, h: u32, with_sats: bool) {
  out.emit(&format!("height.attrs {h}"), &height_row(h));
  if h < u32::MAX {
    out.emit(
      &format!(
        "height.oracle.start {h} {} {} {}",
        Height(h).starting_sat().0,
        Height(h).subsidy(),
        Height(h + 1).starting_sat().0
      ),
      "true",
    );
  }
  if h < LAST_SUBSIDY_HEIGHT {
    dist.hit("height_subsidy_bearing");
    if with_sats {
      let s = Height(h).starting_sat().0;
      emit_sat(out, dist, s);
      emit_sat(out, dist, s + Height(h).subsidy() - 1);
    }
  } else {
    dist.hit("height_post_subsidy");
  }
}

pub fn generate(args: &Args, rng: &mut Rng, out: &mut Streams, dist: &mut Dist) {
  assert_eq!(DIFFCHANGE_INTERVAL, 2016);
  assert_eq!(SUBSIDY_HALVING_INTERVAL, 210_000);
  // 1. tables, exhaustively, on every run
  out.emit("table.const", &answer(&["table.const"]));
  for e in (0..=40u32).chain([1000, 20452, 20453, 20454, u32::MAX - 1, u32::MAX]) {
    out.emit(&format!("table.epoch {e}"), &epoch_row(e));
  }
  for i in 0..=Rarity::ALL.len() {
    out.emit(&format!("table.rarity {i}"), &answer(&["table.rarity", &i.to_string()]));
  }
  for i in 0..=Charm::ALL.len() {
    out.emit(&format!("table.charm {i}"), &answer(&["table.charm", &i.to_string()]));
  }
  out.emit(
    &format!(
      "table.oracle.supply {} {}",
      Sat::SUPPLY,
      Rarity::ALL.iter().map(|r| r.supply().to_string()).collect::<Vec<_>>().join(",")
    ),
    "true",
  );
  dist.add("table_rows", 41 + 6 + 7 + 15 + 2);
  // 2. boundary sats and heights
  for n in boundary_sats() {
    emit_sat(out, dist, n);
  }
  for h in boundary_heights() {
    emit_height(out, dist, h, true);
  }
  // 3. thorough: every subsidy-bearing height × {first, last} sat (split over the shards)
  if let Some(hs) = sweep_heights(args) {
    for h in hs {
      emit_height(out, dist, h, true);
      dist.hit("sweep_heights");
    }
  }
  // 4. random
  for case in 0..args.cases {
    match case % 8 {
      0 => emit_sat(out, dist, rng.u64_any_width()),
      1 => {
        let h = rng.u64_any_width() as u32;
        emit_height(out, dist, h, true);
      }
      2 => {
        let h = rng.below(u64::from(LAST_SUBSIDY_HEIGHT) + 10) as u32;
        emit_height(out, dist, h, true);
      }
      _ => emit_sat(out, dist, random_sat(rng)),
    }
  }
}
