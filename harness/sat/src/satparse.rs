//! stream `satparse` (sat part of C31): `Sat::from_str` on generated strings.
//!
//! op:   satparse.<notation> <hex-text> [<float-class>]
//! impl: ok <n> | err <Kind> | panic <class>
//! `<notation>` is the arm `Sat::from_str` dispatches to (name|degree|percentile|decimal|integer;
//! the model recomputes it and answers `label-mismatch` if it disagrees).  For the percentile
//! arm with a text ending in `%` the harness appends what the f64 arithmetic did with the text
//! before the `%`: `ferr` (parse::<f64> failed) | `nan` | `neg` (< 0.0) | `over`
//! (round(p/100*last) > last, includes +inf) | `in <n>` (n = the sat the real code returned, or
//! the harness's own `round(..) as u64` if the real code did not return one).
use {
  crate::{gen_sats::*, sats::panic_class},
  common::*,
  ordinals::{Epoch, Height, Sat},
};

fn error_kind(input: &str, msg: &str) -> String {
  let prefix = format!("failed to parse sat `{input}`: ");
  let kind = msg.strip_prefix(&prefix).unwrap_or("?");
  match kind {
    "invalid integer range" => "IntegerRange",
    "invalid name range" => "NameRange",
    "invalid character in name" => "NameCharacter",
    "invalid percentile" => "Percentile",
    "invalid block offset" => "BlockOffset",
    "missing period" => "MissingPeriod",
    "trailing character" => "TrailingCharacters",
    "missing degree symbol" => "MissingDegree",
    "missing minute symbol" => "MissingMinute",
    "missing second symbol" => "MissingSecond",
    "invalid period offset" => "PeriodOffset",
    "invalid epoch offset" => "EpochOffset",
    "relationship between epoch offset and period offset must be multiple of 336" => "EpochPeriodMismatch",
    "invalid integer: cannot parse integer from empty string" => "ParseInt:empty",
    "invalid integer: invalid digit found in string" => "ParseInt:invalid",
    "invalid integer: number too large to fit in target type" => "ParseInt:overflow",
    k if k.starts_with("invalid float: ") => "ParseFloat",
    _ => "Unknown",
  }
  .to_string()
}

/// the real `Sat::from_str`, canonicalised
pub fn parse_result(text: &str) -> String {
  let t = text.to_string();
  match catch(move || t.parse::<Sat>()) {
    Ok(Ok(s)) => format!("ok {}", s.0),
    Ok(Err(e)) => format!("err {}", error_kind(text, &e.to_string())),
    Err(m) => format!("panic {}", panic_class(&m)),
  }
}

pub fn label(text: &str) -> &'static str {
  if text.chars().any(|c| c.is_ascii_lowercase()) {
    "name"
  } else if text.contains('°') {
    "degree"
  } else if text.contains('%') {
    "percentile"
  } else if text.contains('.') {
    "decimal"
  } else {
    "integer"
  }
}

/// classification of the f64 computation for a text ending in '%'
fn float_class(text: &str, real: &str) -> String {
  let body = &text[..text.len() - 1];
  let Ok(p) = body.parse::<f64>() else {
    return "ferr".into();
  };
  if p.is_nan() {
    return "nan".into();
  }
  if p < 0.0 {
    return "neg".into();
  }
  let last = Sat::LAST.0 as f64;
  let n = (p / 100.0 * last).round();
  if n > last {
    return "over".into();
  }
  match real.strip_prefix("ok ") {
    Some(v) => format!("in {v}"),
    None => format!("in {}", n as u64),
  }
}

fn suffix(text: &str, real: &str) -> String {
  if label(text) == "percentile" && text.ends_with('%') {
    format!(" {}", float_class(text, real))
  } else {
    String::new()
  }
}

pub fn answer(toks: &[&str]) -> String {
  match toks {
    [op, ..] if op.contains(".oracle.") => "true".into(),
    [op, h, ..] if op.starts_with("satparse.") => match unhex(h).and_then(|b| String::from_utf8(b).ok()) {
      Some(t) => parse_result(&t),
      None => "bad-op".into(),
    },
    _ => "bad-op".into(),
  }
}

pub fn emit(out: &mut Streams, dist: &mut Dist, text: &str) {
  let real = parse_result(text);
  let l = label(text);
  let sfx = suffix(text, &real);
  let h = hextext(text);
  out.emit(&format!("satparse.{l} {h}{sfx}"), &real);
  let res = real.replace(' ', ":");
  out.emit(&format!("satparse.oracle.total {l} {h}{sfx} {res}"), "true");
  out.emit(&format!("satparse.oracle.sound {l} {h}{sfx} {res}"), "true");
  let outcome = real.split(' ').next().unwrap();
  dist.hit(&format!("parse_{l}_{outcome}"));
  if outcome != "ok" {
    dist.hit(&format!("parse_{}", real.replace(' ', "_")));
  }
  if !sfx.is_empty() {
    dist.hit(&format!("float_{}", sfx.trim().split(' ').next().unwrap()));
  }
}

const INTS: &[&str] = &[
  "0", "1", "9", "10", "2099999997689999", "2099999997690000", "2099999997690001", "4294967295", "4294967296",
  "4294967297", "9223372036854775807", "9223372036854775808", "18446744073709551615", "18446744073709551616",
  "18446744073709551617", "184467440737095516150", "340282366920938463463374607431768211455",
  "340282366920938463463374607431768211456", "99999999999999999999999999999999999999999999", "209999", "210000",
  "2015", "2016", "6929999", "6930000", "4999999999", "5000000000", "5000000001", "2499999999", "2500000000",
];

fn int_token(rng: &mut Rng) -> String {
  let mut s = match rng.below(6) {
    0 | 1 => (*rng.pick(INTS)).to_string(),
    2 => rng.u64_any_width().to_string(),
    3 => rng.u128_any_width().to_string(),
    4 => rng.below(7_000_000).to_string(),
    _ => {
      let len = rng.range(1, 45) as usize;
      (0..len).map(|_| char::from(b'0' + rng.below(10) as u8)).collect()
    }
  };
  match rng.below(24) {
    0 => s.insert(0, '+'),
    1 => s.insert(0, '-'),
    2 => s.insert_str(0, "++"),
    3 => s.insert_str(0, &"0".repeat(rng.range(1, 30) as usize)),
    4 => s.insert(0, ' '),
    5 => s.push(' '),
    6 => s = String::new(),
    7 => s = "+".into(),
    8 => s = "-".into(),
    9 => s.push('_'),
    10 => s = s.replace('1', "١"),
    11 => s.insert_str(0, "+0"),
    12 => s.insert(rng.below(s.len() as u64 + 1) as usize, *rng.pick(&['x', 'E', 'e', ',', '\u{ff11}'])),
    _ => {}
  }
  s
}

/// a degree string built from components, with the four symbols possibly damaged
fn degree_text(rng: &mut Rng, c: &str, m: &str, s: &str, t: Option<&str>) -> String {
  let mut syms = ["°", "′", "″", "‴"].map(String::from);
  match rng.below(20) {
    0 => syms[rng.below(4) as usize] = String::new(),
    1 => syms[rng.below(4) as usize] = (*rng.pick(&["'", "\"", "''", "°", "′", "″", "‴", "º", " "])).to_string(),
    2 => syms.swap(1, 2),
    _ => {}
  }
  let mut out = format!("{c}{}{m}{}{s}{}", syms[0], syms[1], syms[2]);
  if let Some(t) = t {
    out.push_str(t);
    out.push_str(&syms[3]);
  }
  match rng.below(16) {
    0 => out.push('0'),
    1 => out.push(' '),
    2 => out.push('‴'),
    3 => out.insert(0, ' '),
    _ => {}
  }
  out
}

fn gen_degree(rng: &mut Rng) -> String {
  match rng.below(5) {
    0 => {
      // the real notation of a real sat, possibly without the third part
      let d = Sat(random_sat(rng)).degree();
      let t = d.third.to_string();
      let third = if rng.chance(1, 4) { None } else { Some(t.as_str()) };
      degree_text(rng, &d.hour.to_string(), &d.minute.to_string(), &d.second.to_string(), third)
    }
    1 | 2 => {
      // consistent (minute, second) for a chosen epoch-in-cycle, with boundary cycle numbers,
      // so that the 336-relationship check passes and the u32 arithmetic is reached
      let e = rng.below(6);
      let m = match rng.below(4) {
        0 => *rng.pick(&[0u64, 1, 47295, 47296, 47297, 209_999]),
        _ => rng.below(210_000),
      };
      let s = (e * 336 + m) % 2016;
      let c = match rng.below(3) {
        0 => rng.below(6).to_string(),
        1 => (*rng.pick(&[
          "5", "6", "7", "3407", "3408", "3409", "3410", "4000", "715827881", "715827882", "715827883", "4294967295",
          "4294967296", "+1", "01", "-1",
        ]))
        .to_string(),
        _ => rng.u64_any_width().to_string(),
      };
      let h = Height((rng.below(6) * 6 + e) as u32 * 210_000 + m as u32);
      let t = match rng.below(5) {
        0 => "0".to_string(),
        1 => h.subsidy().saturating_sub(1).to_string(),
        2 => h.subsidy().to_string(),
        3 => int_token(rng),
        _ => rng.below(h.subsidy().max(1)).to_string(),
      };
      let third = if rng.chance(1, 6) { None } else { Some(t.as_str()) };
      degree_text(rng, &c, &m.to_string(), &s.to_string(), third)
    }
    3 => {
      let c = int_token(rng);
      let m = match rng.below(3) {
        0 => (*rng.pick(&["0", "209999", "210000", "210001"])).to_string(),
        _ => int_token(rng),
      };
      let s = match rng.below(3) {
        0 => (*rng.pick(&["0", "2015", "2016", "336", "335"])).to_string(),
        _ => int_token(rng),
      };
      let t = int_token(rng);
      degree_text(rng, &c, &m, &s, Some(&t))
    }
    _ => {
      let mut x = Sat(random_sat(rng)).degree().to_string();
      mutate(rng, &mut x);
      x
    }
  }
}

fn gen_decimal(rng: &mut Rng) -> String {
  match rng.below(4) {
    0 => Sat(random_sat(rng)).decimal().to_string(),
    1 => {
      let h = match rng.below(3) {
        0 => *rng.pick(&boundary_heights()),
        1 => rng.below(6_930_010) as u32,
        _ => rng.u64_any_width() as u32,
      };
      let sub = Height(h).subsidy();
      let k = match rng.below(5) {
        0 => 0,
        1 => sub.saturating_sub(1),
        2 => sub,
        3 => sub + 1,
        _ => rng.u64_any_width(),
      };
      format!("{h}.{k}")
    }
    2 => format!("{}.{}", int_token(rng), int_token(rng)),
    _ => {
      let mut x = Sat(random_sat(rng)).decimal().to_string();
      mutate(rng, &mut x);
      x
    }
  }
}

fn gen_name(rng: &mut Rng) -> String {
  match rng.below(6) {
    0 => Sat(random_sat(rng)).name(),
    1 => (*rng.pick(&[
      "a", "z", "aa", "nvtdijuwxlp", "nvtdijuwxlq", "nvtdijuwxlo", "nvtdijuwxlpa", "zzzzzzzzzzz", "zzzzzzzzzz",
      "aaaaaaaaaaaa", "zzzzzzzzzzzzzzzzzzzzzzzzzzzzzzzzzzzzzzzzzzzzzzzzzz", "nan%", "inf%", "1e5%", "nan", "a%", "a.b",
      "a°", "1°0′0″0‴a",
    ]))
    .to_string(),
    2 => {
      let len = rng.range(1, 40) as usize;
      (0..len).map(|_| char::from(b'a' + rng.below(26) as u8)).collect()
    }
    3 => {
      // long names that stay in range for a while: the range check is per character
      let mut s = Sat(rng.below(1000)).name();
      let extra = rng.range(1, 20) as usize;
      s.extend((0..extra).map(|_| char::from(b'a' + rng.below(26) as u8)));
      s
    }
    4 => {
      let mut s = Sat(random_sat(rng)).name();
      let at = rng.below(s.len() as u64 + 1) as usize;
      s.insert(at, *rng.pick(&['A', 'Z', '0', '-', ' ', 'é', 'а', '{', '`', '%', '.', '°']));
      s
    }
    _ => {
      let mut x = Sat(random_sat(rng)).name();
      mutate(rng, &mut x);
      x
    }
  }
}

fn gen_percentile(rng: &mut Rng) -> String {
  match rng.below(6) {
    0 => Sat(random_sat(rng)).percentile(),
    1 => (*rng.pick(&[
      "0%", "100%", "100.00000000000001%", "100.0000000000001%", "99.99999999999999%", "50%", "-0%", "-0.0%", "-1%",
      "-1E-400%", "NAN%", "+NAN%", "-NAN%", "INF%", "+INF%", "-INF%", "INFINITY%", "-INFINITY%", "INFINIT%", "1E2%",
      "1E3%", "1E400%", "1E-400%", "1E+2%", "1E%", "E2%", "%", "%%", "5%5", ".%", "1.%", ".5%", "+.5%", "+%", "-%",
      "1_0%", " 1%", "1 %", "0X10%", "1E2.5%", "1..%", "0.00000000000004761904767143%", "4.761904767143E-14%",
      "2.3809523835714E-14%", "2.38095238357E-14%", "NAN", "1%%", "%1", "١%",
    ]))
    .to_string(),
    2 => {
      let a = int_token(rng);
      let b = int_token(rng);
      format!("{a}.{b}%")
    }
    3 => format!("{}E{}%", int_token(rng), rng.range(0, 40) as i64 - 20),
    4 => {
      // near multiples of 1/LAST: the rounding boundary
      let n = random_sat(rng);
      let p = n as f64 / Sat::LAST.0 as f64 * 100.0;
      let p = f64::from_bits(p.to_bits().wrapping_add(rng.below(5)).wrapping_sub(2));
      format!("{p}%").to_uppercase()
    }
    _ => {
      let mut x = Sat(random_sat(rng)).percentile();
      mutate(rng, &mut x);
      x.to_uppercase()
    }
  }
}

const ALPHABET: &[char] = &[
  '0', '1', '2', '5', '9', '+', '-', '.', '%', '°', '′', '″', '‴', 'a', 'z', 'A', 'E', 'N', 'I', 'F', ' ', '\'', '"', '_',
  ',', '٣', '\u{ff10}', 'é', '😀', '\u{0}', '\u{7f}', '\t',
];

fn mutate(rng: &mut Rng, s: &mut String) {
  let mut cs: Vec<char> = s.chars().collect();
  for _ in 0..rng.range(1, 3) {
    let at = rng.below(cs.len() as u64 + 1) as usize;
    match rng.below(4) {
      0 if !cs.is_empty() => {
        cs.remove(at.min(cs.len() - 1));
      }
      1 if !cs.is_empty() => {
        let i = at.min(cs.len() - 1);
        cs[i] = *rng.pick(ALPHABET);
      }
      2 if !cs.is_empty() => {
        let i = at.min(cs.len() - 1);
        let c = cs[i];
        cs.insert(i, c);
      }
      _ => cs.insert(at, *rng.pick(ALPHABET)),
    }
  }
  *s = cs.into_iter().collect();
}

fn gen_random(rng: &mut Rng) -> String {
  match rng.below(3) {
    0 => {
      let len = rng.below(12) as usize;
      (0..len).map(|_| *rng.pick(ALPHABET)).collect()
    }
    1 => {
      let len = rng.below(16) as usize;
      String::from_utf8_lossy(&rng.bytes(len)).into_owned()
    }
    _ => {
      let len = rng.below(8) as usize;
      (0..len)
        .map(|_| char::from_u32(rng.below(0x11_0000) as u32).unwrap_or('\u{fffd}'))
        .collect()
    }
  }
}

pub fn generate(args: &Args, rng: &mut Rng, out: &mut Streams, dist: &mut Dist) {
  // fixed boundary strings, always
  for s in INTS {
    emit(out, dist, s);
    emit(out, dist, &format!("+{s}"));
    emit(out, dist, &format!("-{s}"));
    emit(out, dist, &format!("000{s}"));
    emit(out, dist, &format!("{s}.0"));
    emit(out, dist, &format!("0.{s}"));
    emit(out, dist, &format!("{s}°0′0″0‴"));
    emit(out, dist, &format!("0°{s}′0″0‴"));
    emit(out, dist, &format!("0°0′{s}″0‴"));
    emit(out, dist, &format!("0°0′0″{s}‴"));
    emit(out, dist, &format!("{s}%"));
  }
  for e in 0..34u32 {
    let s = Epoch(e).starting_sat();
    for n in [s.0.saturating_sub(1), s.0, s.0 + 1] {
      if n < Sat::SUPPLY {
        let s = Sat(n);
        emit(out, dist, &s.to_string());
        emit(out, dist, &s.decimal().to_string());
        emit(out, dist, &s.degree().to_string());
        emit(out, dist, &s.name());
        emit(out, dist, &s.percentile());
      }
    }
  }
  for s in ["", " ", "°", "′", "″", "‴", "°′″‴", "0°′″‴", "0°0′″‴", "0°0′0″‴", "0°0′0″", "0°0′0″0", ".", "..", "0.", ".0"] {
    emit(out, dist, s);
  }
  for case in 0..args.cases {
    let s = match case % 8 {
      0 => int_token(rng),
      1 => gen_decimal(rng),
      2 | 3 => gen_degree(rng),
      4 => gen_name(rng),
      5 | 6 => gen_percentile(rng),
      _ => gen_random(rng),
    };
    emit(out, dist, &s);
  }
}
