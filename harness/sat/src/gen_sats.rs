//! Sat / height generators shared by the `sat` and `notation` streams.
use {
  common::*,
  ordinals::{Epoch, Height, Sat},
};

pub const LAST_SUBSIDY_HEIGHT: u32 = 6_930_000;

pub fn push_around(v: &mut Vec<u64>, x: u64) {
  for d in [-2i64, -1, 0, 1, 2] {
    if let Some(y) = x.checked_add_signed(d) {
      v.push(y);
    }
  }
}

/// boundary sats: epoch starts, cycle/period/block boundaries, SUPPLY, powers of two, charms
pub fn boundary_sats() -> Vec<u64> {
  let mut v = Vec::new();
  for s in Epoch::STARTING_SATS {
    push_around(&mut v, s.0);
  }
  for h in boundary_heights() {
    if h <= LAST_SUBSIDY_HEIGHT {
      push_around(&mut v, Height(h).starting_sat().0);
    }
  }
  for x in [
    0,
    Sat::SUPPLY,
    1 << 32,
    1 << 53,
    1 << 63,
    u64::MAX - 1,
    45_000_000_000,
    50_000_000_000,
    100_000_000,
    9_765_625,
    9_765_625 * 1000,
    2_099_999_997_689_999,
    1_234_567_887_654_321,
    2_000_000_000_000_002,
    18_446_744_073_709_551_609,
    12_345_678_987_654_321_000,
    9_999_999_999_999_999_999,
    10_000_000_000_000_000_001,
  ] {
    push_around(&mut v, x);
  }
  v.push(u64::MAX);
  v.sort();
  v.dedup();
  v
}

pub fn boundary_heights() -> Vec<u32> {
  let mut v: Vec<u32> = Vec::new();
  let mut around = |x: u64| {
    for d in [-1i64, 0, 1] {
      let y = x as i64 + d;
      if (0..=i64::from(u32::MAX)).contains(&y) {
        v.push(y as u32);
      }
    }
  };
  for e in 0..=40u64 {
    around(e * 210_000);
  }
  for p in [1u64, 2, 3, 104, 105, 624, 625, 626, 3436, 3437, 3438] {
    around(p * 2016);
  }
  for c in 0..=7u64 {
    around(c * 1_260_000);
  }
  around(u64::from(u32::MAX));
  around(1 << 31);
  around(20452 * 210_000);
  around(20453 * 210_000);
  v.sort();
  v.dedup();
  v
}

/// a sat below the supply: uniform, or uniform (height, offset), or near a block boundary
pub fn random_sat(rng: &mut Rng) -> u64 {
  match rng.below(4) {
    0 => rng.below(Sat::SUPPLY),
    1 => {
      let h = Height(rng.below(u64::from(LAST_SUBSIDY_HEIGHT)) as u32);
      h.starting_sat().0 + rng.below(h.subsidy())
    }
    2 => {
      // late epochs are tiny in sat space: pick the epoch uniformly
      let e = rng.below(33) as u32;
      let h = Height(e * 210_000 + rng.below(210_000) as u32);
      h.starting_sat().0 + rng.below(h.subsidy())
    }
    _ => {
      let h = Height(rng.below(u64::from(LAST_SUBSIDY_HEIGHT)) as u32);
      let s = h.starting_sat().0;
      (s + rng.below(3)).saturating_sub(rng.below(3)).min(Sat::SUPPLY - 1)
    }
  }
}

/// which heights this shard sweeps when `--allheights 1 --nshards N` (thorough tier)
pub fn sweep_heights(args: &Args) -> Option<Box<dyn Iterator<Item = u32>>> {
  if args.get("allheights") != Some("1") {
    return None;
  }
  let n: u64 = args.get("nshards").map(|v| v.parse().unwrap()).unwrap_or(1);
  // vcheck derives shard seeds as seed * 1000003 + k
  let k = args.seed % 1_000_003 % n;
  Some(Box::new(
    (0..LAST_SUBSIDY_HEIGHT).filter(move |h| u64::from(*h) % n == k),
  ))
}
