//! Correspondence harness for the sat-numbering models (crate `ordinals`: sat.rs, epoch.rs,
//! height.rs, degree.rs, decimal_sat.rs, rarity.rs, charm.rs).  Streams:
//!   sat       (C29)  tables, per-height and per-sat attributes, oracle lines
//!   notation  (C30)  real Display → real FromStr round trips, model print/parse
//!   satparse  (C31, sat part)  `Sat::from_str` on generated strings; ops
//!             `satparse.<notation> <hex-text> [<float-class>]`
use common::*;

mod gen_sats;
mod notation;
mod satparse;
mod sats;

fn main() {
  let args = Args::parse();
  let mut out = Streams::create(&args.out);
  let mut dist = Dist::default();
  let mut rng = Rng::new(args.seed);
  silence_panics();
  if let Some(path) = &args.replay {
    for line in replay_lines(path) {
      let line = line.as_str();
      let toks: Vec<&str> = line.split(' ').filter(|t| !t.is_empty()).collect();
      let ans = match args.stream.as_str() {
        "sat" => sats::answer(&toks),
        "notation" => notation::answer(&toks),
        "satparse" => satparse::answer(&toks),
        s => panic!("unknown stream {s}"),
      };
      out.emit(line, &ans);
    }
  } else {
    match args.stream.as_str() {
      "sat" => sats::generate(&args, &mut rng, &mut out, &mut dist),
      "notation" => notation::generate(&args, &mut rng, &mut out, &mut dist),
      "satparse" => satparse::generate(&args, &mut rng, &mut out, &mut dist),
      s => panic!("unknown stream {s}"),
    }
  }
  dist.write(&args.out);
  out.finish();
}
