//! X2 (C24 offers, C21 batches): a mock node + the REAL ord index + the REAL `ord server`
//! in-process + REAL `ord wallet …` commands run in-process through `ord::verif::run_command`
//! (`Arguments::try_parse_from(args)?.run()`, i.e. what `main` does).
//!
//! The chain is written directly into mockcore's public state (`ixlib::env::Node::push_block`),
//! so the harness decides which outputs pay wallet addresses, which carry inscriptions
//! (envelope witnesses) and which carry runes (etching with commitment, premine).
use {
  bitcoin::{
    Amount, Block, OutPoint, ScriptBuf, Sequence, Transaction, TxIn, TxOut, Witness,
    absolute::LockTime,
    script::{self, PushBytesBuf},
    transaction::Version,
  },
  clap::Parser,
  ixlib::env::{Flags, Ix, Node, UpdateOutcome, make_header},
  ord::{Inscription, subcommand::server::Server},
  ordinals::{Etching, Rune, Runestone},
  std::{
    io::{Read, Seek, SeekFrom},
    net::SocketAddr,
    os::fd::AsRawFd,
    path::{Path, PathBuf},
    sync::Arc,
    time::Duration,
  },
};

pub fn p2tr(k: u8) -> ScriptBuf {
  let mut b = vec![0x51, 0x20];
  b.extend([k; 32]);
  ScriptBuf::from_bytes(b)
}

pub fn p2wpkh(k: u8) -> ScriptBuf {
  let mut b = vec![0x00, 0x14];
  b.extend([k; 20]);
  ScriptBuf::from_bytes(b)
}

pub fn txin(op: OutPoint) -> TxIn {
  TxIn { previous_output: op, script_sig: ScriptBuf::new(), sequence: Sequence::ENABLE_RBF_NO_LOCKTIME, witness: Witness::new() }
}

pub fn txout(value: u64, script: &ScriptBuf) -> TxOut {
  TxOut { value: Amount::from_sat(value), script_pubkey: script.clone() }
}

pub fn tx(input: Vec<TxIn>, output: Vec<TxOut>) -> Transaction {
  Transaction { version: Version(2), lock_time: LockTime::ZERO, input, output }
}

/// a tapscript-shaped witness: `[script, empty control block]`
pub fn script_witness(script: ScriptBuf) -> Witness {
  Witness::from_slice(&[script.into_bytes(), Vec::new()])
}

pub fn push(b: script::Builder, data: &[u8]) -> script::Builder {
  b.push_slice(PushBytesBuf::try_from(data.to_vec()).unwrap())
}

pub fn text_inscription(body: &str) -> Inscription {
  Inscription { content_type: Some(b"text/plain;charset=utf-8".to_vec()), body: Some(body.as_bytes().to_vec()), ..Default::default() }
}

/// witness revealing `inscriptions` (in order) and, optionally, committing to `rune`
pub fn reveal_witness(inscriptions: &[Inscription], rune: Option<Rune>) -> Witness {
  let mut b = script::Builder::new();
  if let Some(r) = rune {
    b = push(b, &r.commitment());
  }
  for i in inscriptions {
    b = i.append_reveal_script_to_builder(b);
  }
  script_witness(b.into_script())
}

/// OP_RETURN output etching `rune` with `premine` allocated to output `pointer`
pub fn etching_output(rune: Rune, premine: u128, pointer: u32) -> TxOut {
  let runestone = Runestone {
    etching: Some(Etching { rune: Some(rune), premine: Some(premine), divisibility: Some(0), symbol: Some('¢'), ..Default::default() }),
    pointer: Some(pointer),
    ..Default::default()
  };
  TxOut { value: Amount::ZERO, script_pubkey: runestone.encipher() }
}

pub struct World {
  pub node: Node,
  pub ix: Ix,
  handle: axum_server::Handle<SocketAddr>,
  pub server_url: String,
  pub scratch: tempfile::TempDir,
  pub wallet_dir: PathBuf,
  pub flags: Flags,
  pub commands: u64,
  /// the wallet commands talk to the node through this relay
  pub tap: RpcTap,
}

impl World {
  /// mainnet mock node (mockcore's `simulaterawtransaction` only recognises mainnet
  /// addresses), `--integration-test` (inscriptions and runes active from height 0)
  pub fn new(scratch_root: &Path, flags: Flags) -> World {
    Self::new_on(scratch_root, flags, "mainnet")
  }

  /// `chain` = "mainnet" | "regtest" (etchings through the wallet need regtest: the wallet
  /// compares the reveal height with the chain's rune activation height)
  pub fn new_on(scratch_root: &Path, flags: Flags, chain: &'static str) -> World {
    let scratch = tempfile::Builder::new().prefix("wx2").tempdir_in(scratch_root).unwrap();
    let node = Node::new(chain, scratch.path());
    let extra = vec!["--integration-test".to_string()];
    let ix = ixlib::env::open(&node, scratch.path(), flags, &extra, false);
    let settings = ixlib::env::settings(&node, ix.dir.path(), flags, &extra);
    let server = Server::try_parse_from(["server", "--address", "127.0.0.1", "--http-port", "0", "--no-sync"]).unwrap();
    let handle = axum_server::Handle::new();
    let (tx, rx) = std::sync::mpsc::channel();
    {
      let handle = handle.clone();
      let index = ix.index.clone();
      std::thread::spawn(move || {
        let _ = server.run(settings, index, handle, Some(tx));
      });
    }
    let port = rx.recv_timeout(Duration::from_secs(60)).expect("ord server did not start");
    let wallet_dir = scratch.path().join("wallet");
    std::fs::create_dir_all(&wallet_dir).unwrap();
    let node_port: u16 = node.core.url().rsplit(':').next().unwrap().parse().unwrap();
    let tap = RpcTap::start(node_port);
    World { node, ix, handle, server_url: format!("http://127.0.0.1:{port}"), scratch, wallet_dir, flags, commands: 0, tap }
  }

  /// `ord <global options> <tail…>` in-process; a panic is reported as `Err("panic: …")`
  pub fn ord(&mut self, tail: &[String]) -> Result<Option<Box<dyn ord::subcommand::Output>>, String> {
    let mut args: Vec<String> = vec![
      "ord".into(),
      "--bitcoin-rpc-url".into(),
      self.tap.url(),
      "--cookie-file".into(),
      self.node.cookie.display().to_string(),
      "--datadir".into(),
      self.wallet_dir.display().to_string(),
      "--integration-test".into(),
      format!("--chain={}", self.node.chain),
    ];
    args.extend(tail.iter().cloned());
    self.commands += 1;
    match common::catch(std::panic::AssertUnwindSafe(|| ord::verif::run_command(&args))) {
      Ok(r) => r,
      Err(p) => Err(format!("panic: {p}")),
    }
  }

  /// `ord … wallet --server-url <in-process server> <tail…>`
  pub fn wallet(&mut self, tail: &[String]) -> Result<Option<Box<dyn ord::subcommand::Output>>, String> {
    let mut args: Vec<String> = vec!["wallet".into(), "--server-url".into(), self.server_url.clone()];
    args.extend(tail.iter().cloned());
    self.ord(&args)
  }

  pub fn create_wallet(&mut self) {
    self.wallet(&["create".to_string()]).expect("wallet create");
  }

  /// a fresh address of the node's wallet (what `getnewaddress` hands out)
  pub fn wallet_script(&self) -> ScriptBuf {
    self.node.core.state().new_address(false).script_pubkey()
  }

  /// append a block: coinbase paying the full subsidy to `coinbase_to`, then `txs`
  pub fn mine(&self, txs: Vec<Transaction>, coinbase_to: &ScriptBuf) -> OutPoint {
    let height = self.node.height() + 1;
    let coinbase = Transaction {
      version: Version(2),
      lock_time: LockTime::ZERO,
      input: vec![TxIn {
        previous_output: OutPoint::null(),
        script_sig: script::Builder::new().push_int(i64::from(height)).into_script(),
        sequence: Sequence::MAX,
        witness: Witness::new(),
      }],
      output: vec![txout(ordinals::Height(height).subsidy(), coinbase_to)],
    };
    let cb = OutPoint { txid: coinbase.compute_txid(), vout: 0 };
    let mut txdata = vec![coinbase];
    txdata.extend(txs);
    self.node.push_block(Block { header: make_header(self.node.tip(), height, height), txdata });
    cb
  }

  /// bring the server's index to the node's tip (the server runs with `--no-sync`)
  pub fn sync(&self) {
    match ixlib::env::update(&self.ix, Duration::from_secs(120)) {
      UpdateOutcome::Ok => {}
      UpdateOutcome::Err(e) => panic!("index update failed: {e}"),
      UpdateOutcome::Panic(e) => panic!("index update panicked: {e}"),
      UpdateOutcome::Hang => panic!("index update hung"),
    }
  }

  pub fn network(&self) -> bitcoin::Network {
    match self.node.chain {
      "regtest" => bitcoin::Network::Regtest,
      "signet" => bitcoin::Network::Signet,
      "testnet" => bitcoin::Network::Testnet,
      "testnet4" => bitcoin::Network::Testnet4,
      _ => bitcoin::Network::Bitcoin,
    }
  }

  pub fn index(&self) -> &Arc<ord::Index> {
    &self.ix.index
  }

  /// stop the HTTP listener and reap the server's index thread (it polls `SHUTTING_DOWN` every
  /// 100 ms in integration-test mode)
  pub fn stop(&self) {
    self.handle.shutdown();
    ord::shut_down();
    std::thread::sleep(Duration::from_millis(130));
    ord::cancel_shutdown();
  }
}

/// Process-wide capture of fd 1, so that `Output::print` (the only thing a command's result
/// offers) can be read back.  The engine itself never writes to stdout.
pub struct StdoutCapture {
  file: std::fs::File,
  pos: u64,
}

impl StdoutCapture {
  pub fn install(dir: &Path) -> StdoutCapture {
    let path = dir.join("stdout.capture");
    let file = std::fs::OpenOptions::new().create(true).truncate(true).read(true).write(true).open(&path).unwrap();
    let rc = unsafe { libc::dup2(file.as_raw_fd(), 1) };
    assert!(rc >= 0, "dup2 failed");
    // a separate open file description for reading (dup'd descriptors share their offset)
    let file = std::fs::File::open(&path).unwrap();
    StdoutCapture { file, pos: 0 }
  }

  /// what has been printed since the last call
  pub fn take(&mut self) -> String {
    use std::io::Write;
    std::io::stdout().flush().ok();
    let mut s = String::new();
    self.file.seek(SeekFrom::Start(self.pos)).unwrap();
    self.file.read_to_string(&mut s).unwrap();
    self.pos += s.len() as u64;
    s
  }
}

/// A byte relay in front of the mock node that records the JSON-RPC method names the wallet
/// command sends (`"method":"<name>"` in the client→server stream).  This is how "the wallet
/// was asked to sign" (`walletprocesspsbt`) and "the transaction was broadcast"
/// (`sendrawtransaction`) are *observed* rather than inferred from an error message.
pub struct RpcTap {
  pub port: u16,
  log: Arc<std::sync::Mutex<Vec<String>>>,
}

impl RpcTap {
  pub fn start(upstream_port: u16) -> RpcTap {
    use std::net::{TcpListener, TcpStream};
    let listener = TcpListener::bind("127.0.0.1:0").unwrap();
    let port = listener.local_addr().unwrap().port();
    let log: Arc<std::sync::Mutex<Vec<String>>> = Arc::new(std::sync::Mutex::new(Vec::new()));
    let log2 = log.clone();
    std::thread::spawn(move || {
      for client in listener.incoming() {
        let Ok(client) = client else { break };
        let Ok(server) = TcpStream::connect(("127.0.0.1", upstream_port)) else { continue };
        client.set_nodelay(true).ok();
        server.set_nodelay(true).ok();
        let (mut c_read, mut c_write) = (client.try_clone().unwrap(), client);
        let (mut s_read, mut s_write) = (server.try_clone().unwrap(), server);
        let log = log2.clone();
        std::thread::spawn(move || {
          use std::io::Write;
          const PAT: &[u8] = b"\"method\":\"";
          let mut buf = [0u8; 16384];
          let mut acc: Vec<u8> = Vec::new();
          loop {
            let n = match c_read.read(&mut buf) {
              Ok(0) | Err(_) => break,
              Ok(n) => n,
            };
            acc.extend_from_slice(&buf[..n]);
            loop {
              let Some(p) = acc.windows(PAT.len()).position(|w| w == PAT) else { break };
              let start = p + PAT.len();
              let Some(q) = acc[start..].iter().position(|&b| b == b'"') else { break };
              log.lock().unwrap().push(String::from_utf8_lossy(&acc[start..start + q]).to_string());
              acc.drain(..start + q);
            }
            if acc.len() > 256 && !acc.windows(PAT.len()).any(|w| w == PAT) {
              let keep = acc.len() - 64;
              acc.drain(..keep);
            }
            if s_write.write_all(&buf[..n]).is_err() {
              break;
            }
          }
          s_write.shutdown(std::net::Shutdown::Write).ok();
        });
        std::thread::spawn(move || {
          use std::io::Write;
          let mut buf = [0u8; 16384];
          loop {
            let n = match s_read.read(&mut buf) {
              Ok(0) | Err(_) => break,
              Ok(n) => n,
            };
            if c_write.write_all(&buf[..n]).is_err() {
              break;
            }
          }
          c_write.shutdown(std::net::Shutdown::Write).ok();
        });
      }
    });
    RpcTap { port, log }
  }

  pub fn url(&self) -> String {
    format!("http://127.0.0.1:{}", self.port)
  }

  /// method names seen since the last call, in order
  pub fn take(&self) -> Vec<String> {
    std::mem::take(&mut *self.log.lock().unwrap())
  }
}
