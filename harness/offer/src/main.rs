//! C24 — the REAL `ord wallet offer accept` run in-process on generated PSBTs against a mock
//! node and the real ord server, compared with `OrdModel.Wallet.Offer.accept`.
//!
//! stream `accept`: per world (`offer.world <seed> <index>`: deterministic chain + wallet) many
//! PSBTs; per PSBT one `offer.accept` line for `--dry-run` and one for the real run, plus oracle
//! lines on the implementation's outcome and the generator's ground truth.
use {
  bitcoin::{
    OutPoint, ScriptBuf, Transaction, Witness,
    hashes::Hash,
    psbt::Psbt,
    secp256k1::{Message, Secp256k1, SecretKey},
  },
  common::*,
  ixlib::env::Flags,
  ord::{InscriptionId, base64_encode},
  ordinals::Rune,
  std::collections::BTreeSet,
  wx2::*,
};

#[derive(Clone)]
struct Out {
  op: OutPoint,
  value: u64,
  /// the script is one of the node wallet's addresses
  owned: bool,
  locked: bool,
  /// generator's ground truth
  ins: Vec<InscriptionId>,
  runic: bool,
  kind: &'static str,
}

struct Inv {
  outs: Vec<Out>,
  /// pre-generated wallet addresses used for PSBT outputs
  change: Vec<ScriptBuf>,
  wallet_scripts: BTreeSet<ScriptBuf>,
  all_ids: Vec<InscriptionId>,
}

#[derive(Clone, Copy, PartialEq, Debug)]
enum SigKind {
  None,
  WitDummy,
  WitOther,
  WitEmpty,
  Script,
  ScriptEmpty,
  Both,
}

#[derive(Clone)]
struct InSpec {
  out: usize,
  sig: SigKind,
  /// 0 none, 1 partial_sigs, 2 tap_key_sig
  other: u8,
}

struct Spec {
  ins: Vec<InSpec>,
  named: InscriptionId,
  amount: u64,
  delta: i64,
  layout: u64,
}

fn world_flags(rng: &mut Rng) -> Flags {
  Flags { sats: rng.chance(1, 6), addr: true, tx: false, ins: !rng.chance(1, 12), runes: !rng.chance(1, 4) }
}

const FUND: u64 = 200_000_000;

fn build_world(scratch: &std::path::Path, seed: u64, widx: u64) -> (World, Inv, Rng) {
  let mut rng = Rng::new(seed.wrapping_mul(0x1000_0000_01b3) ^ widx.wrapping_mul(0x9e37_79b9));
  let flags = world_flags(&mut rng);
  let mut w = World::new(scratch, flags);
  w.create_wallet();
  let funder = p2tr(200);
  let fund_script = p2tr(201);
  let idle = p2tr(202);
  let cb1 = w.mine(vec![], &funder);
  let nfund = 24usize;
  let split = tx(vec![txin(cb1)], (0..nfund).map(|_| txout(FUND, &fund_script)).collect());
  let split_id = split.compute_txid();
  w.mine(vec![split], &idle);
  for _ in 0..5 {
    w.mine(vec![], &idle);
  }
  // asset outputs, one transaction each, all in block 8 (funding outputs then have 7 confirmations)
  struct Want {
    owned: bool,
    n_ins: usize,
    runic: bool,
    kind: &'static str,
  }
  let mut wants = vec![
    Want { owned: true, n_ins: 0, runic: false, kind: "w-plain" },
    Want { owned: true, n_ins: 0, runic: false, kind: "w-plain" },
    Want { owned: true, n_ins: 0, runic: false, kind: "w-plain" },
    Want { owned: true, n_ins: 1, runic: false, kind: "w-ins1" },
    Want { owned: true, n_ins: 1, runic: false, kind: "w-ins1" },
    Want { owned: true, n_ins: 1, runic: false, kind: "w-ins1" },
    Want { owned: true, n_ins: 2, runic: false, kind: "w-ins2" },
    Want { owned: true, n_ins: 1, runic: true, kind: "w-insrune" },
    Want { owned: true, n_ins: 0, runic: true, kind: "w-rune" },
    Want { owned: false, n_ins: 0, runic: false, kind: "f-plain" },
    Want { owned: false, n_ins: 0, runic: false, kind: "f-plain" },
    Want { owned: false, n_ins: 0, runic: false, kind: "f-plain" },
    Want { owned: false, n_ins: 0, runic: false, kind: "f-plain" },
    Want { owned: false, n_ins: 1, runic: false, kind: "f-ins1" },
    Want { owned: false, n_ins: 0, runic: false, kind: "f-locked" },
  ];
  if rng.chance(1, 2) {
    wants.push(Want { owned: true, n_ins: 3, runic: false, kind: "w-ins3" });
  }
  let minimum = Rune::minimum_at_height(bitcoin::Network::Bitcoin, ordinals::Height(8)).0;
  let mut txs = Vec::new();
  let mut outs = Vec::new();
  let mut wallet_scripts = BTreeSet::new();
  let mut all_ids = Vec::new();
  for (k, want) in wants.iter().enumerate() {
    let script = if want.owned {
      let s = w.wallet_script();
      wallet_scripts.insert(s.clone());
      s
    } else if rng.chance(1, 2) {
      p2tr(10 + k as u8)
    } else {
      p2wpkh(10 + k as u8)
    };
    let value = *rng.pick(&[330u64, 546, 10_000, 9_000, 100_000, 50_000_000, 123_456]);
    let inscriptions: Vec<_> = (0..want.n_ins).map(|j| text_inscription(&format!("w{widx}-{k}-{j}"))).collect();
    let rune = want.runic.then(|| Rune(minimum + 1000 * widx as u128 + k as u128));
    let mut t = tx(vec![txin(OutPoint { txid: split_id, vout: k as u32 })], vec![txout(value, &script)]);
    if let Some(r) = rune {
      t.output.push(etching_output(r, 1000 + k as u128, 0));
    }
    if !inscriptions.is_empty() || rune.is_some() {
      t.input[0].witness = reveal_witness(&inscriptions, rune);
    }
    let txid = t.compute_txid();
    let ids: Vec<InscriptionId> = (0..want.n_ins).map(|j| InscriptionId { txid, index: j as u32 }).collect();
    all_ids.extend(ids.iter().cloned());
    outs.push(Out { op: OutPoint { txid, vout: 0 }, value, owned: want.owned, locked: false, ins: ids, runic: want.runic, kind: want.kind });
    txs.push(t);
  }
  w.mine(txs, &idle);
  w.mine(vec![], &idle);
  // locks: the foreign-locked output always; each wallet output with probability 1/4, but keep
  // one single-inscription wallet output unlocked
  let mut kept = false;
  for o in outs.iter_mut() {
    let lock = if o.kind == "f-locked" {
      true
    } else if o.owned {
      if o.kind == "w-ins1" && !kept {
        kept = true;
        false
      } else {
        rng.chance(1, 4)
      }
    } else {
      false
    };
    if lock {
      o.locked = true;
      w.node.core.lock(o.op);
    }
  }
  let change: Vec<ScriptBuf> = (0..6)
    .map(|_| {
      let s = w.wallet_script();
      wallet_scripts.insert(s.clone());
      s
    })
    .collect();
  w.sync();
  (w, Inv { outs, change, wallet_scripts, all_ids }, rng)
}

fn pick_idx(rng: &mut Rng, inv: &Inv, f: impl Fn(&Out) -> bool) -> Option<usize> {
  let v: Vec<usize> = inv.outs.iter().enumerate().filter(|(_, o)| f(o)).map(|(i, _)| i).collect();
  if v.is_empty() { None } else { Some(*rng.pick(&v)) }
}

fn any_sig(rng: &mut Rng) -> SigKind {
  *rng.pick(&[SigKind::WitDummy, SigKind::WitOther, SigKind::WitEmpty, SigKind::Script, SigKind::ScriptEmpty, SigKind::Both])
}

fn bogus_id(rng: &mut Rng) -> InscriptionId {
  let b = rng.bytes(32);
  InscriptionId { txid: bitcoin::Txid::from_slice(&b).unwrap(), index: rng.below(3) as u32 }
}

fn gen_spec(rng: &mut Rng, inv: &Inv, dist: &mut Dist) -> Spec {
  let amounts = [0u64, 1, 546, 10_000, 100_000_000, 2_100_000_000];
  let mut amount = *rng.pick(&amounts);
  let mut delta = 0i64;
  let layout = rng.next_u64();
  let shape = rng.below(100);
  if shape < 16 {
    // position stream: the wallet's input is NOT the first input.  (a) the foreign input at
    // position 0 is unsigned, (b) the seller input arrives with a final witness / script_sig,
    // (c) both — the shape that passes if the seller's position is mistaken for 0; plus the
    // well-formed control.  Every other foreign input is signed.
    let seller = pick_idx(rng, inv, |o| o.owned && o.ins.len() == 1 && !o.runic).unwrap();
    let named = inv.outs[seller].ins[0];
    let kind = rng.below(4);
    let first_sig = if kind == 0 || kind == 2 { SigKind::None } else { SigKind::WitDummy };
    let seller_sig = if kind == 1 || kind == 2 { *rng.pick(&[SigKind::WitDummy, SigKind::WitOther, SigKind::Script]) } else { SigKind::None };
    dist.hit(["pos_a_first_unsigned", "pos_b_seller_prefilled", "pos_c_both", "pos_control"][kind as usize]);
    let mut foreign: Vec<usize> = Vec::new();
    let nf = 1 + rng.below(3);
    for _ in 0..nf {
      let b = pick_idx(rng, inv, |o| o.kind == "f-plain").unwrap();
      if !foreign.contains(&b) {
        foreign.push(b);
      }
    }
    let mut ins = vec![InSpec { out: foreign[0], sig: first_sig, other: 0 }];
    for b in &foreign[1..] {
      ins.push(InSpec { out: *b, sig: SigKind::WitDummy, other: 0 });
    }
    // seller anywhere but position 0
    let at = 1 + rng.below(ins.len() as u64) as usize;
    ins.insert(at, InSpec { out: seller, sig: seller_sig, other: 0 });
    return Spec { ins, named, amount, delta, layout };
  }
  if shape < 72 {
    dist.hit("gen_near_valid");
    let seller = pick_idx(rng, inv, |o| o.owned && o.ins.len() == 1 && !o.runic).unwrap();
    let mut named = inv.outs[seller].ins[0];
    let mut ins = vec![InSpec { out: seller, sig: SigKind::None, other: 0 }];
    let nb = 1 + rng.below(3);
    for _ in 0..nb {
      let b = pick_idx(rng, inv, |o| o.kind == "f-plain").unwrap();
      if ins.iter().all(|i| i.out != b) {
        ins.push(InSpec { out: b, sig: SigKind::WitDummy, other: 0 });
      }
    }
    let nmut = match rng.below(10) {
      0..=2 => 0,
      3..=7 => 1,
      _ => 2,
    };
    // one near-valid offer in eight is valid in everything but the SIGN of the balance change: the
    // wallet would lose exactly the named amount instead of gaining it (no other mutation, so
    // every other clause holds)
    let nmut = if amount > 0 && amount <= 10_000 && rng.chance(1, 8) {
      delta = -2 * amount as i64;
      dist.hit("sign_flip_only");
      0
    } else {
      nmut
    };
    let mut has_seller = true;
    for _ in 0..nmut {
      let choice = rng.below(14);
      // mutations that need the seller at position 0 / a buyer / any input
      let choice = match choice {
        2 | 6 | 7 | 8 if !has_seller => 0,
        3 | 4 if ins.len() < 2 || !has_seller => 1,
        9 | 10 if ins.is_empty() => 0,
        c => c,
      };
      match choice {
        0 => {
          if amount > 0 && amount <= 100_000_000 && rng.chance(1, 3) {
            // the wallet LOSES exactly the named amount (balance change = -amount): right
            // magnitude, wrong sign
            delta = -2 * amount as i64;
            dist.hit("mut_delta_sign_flip");
          } else {
            delta = *rng.pick(&[-1i64, 1, -546, 1000]);
            dist.hit("mut_delta");
          }
        }
        1 => {
          named = if rng.chance(1, 2) { *rng.pick(&inv.all_ids) } else { bogus_id(rng) };
          dist.hit("mut_named");
        }
        2 => {
          ins[0].sig = any_sig(rng);
          dist.hit("mut_seller_signed");
        }
        3 | 4 => {
          let k = 1 + rng.below(ins.len() as u64 - 1) as usize;
          ins[k].sig = *rng.pick(&[SigKind::None, SigKind::None, SigKind::WitOther, SigKind::Script, SigKind::WitEmpty, SigKind::ScriptEmpty, SigKind::Both]);
          dist.hit("mut_buyer_sig");
        }
        5 => {
          let e = pick_idx(rng, inv, |o| o.owned).unwrap();
          let sig = if rng.chance(1, 2) { SigKind::None } else { SigKind::WitDummy };
          ins.push(InSpec { out: e, sig, other: 0 });
          dist.hit(if inv.outs[e].locked { "mut_extra_wallet_locked" } else { "mut_extra_wallet_unlocked" });
        }
        6 | 7 => {
          let e = pick_idx(rng, inv, |o| o.owned && !(o.ins.len() == 1 && !o.runic)).unwrap();
          ins[0].out = e;
          dist.hit("mut_seller_kind");
        }
        8 => {
          ins.remove(0);
          has_seller = false;
          dist.hit("mut_no_seller");
        }
        9 => {
          let k = rng.below(ins.len() as u64) as usize;
          ins[k].other = 1 + rng.below(2) as u8;
          dist.hit("mut_other_sigs");
        }
        10 => {
          let k = rng.below(ins.len() as u64) as usize;
          let d = ins[k].clone();
          ins.push(d);
          dist.hit("mut_duplicate_input");
        }
        11 => {
          let e = pick_idx(rng, inv, |o| o.kind == "f-locked").unwrap();
          let sig = if rng.chance(1, 2) { SigKind::None } else { SigKind::WitDummy };
          ins.push(InSpec { out: e, sig, other: 0 });
          dist.hit("mut_foreign_locked");
        }
        12 => {
          let e = pick_idx(rng, inv, |o| o.kind == "f-ins1").unwrap();
          ins.push(InSpec { out: e, sig: SigKind::WitDummy, other: 0 });
          dist.hit("mut_foreign_inscribed");
        }
        _ => {
          amount = *rng.pick(&[1u64 << 63, u64::MAX, (1u64 << 63) - 1]);
          dist.hit("mut_amount_huge");
        }
      }
    }
    // order
    if ins.len() > 1 {
      for i in (1..ins.len()).rev() {
        let j = rng.below(i as u64 + 1) as usize;
        ins.swap(i, j);
      }
    }
    Spec { ins, named, amount, delta, layout }
  } else {
    dist.hit("gen_random");
    let nw = rng.below(4);
    let nf = rng.below(4);
    let mut ins = Vec::new();
    for _ in 0..nw {
      let e = pick_idx(rng, inv, |o| o.owned).unwrap();
      let sig = if rng.chance(3, 4) { SigKind::None } else { any_sig(rng) };
      ins.push(InSpec { out: e, sig, other: if rng.chance(1, 8) { 1 + rng.below(2) as u8 } else { 0 } });
    }
    for _ in 0..nf {
      let e = pick_idx(rng, inv, |o| !o.owned).unwrap();
      let sig = if rng.chance(3, 4) { SigKind::WitDummy } else if rng.chance(1, 2) { SigKind::None } else { any_sig(rng) };
      ins.push(InSpec { out: e, sig, other: if rng.chance(1, 8) { 1 + rng.below(2) as u8 } else { 0 } });
    }
    if ins.len() > 1 {
      for i in (1..ins.len()).rev() {
        let j = rng.below(i as u64 + 1) as usize;
        ins.swap(i, j);
      }
    }
    // name the inscription of the first wallet input that has one, mostly
    let named = ins
      .iter()
      .filter_map(|i| inv.outs[i.out].owned.then(|| inv.outs[i.out].ins.first().cloned()).flatten())
      .next()
      .filter(|_| rng.chance(4, 5))
      .unwrap_or_else(|| if rng.chance(1, 2) { *rng.pick(&inv.all_ids) } else { bogus_id(rng) });
    if rng.chance(1, 3) {
      delta = *rng.pick(&[-1i64, 1, 12345]);
    }
    Spec { ins, named, amount, delta, layout }
  }
}

fn build_psbt(spec: &Spec, inv: &Inv) -> Psbt {
  let mut lrng = Rng::new(spec.layout);
  let input: Vec<_> = spec.ins.iter().map(|i| txin(inv.outs[i.out].op)).collect();
  let owned_in: i128 = spec.ins.iter().filter(|i| inv.outs[i.out].owned).map(|i| inv.outs[i.out].value as i128).sum();
  let target = (spec.amount.min(1 << 50) as i128 + spec.delta as i128 + owned_in).max(0) as u64;
  let mut output = Vec::new();
  if target > 0 || lrng.chance(1, 5) {
    if target > 1 && lrng.chance(1, 2) {
      let a = lrng.range(1, target - 1);
      output.push(txout(a, lrng.pick(&inv.change)));
      output.push(txout(target - a, lrng.pick(&inv.change)));
    } else {
      output.push(txout(target, lrng.pick(&inv.change)));
    }
  }
  let nforeign = if output.is_empty() { 1 } else { lrng.below(3) };
  for k in 0..nforeign {
    let s = if lrng.chance(1, 2) { p2tr(100 + k as u8) } else { p2wpkh(100 + k as u8) };
    output.push(txout(*lrng.pick(&[330u64, 546, 10_000, 1_000_000]), &s));
  }
  for i in (1..output.len()).rev() {
    let j = lrng.below(i as u64 + 1) as usize;
    output.swap(i, j);
  }
  let mut psbt = Psbt::from_unsigned_tx(tx(input, output)).unwrap();
  let secp = Secp256k1::new();
  for (k, i) in spec.ins.iter().enumerate() {
    let p = &mut psbt.inputs[k];
    let dummy = Witness::from_slice(&[&[0u8; 64]]);
    match i.sig {
      SigKind::None => {}
      SigKind::WitDummy => p.final_script_witness = Some(dummy),
      SigKind::WitOther => {
        let a = lrng.bytes(64);
        let b = lrng.bytes(33);
        p.final_script_witness = Some(if lrng.chance(1, 2) { Witness::from_slice(&[a]) } else { Witness::from_slice(&[a, b]) });
      }
      SigKind::WitEmpty => p.final_script_witness = Some(Witness::new()),
      SigKind::Script => p.final_script_sig = Some(ScriptBuf::from_bytes(lrng.bytes(23))),
      SigKind::ScriptEmpty => p.final_script_sig = Some(ScriptBuf::new()),
      SigKind::Both => {
        p.final_script_witness = Some(dummy);
        p.final_script_sig = Some(ScriptBuf::from_bytes(lrng.bytes(5)));
      }
    }
    match i.other {
      1 => {
        let sk = SecretKey::from_slice(&[7u8; 32]).unwrap();
        let pk = bitcoin::PublicKey::new(sk.public_key(&secp));
        let sig = secp.sign_ecdsa(&Message::from_digest([9u8; 32]), &sk);
        p.partial_sigs.insert(pk, bitcoin::ecdsa::Signature::sighash_all(sig));
      }
      2 => {
        p.tap_key_sig = Some(bitcoin::taproot::Signature {
          signature: bitcoin::secp256k1::schnorr::Signature::from_slice(&[3u8; 64]).unwrap(),
          sighash_type: bitcoin::TapSighashType::Default,
        });
      }
      _ => {}
    }
  }
  psbt
}

fn list(v: Vec<String>, sep: &str) -> String {
  if v.is_empty() { "-".into() } else { v.join(sep) }
}

fn wit_tok(w: &Witness) -> String {
  if w.is_empty() { "e".into() } else { w.iter().map(hex).collect::<Vec<_>>().join(".") }
}

/// PSBT inputs as `Accept::run` will see them (read back from the serialized bytes)
fn ins_tok(psbt: &Psbt) -> String {
  list(
    psbt
      .unsigned_tx
      .input
      .iter()
      .zip(&psbt.inputs)
      .map(|(t, p)| {
        format!(
          "{}|{}|{}|{}",
          t.previous_output,
          p.final_script_sig.as_ref().map(|s| hex(s.as_bytes())).unwrap_or("none".into()),
          p.final_script_witness.as_ref().map(wit_tok).unwrap_or("none".into()),
          u8::from(!p.partial_sigs.is_empty() || p.tap_key_sig.is_some() || !p.tap_script_sigs.is_empty()),
        )
      })
      .collect(),
    ";",
  )
}

fn tx_ins_tok(t: &Transaction) -> String {
  list(t.input.iter().map(|i| format!("{}|{}|{}", i.previous_output, hex(i.script_sig.as_bytes()), wit_tok(&i.witness))).collect(), ";")
}

/// the wallet's view as the node and the REAL index present it
struct ViewToks {
  unspent: String,
  locked: String,
  info: String,
}

fn view_from_index(w: &World, inv: &Inv) -> ViewToks {
  let unspent: Vec<&Out> = inv.outs.iter().filter(|o| o.owned && !o.locked).collect();
  let locked: Vec<&Out> = inv.outs.iter().filter(|o| o.locked).collect();
  let info = unspent
    .iter()
    .chain(locked.iter())
    .map(|o| {
      let ins = w.index().get_inscriptions_for_output(o.op).unwrap();
      let runes = w.index().get_rune_balances_for_output(o.op).unwrap();
      format!(
        "{}|{}|{}",
        o.op,
        ins.map(|v| list(v.iter().map(|i| i.to_string()).collect(), ",")).unwrap_or("none".into()),
        runes.map(|m| m.len().to_string()).unwrap_or("none".into()),
      )
    })
    .collect();
  ViewToks {
    unspent: list(unspent.iter().map(|o| o.op.to_string()).collect(), ","),
    locked: list(locked.iter().map(|o| o.op.to_string()).collect(), ","),
    info: list(info, ";"),
  }
}

/// ground truth of the generator: ownership by script, inscriptions and runes as constructed.
/// `runes_visible = false` (server without rune index): the wallet cannot see runes, which the
/// property's "no runes" clause is read relative to (notes/C24.md) — reported as `none`.
fn view_truth(inv: &Inv, runes_visible: bool) -> ViewToks {
  let unspent: Vec<&Out> = inv.outs.iter().filter(|o| o.owned && !o.locked).collect();
  let locked: Vec<&Out> = inv.outs.iter().filter(|o| o.locked).collect();
  let info = unspent
    .iter()
    .chain(locked.iter())
    .map(|o| {
      format!(
        "{}|{}|{}",
        o.op,
        list(o.ins.iter().map(|i| i.to_string()).collect(), ","),
        if runes_visible { u8::from(o.runic).to_string() } else { "none".into() },
      )
    })
    .collect();
  ViewToks {
    unspent: list(unspent.iter().map(|o| o.op.to_string()).collect(), ","),
    locked: list(locked.iter().map(|o| o.op.to_string()).collect(), ","),
    info: list(info, ";"),
  }
}

/// what mockcore's `simulaterawtransaction` computes: Σ outputs to wallet addresses − Σ inputs
/// whose previous output pays a wallet address
fn balance_change(psbt: &Psbt, inv: &Inv) -> i128 {
  let mut c: i128 = 0;
  for i in &psbt.unsigned_tx.input {
    if let Some(o) = inv.outs.iter().find(|o| o.op == i.previous_output) {
      if o.owned {
        c -= o.value as i128;
      }
    }
  }
  for o in &psbt.unsigned_tx.output {
    if inv.wallet_scripts.contains(&o.script_pubkey) {
      c += o.value.to_sat() as i128;
    }
  }
  c
}

fn between<'a>(s: &'a str, a: &str, b: &str) -> Option<&'a str> {
  let i = s.find(a)? + a.len();
  let j = s[i..].find(b)? + i;
  Some(&s[i..j])
}

/// canonical class of an `Accept::run` error message
fn classify(msg: &str) -> String {
  let m = msg;
  if m.contains("failed to base64 decode PSBT") || m.contains("failed to deserialize PSBT") {
    "err decode".into()
  } else if m.contains("PSBT contains no inputs owned by wallet") {
    "err no-wallet-input".into()
  } else if let Some(n) = between(m, "PSBT contains ", " inputs owned by wallet") {
    format!("err too-many-wallet-inputs:{n}")
  } else if m.contains("output not found in wallet") {
    "err not-in-wallet".into()
  } else if m.contains("contains runes") {
    "err runes".into()
  } else if m.contains("index must have inscription index to accept PSBT") {
    "err no-inscription-index".into()
  } else if m.contains("outgoing input contains no inscriptions") {
    "err no-inscription".into()
  } else if let Some(n) = between(m, " contains ", " inscriptions") {
    format!("err too-many-inscriptions:{n}")
  } else if m.contains("unexpected outgoing inscription") {
    "err wrong-inscription".into()
  } else if m.contains("unexpected balance change") {
    "err balance".into()
  } else if m.contains("input contains both scriptsig and witness") {
    "err both-sig-kinds".into()
  } else if let Some(op) = between(m, "seller input `", "` is signed") {
    format!("err seller-signed:{op}")
  } else if let Some(op) = between(m, "buyer input `", "` is unsigned") {
    format!("err buyer-unsigned:{op}")
  } else if m.contains("unable to sign transaction") {
    "err unable-to-sign".into()
  } else if m.contains("unable to decode finalized transaction") {
    "err undecodable".into()
  } else if m.contains("signed transaction input length mismatch") {
    "err length-mismatch".into()
  } else if m.contains("was not signed by wallet") {
    "err seller-not-signed".into()
  } else if let Some(op) = between(m, "buyer input `", "` signature changed after signing") {
    format!("err buyer-sig-changed:{op}")
  } else if m.contains("the amount is greater than") {
    "err amount-range".into()
  } else {
    format!("err other:{}", hextext(m))
  }
}

struct Run {
  outcome: String,
  processed: bool,
  sent: bool,
  mempool: Vec<Transaction>,
}

/// the real command
fn run_accept(w: &mut World, dry: bool, named: &str, amount: u64, psbt_b64: &str) -> Run {
  w.tap.take();
  let mut tail: Vec<String> = vec![
    "offer".into(),
    "accept".into(),
    "--inscription".into(),
    named.into(),
    "--amount".into(),
    format!("{amount} sat"),
    "--psbt".into(),
    psbt_b64.into(),
  ];
  if dry {
    tail.push("--dry-run".into());
  }
  let t0 = std::time::Instant::now();
  let r = w.wallet(&tail);
  if std::env::var_os("X2_TIMING").is_some() {
    eprintln!("accept in {:?}", t0.elapsed());
  }
  let methods = w.tap.take();
  let processed = methods.iter().any(|m| m == "walletprocesspsbt");
  let sent = methods.iter().any(|m| m == "sendrawtransaction");
  let mempool: Vec<Transaction> = std::mem::take(&mut w.node.core.state().mempool);
  let outcome = match r {
    Ok(_) => {
      if dry {
        "dry-ok".to_string()
      } else {
        "broadcast".to_string()
      }
    }
    Err(m) => classify(&m),
  };
  Run { outcome, processed, sent, mempool }
}

fn render(run: &Run) -> String {
  format!("{} rpc={}{}", run.outcome, u8::from(run.processed), u8::from(run.sent))
}

fn emit_case(
  w: &mut World,
  inv: &Inv,
  out: &mut Streams,
  dist: &mut Dist,
  named: &str,
  amount: u64,
  psbt_b64: &str,
  view: &ViewToks,
  truth: &ViewToks,
) {
  let decoded = ord::base64_decode(psbt_b64).ok().and_then(|b| Psbt::deserialize(&b).ok());
  for dry in [true, false] {
    let run = run_accept(w, dry, named, amount, psbt_b64);
    dist.hit(&format!("outcome_{}", run.outcome.split(':').next().unwrap().replace(' ', "_")));
    let Some(psbt) = &decoded else {
      out.emit(&format!("offer.undecodable {} {named} {amount} p={psbt_b64}", u8::from(dry)), &render(&run));
      continue;
    };
    let ins = ins_tok(psbt);
    let sim = balance_change(psbt, inv);
    if (run.outcome == "dry-ok" || run.processed)
      && psbt.unsigned_tx.input.iter().any(|i| inv.outs.iter().any(|o| o.op == i.previous_output && o.owned && o.runic))
    {
      // only possible when the server has no rune index (notes/C24.md)
      dist.hit(if w.flags.runes { "approved_runic_wallet_input_WITH_rune_index" } else { "approved_runic_wallet_input_without_rune_index" });
    }
    // mockcore: `walletprocesspsbt` + `finalizepsbt` put the 64-zero-byte witness on every input
    let fin = format!(
      "tx:{}",
      list(psbt.unsigned_tx.input.iter().map(|i| format!("{}|-|{}", i.previous_output, hex(&[0u8; 64]))).collect(), ";")
    );
    out.emit(
      &format!(
        "offer.accept {} {named} {amount} {} {} {} {ins} {sim} {fin} 1 p={psbt_b64}",
        u8::from(dry),
        view.unspent,
        view.locked,
        view.info
      ),
      &render(&run),
    );
    // the property's first clause on ground truth: whenever the wallet was asked to sign, or
    // approved the offer in a dry run, the offer is the advertised trade
    out.emit(
      &format!(
        "offer.oracle.sign {} {named} {amount} {} {} {} {ins} {sim} {} {}",
        u8::from(dry),
        truth.unspent,
        truth.locked,
        truth.info,
        run.outcome.replace(' ', "_"),
        u8::from(run.processed),
      ),
      "true",
    );
    // per-position facts: which input the implementation treated as the seller's (named in its
    // error, or implied by an approval) is the ONE wallet input, at its real position
    out.emit(
      &format!("offer.oracle.positions {} {} {ins} {}", truth.unspent, truth.locked, run.outcome.replace(' ', "_")),
      "true",
    );
    // dry runs and rejected offers leave no trace at the node
    out.emit(
      &format!(
        "offer.oracle.quiet {} {} {}{} {}",
        u8::from(dry),
        run.outcome.replace(' ', "_"),
        u8::from(run.processed),
        u8::from(run.sent),
        run.mempool.len()
      ),
      "true",
    );
    if run.outcome == "broadcast" {
      dist.hit("broadcast");
      let t = run.mempool.first().cloned().unwrap_or_else(|| tx(vec![], vec![]));
      let same = t.compute_txid() == psbt.unsigned_tx.compute_txid();
      out.emit(
        &format!("offer.oracle.broadcast {} {} {ins} {} {}", truth.unspent, truth.locked, tx_ins_tok(&t), u8::from(same)),
        "true",
      );
    }
  }
}

fn generate(args: &Args, rng: &mut Rng, out: &mut Streams, dist: &mut Dist) {
  let per_world: u64 = args.get("per-world").map(|s| s.parse().unwrap()).unwrap_or(40);
  let scratch = scratch_root(args);
  let mut done = 0u64;
  let mut widx = 0u64;
  while done < args.cases {
    let wseed = rng.next_u64() >> 16;
    let t0 = std::time::Instant::now();
    let (mut w, inv, mut wrng) = build_world(&scratch, wseed, widx);
    if std::env::var_os("X2_TIMING").is_some() {
      eprintln!("world built in {:?}", t0.elapsed());
    }
    out.emit(&format!("offer.world {wseed} {widx}"), "ok");
    dist.hit("world");
    dist.hit(&format!("world_runes_{}", u8::from(w.flags.runes)));
    dist.hit(&format!("world_ins_{}", u8::from(w.flags.ins)));
    let view = view_from_index(&w, &inv);
    let truth = view_truth(&inv, w.flags.runes);
    let n = per_world.min(args.cases - done);
    for _ in 0..n {
      if wrng.chance(1, 40) {
        // malformed stream
        let s = match wrng.below(3) {
          0 => "!!!notbase64".to_string(),
          1 => base64_encode(&wrng.bytes(40)),
          _ => {
            let spec = gen_spec(&mut wrng, &inv, dist);
            let mut b = build_psbt(&spec, &inv).serialize();
            let cut = wrng.below(b.len() as u64) as usize;
            b.truncate(cut);
            base64_encode(&b)
          }
        };
        dist.hit("gen_malformed");
        let named = inv.all_ids[0].to_string();
        emit_case(&mut w, &inv, out, dist, &named, 1000, &s, &view, &truth);
      } else {
        let spec = gen_spec(&mut wrng, &inv, dist);
        let psbt = build_psbt(&spec, &inv);
        let b64 = base64_encode(&psbt.serialize());
        emit_case(&mut w, &inv, out, dist, &spec.named.to_string(), spec.amount, &b64, &view, &truth);
      }
      done += 1;
    }
    dist.add("commands", w.commands);
    w.stop();
    widx += 1;
  }
  std::fs::remove_dir_all(&scratch).ok();
}

fn scratch_root(args: &Args) -> std::path::PathBuf {
  let base = if std::path::Path::new("/dev/shm").is_dir() { std::path::PathBuf::from("/dev/shm") } else { args.out.clone() };
  let p = base.join(format!("eng_offer-{}-{}", std::process::id(), args.seed));
  std::fs::create_dir_all(&p).unwrap();
  p
}

/// replay: worlds are rebuilt from their `offer.world` line, offers re-run from the PSBT that
/// travels with each request line; all other tokens are taken as given
fn replay(args: &Args, path: &std::path::Path, out: &mut Streams, dist: &mut Dist) {
  let scratch = scratch_root(args);
  let mut cur: Option<(World, Inv)> = None;
  for line in replay_lines(path) {
    let toks: Vec<&str> = line.split(' ').filter(|t| !t.is_empty()).collect();
    match toks[0] {
      "offer.world" => {
        if let Some((w, _)) = &cur {
          w.stop();
        }
        let (w, inv, _) = build_world(&scratch, toks[1].parse().unwrap(), toks[2].parse().unwrap());
        cur = Some((w, inv));
        out.emit(&line, "ok");
      }
      "offer.accept" | "offer.undecodable" => {
        let (w, _) = cur.as_mut().expect("offer.world line first");
        let p = toks.last().unwrap().strip_prefix("p=").unwrap();
        let run = run_accept(w, toks[1] == "1", toks[2], toks[3].parse().unwrap(), p);
        dist.hit("replayed");
        out.emit(&line, &render(&run));
      }
      _ => out.emit(&line, "true"),
    }
  }
  std::fs::remove_dir_all(&scratch).ok();
}

fn main() {
  let args = Args::parse();
  let mut out = Streams::create(&args.out);
  let mut dist = Dist::default();
  let mut rng = Rng::new(args.seed);
  match args.stream.as_str() {
    "accept" => {
      if let Some(path) = &args.replay {
        replay(&args, path, &mut out, &mut dist);
      } else {
        generate(&args, &mut rng, &mut out, &mut dist);
      }
    }
    s => panic!("unknown stream {s}"),
  }
  dist.write(&args.out);
  out.finish();
  // the in-process servers' threads are still parked; leave without joining them
  std::process::exit(0);
}
