//! Correspondence harness for property C20: runs the real `ord::TransactionBuilder` on generated
//! wallet states and writes request lines (`ops.txt`) plus the implementation's answers
//! (`impl.out`).  Line formats (tokens separated by one space):
//!
//!   builder.fee <rate-f64-bits-hex> <run-length table of FeeRate::fee(n), n = 0..FEE_N>
//!   builder.build <rate-bits> <recipient> <change0> <change1> <target> <outgoing> <amounts>
//!                 <inscriptions> <locked> <runic>
//!   builder.oracle.c20 <recipient> … <runic> <vsize>:<fee(vsize)>:<fee(43)> <impl outcome>
//!
//! script = `id:len:dust:opret:addr:hex`; target = `P` | `V<sat>` | `E<sat>`; outgoing = `op:offset`;
//! amounts = `op:value,…`; inscriptions = `op:offset:count,…`; locked/runic = `op,…`; `-` = empty.
//! An outpoint is written as its rank: rank r ↔ OutPoint { txid: [r/3 big-endian, 0…], vout: r%3 },
//! so numeric order = BTreeMap order.
use {
  bitcoin::{
    Address, Amount, Network, OutPoint, ScriptBuf, Transaction, TxOut, Txid, Witness,
    hashes::Hash,
  },
  common::*,
  ord::{FeeRate, InscriptionId, Target, TransactionBuilder},
  ordinals::SatPoint,
  std::collections::{BTreeMap, BTreeSet, HashSet},
};

const FEE_N: usize = 2048;

fn outpoint(rank: u32) -> OutPoint {
  let mut b = [0u8; 32];
  b[..4].copy_from_slice(&(rank / 3).to_be_bytes());
  OutPoint {
    txid: Txid::from_byte_array(b),
    vout: rank % 3,
  }
}

fn rank(o: &OutPoint) -> u32 {
  let b = o.txid.to_byte_array();
  u32::from_be_bytes([b[0], b[1], b[2], b[3]]) * 3 + o.vout
}

#[derive(Clone, Debug, PartialEq)]
enum Tgt {
  Value(u64),
  Postage,
  Exact(u64),
}

#[derive(Clone, Debug)]
struct Case {
  rate_bits: u64,
  recipient: Vec<u8>,
  change: [Vec<u8>; 2],
  target: Tgt,
  outgoing: (u32, u64),
  amounts: Vec<(u32, u64)>,
  inscriptions: Vec<(u32, u64, u32)>,
  locked: Vec<u32>,
  runic: Vec<u32>,
}

fn rate_of(bits: u64) -> FeeRate {
  FeeRate::try_from(f64::from_bits(bits)).expect("valid fee rate")
}

fn script_token(id: usize, bytes: &[u8]) -> String {
  let s = ScriptBuf::from_bytes(bytes.to_vec());
  format!(
    "{}:{}:{}:{}:{}:{}",
    id,
    bytes.len(),
    s.minimal_non_dust().to_sat(),
    s.is_op_return() as u8,
    Address::from_script(&s, Network::Bitcoin).is_ok() as u8,
    hex(bytes)
  )
}

/// ids by distinct byte strings: recipient 0, then change0, change1
fn script_ids(c: &Case) -> [usize; 3] {
  let id0 = if c.change[0] == c.recipient { 0 } else { 1 };
  let id1 = if c.change[1] == c.recipient {
    0
  } else if c.change[1] == c.change[0] {
    id0
  } else {
    2
  };
  [0, id0, id1]
}

fn join<T, F: Fn(&T) -> String>(xs: &[T], f: F) -> String {
  if xs.is_empty() {
    "-".into()
  } else {
    xs.iter().map(f).collect::<Vec<_>>().join(",")
  }
}

/// everything of a request line after the op name and rate
fn case_tokens(c: &Case) -> String {
  let ids = script_ids(c);
  format!(
    "{} {} {} {} {}:{} {} {} {} {}",
    script_token(ids[0], &c.recipient),
    script_token(ids[1], &c.change[0]),
    script_token(ids[2], &c.change[1]),
    match c.target {
      Tgt::Postage => "P".to_string(),
      Tgt::Value(v) => format!("V{v}"),
      Tgt::Exact(v) => format!("E{v}"),
    },
    c.outgoing.0,
    c.outgoing.1,
    join(&c.amounts, |(o, v)| format!("{o}:{v}")),
    join(&c.inscriptions, |(o, f, n)| format!("{o}:{f}:{n}")),
    join(&c.locked, |o| o.to_string()),
    join(&c.runic, |o| o.to_string()),
  )
}

fn parse_list<T>(s: &str, f: impl Fn(&str) -> Option<T>) -> Option<Vec<T>> {
  if s == "-" {
    return Some(Vec::new());
  }
  s.split(',').map(f).collect()
}

/// parse the ten case tokens (checks that the declared script attributes match the bytes)
fn parse_case(rate_bits: u64, t: &[&str]) -> Option<Case> {
  if t.len() != 9 {
    return None;
  }
  let script = |s: &str| -> Option<Vec<u8>> { unhex(s.split(':').nth(5)?) };
  let nums = |s: &str| -> Option<Vec<u64>> { s.split(':').map(|x| x.parse().ok()).collect() };
  let c = Case {
    rate_bits,
    recipient: script(t[0])?,
    change: [script(t[1])?, script(t[2])?],
    target: match t[3] {
      "P" => Tgt::Postage,
      s if s.starts_with('V') => Tgt::Value(s[1..].parse().ok()?),
      s if s.starts_with('E') => Tgt::Exact(s[1..].parse().ok()?),
      _ => return None,
    },
    outgoing: {
      let v = nums(t[4])?;
      (u32::try_from(*v.first()?).ok()?, *v.get(1)?)
    },
    amounts: parse_list(t[5], |x| {
      let v = nums(x)?;
      Some((u32::try_from(*v.first()?).ok()?, *v.get(1)?))
    })?,
    inscriptions: parse_list(t[6], |x| {
      let v = nums(x)?;
      Some((u32::try_from(*v.first()?).ok()?, *v.get(1)?, u32::try_from(*v.get(2)?).ok()?))
    })?,
    locked: parse_list(t[7], |x| x.parse().ok())?,
    runic: parse_list(t[8], |x| x.parse().ok())?,
  };
  // the line must be the canonical rendering of the case (sorted keys, true script attributes)
  if case_tokens(&c) != t.join(" ") {
    return None;
  }
  // change scripts must be addresses
  for ch in &c.change {
    Address::from_script(&ScriptBuf::from_bytes(ch.clone()), Network::Bitcoin).ok()?;
  }
  Some(c)
}

fn panic_class(msg: &str) -> String {
  if let Some(i) = msg.find("invariant: ") {
    let rest = msg[i + 11..].split(':').next().unwrap().trim();
    return format!("inv:{}", rest.replace(' ', "_"));
  }
  if msg.contains("Option::unwrap()") {
    return "unwrap-none".into();
  }
  match msg {
    "attempt to subtract with overflow" => "sub-overflow".into(),
    "attempt to add with overflow" => "add-overflow".into(),
    "Amount addition error" => "amount-add".into(),
    "Amount subtraction error" => "amount-sub".into(),
    other => other.replace(' ', "_"),
  }
}

fn error_kind(e: &ord::wallet::transaction_builder::Error) -> &'static str {
  use ord::wallet::transaction_builder::Error::*;
  match e {
    DuplicateAddress(_) => "DuplicateAddress",
    Dust { .. } => "Dust",
    InvalidAddress(_) => "InvalidAddress",
    NotEnoughCardinalUtxos => "NotEnoughCardinalUtxos",
    NotInWallet(_) => "NotInWallet",
    OutOfRange(..) => "OutOfRange",
    UtxoContainsAdditionalInscriptions { .. } => "UtxoContainsAdditionalInscriptions",
    ValueOverflow => "ValueOverflow",
  }
}

enum Res {
  Ok(Transaction),
  Err(&'static str),
  Panic(String),
}

fn run_case(c: &Case) -> Res {
  let c = c.clone();
  let r = catch(move || {
    let dummy = ScriptBuf::new();
    let amounts: BTreeMap<OutPoint, TxOut> = c
      .amounts
      .iter()
      .map(|(o, v)| {
        (
          outpoint(*o),
          TxOut {
            value: Amount::from_sat(*v),
            script_pubkey: dummy.clone(),
          },
        )
      })
      .collect();
    let mut inscriptions: BTreeMap<SatPoint, Vec<InscriptionId>> = BTreeMap::new();
    let mut k = 0u32;
    for (o, off, n) in &c.inscriptions {
      let ids = (0..*n)
        .map(|_| {
          k += 1;
          let mut b = [0xabu8; 32];
          b[..4].copy_from_slice(&k.to_be_bytes());
          InscriptionId {
            txid: Txid::from_byte_array(b),
            index: k,
          }
        })
        .collect();
      inscriptions.insert(
        SatPoint {
          outpoint: outpoint(*o),
          offset: *off,
        },
        ids,
      );
    }
    let addr = |b: &Vec<u8>| Address::from_script(&ScriptBuf::from_bytes(b.clone()), Network::Bitcoin).unwrap();
    TransactionBuilder::new(
      SatPoint {
        outpoint: outpoint(c.outgoing.0),
        offset: c.outgoing.1,
      },
      inscriptions,
      amounts,
      c.locked.iter().map(|o| outpoint(*o)).collect::<BTreeSet<_>>(),
      c.runic.iter().map(|o| outpoint(*o)).collect::<BTreeSet<_>>(),
      ScriptBuf::from_bytes(c.recipient.clone()),
      [addr(&c.change[0]), addr(&c.change[1])],
      rate_of(c.rate_bits),
      match c.target {
        Tgt::Postage => Target::Postage,
        Tgt::Value(v) => Target::Value(Amount::from_sat(v)),
        Tgt::Exact(v) => Target::ExactPostage(Amount::from_sat(v)),
      },
      Network::Bitcoin,
    )
    .build_transaction()
  });
  match r {
    Ok(Ok(tx)) => Res::Ok(tx),
    Ok(Err(e)) => Res::Err(error_kind(&e)),
    Err(msg) => Res::Panic(panic_class(&msg)),
  }
}

fn render(c: &Case, res: &Res, sep: &str) -> String {
  match res {
    Res::Ok(tx) => {
      let ids = script_ids(c);
      let ins: Vec<u32> = tx.input.iter().map(|i| rank(&i.previous_output)).collect();
      let outs: Vec<String> = tx
        .output
        .iter()
        .map(|o| {
          let b = o.script_pubkey.as_bytes();
          let id = if b == c.recipient {
            ids[0].to_string()
          } else if b == c.change[0] {
            ids[1].to_string()
          } else if b == c.change[1] {
            ids[2].to_string()
          } else {
            "?".to_string()
          };
          format!("{id}:{}", o.value.to_sat())
        })
        .collect();
      format!("ok{sep}{}{sep}{}", join(&ins, |i| i.to_string()), join(&outs, |s| s.clone()))
    }
    Res::Err(k) => format!("err{sep}{k}"),
    Res::Panic(p) => format!("panic{sep}{p}"),
  }
}

fn fee_table(bits: u64) -> String {
  let rate = rate_of(bits);
  let mut items: Vec<String> = Vec::new();
  let mut run: Option<(u64, usize)> = None;
  for n in 0..FEE_N {
    let f = rate.fee(n).to_sat();
    match run {
      Some((v, k)) if v == f => run = Some((v, k + 1)),
      Some((v, k)) => {
        items.push(if k == 1 { v.to_string() } else { format!("{v}*{k}") });
        run = Some((f, 1));
      }
      None => run = Some((f, 1)),
    }
  }
  if let Some((v, k)) = run {
    items.push(if k == 1 { v.to_string() } else { format!("{v}*{k}") });
  }
  items.join(",")
}

struct Engine {
  out: Streams,
  dist: Dist,
  announced: HashSet<u64>,
}

impl Engine {
  fn announce(&mut self, bits: u64) {
    if self.announced.insert(bits) {
      self.out.emit(&format!("builder.fee {bits:016x} {}", fee_table(bits)), &format!("ok {FEE_N}"));
    }
  }

  /// one case: the build line, then the oracle line on the implementation's own outcome
  fn emit_case(&mut self, c: &Case) {
    self.announce(c.rate_bits);
    let res = run_case(c);
    let toks = case_tokens(c);
    self.out.emit(&format!("builder.build {:016x} {toks}", c.rate_bits), &render(c, &res, " "));
    let fees = match &res {
      Res::Ok(tx) => {
        let mut m = tx.clone();
        for i in &mut m.input {
          i.witness = Witness::from_slice(&[&[0u8; 64]]);
        }
        let vs = m.vsize();
        let rate = rate_of(c.rate_bits);
        format!("{vs}:{}:{}", rate.fee(vs).to_sat(), rate.fee(43).to_sat())
      }
      _ => "0:0:0".into(),
    };
    self.out.emit(&format!("builder.oracle.c20 {toks} {fees} {}", render(c, &res, "/")), "true");
    // hypotheses of c20_no_panic_partial: a panic must violate them, an ok must satisfy `Funded`
    match &res {
      Res::Panic(p) => self.out.emit(
        &format!("builder.oracle.partial {:016x} {toks} panic/{p}", c.rate_bits),
        "true",
      ),
      Res::Ok(_) => self.out.emit(&format!("builder.oracle.partial {:016x} {toks} ok", c.rate_bits), "true"),
      Res::Err(_) => {}
    }
    match &res {
      Res::Ok(tx) => {
        self.dist.hit("ok");
        self.dist.hit(&format!("ok_inputs_{}", tx.input.len().min(6)));
        self.dist.hit(&format!("ok_outputs_{}", tx.output.len()));
        if let Tgt::Exact(p) = c.target {
          if tx.output.iter().any(|o| o.script_pubkey.as_bytes() == c.recipient && o.value.to_sat() < p) {
            self.dist.hit("note_exact_postage_recipient_below_requested");
          }
        }
      }
      Res::Err(k) => self.dist.hit(&format!("err_{k}")),
      Res::Panic(p) => self.dist.hit(&format!("panic_{p}")),
    }
    self.dist.hit(match c.target {
      Tgt::Postage => "target_postage",
      Tgt::Value(_) => "target_value",
      Tgt::Exact(_) => "target_exact",
    });
  }
}

// ------------------------------------------------------------------ generator

fn h20(tag: u8) -> Vec<u8> {
  (0..20).map(|i| tag.wrapping_mul(31).wrapping_add(i)).collect()
}
fn h32(tag: u8) -> Vec<u8> {
  (0..32).map(|i| tag.wrapping_mul(17).wrapping_add(i)).collect()
}

/// address-able scripts: kind 0 p2tr, 1 p2wpkh, 2 p2pkh, 3 p2sh, 4 p2wsh, 5 witness v2 / 40 bytes
fn addr_script(kind: u64, tag: u8) -> Vec<u8> {
  match kind {
    0 => [vec![0x51, 0x20], h32(tag)].concat(),
    1 => [vec![0x00, 0x14], h20(tag)].concat(),
    2 => [vec![0x76, 0xa9, 0x14], h20(tag), vec![0x88, 0xac]].concat(),
    3 => [vec![0xa9, 0x14], h20(tag), vec![0x87]].concat(),
    4 => [vec![0x00, 0x20], h32(tag)].concat(),
    _ => [vec![0x52, 0x28], h32(tag), h20(tag)[..8].to_vec()].concat(),
  }
}

fn gen_change_kind(rng: &mut Rng) -> u64 {
  if rng.chance(3, 4) { 0 } else { rng.below(6) }
}

fn gen_recipient(rng: &mut Rng, dist: &mut Dist) -> Vec<u8> {
  match rng.below(20) {
    0..=5 => addr_script(0, 100 + rng.below(3) as u8),
    6..=8 => addr_script(1, 100 + rng.below(3) as u8),
    9..=10 => addr_script(2, 100 + rng.below(3) as u8),
    11 => addr_script(3, 100),
    12 => addr_script(4, 100),
    13 => addr_script(5, 100),
    14 => {
      // same pool as the change addresses: DuplicateAddress
      dist.hit("gen_recipient_from_change_pool");
      addr_script(gen_change_kind(rng), rng.below(3) as u8)
    }
    15..=17 => {
      dist.hit("gen_recipient_op_return");
      let n = *rng.pick(&[0usize, 1, 20, 40, 75]);
      let mut s = vec![0x6a];
      if n > 0 {
        s.push(n as u8);
        s.extend(rng.bytes(n));
      }
      s
    }
    18 => {
      dist.hit("gen_recipient_invalid_witness_program");
      [vec![0x00, 0x15], h20(7), vec![1]].concat()
    }
    _ => {
      dist.hit("gen_recipient_nonstandard");
      rng.pick(&[vec![], vec![0x51], vec![0x51, 0x01, 0x02], vec![0xac; 40]]).clone()
    }
  }
}

const RATES: [f64; 9] = [0.0, 0.5, 1.0, 2.5, 10.0, 100.0, 1000.0, 1e6, 1e300];

fn gen_rates(rng: &mut Rng) -> Vec<u64> {
  let mut v: Vec<f64> = RATES.to_vec();
  v.extend([0.3, 1.1, 3.7, 999.5]);
  for _ in 0..3 {
    v.push(rng.below(5000) as f64 / 1000.0);
  }
  v.push(rng.below(500_000) as f64 / 1000.0);
  v.push(rng.below(3_000_000) as f64 / 1000.0);
  v.iter().map(|r| r.to_bits()).collect()
}

fn near(rng: &mut Rng, x: u64) -> u64 {
  let d = rng.below(7);
  x.saturating_add(d).saturating_sub(3)
}

fn gen_case(rng: &mut Rng, rates: &[u64], dist: &mut Dist, max_utxos: u64) -> Case {
  let rate_bits = if rng.chance(2, 3) {
    rates[rng.below(9) as usize]
  } else {
    *rng.pick(rates)
  };
  let rate = rate_of(rate_bits);
  let fee = |n: usize| rate.fee(n).to_sat();
  let recipient = gen_recipient(rng, dist);
  let k0 = gen_change_kind(rng);
  let k1 = if rng.chance(5, 6) { k0 } else { gen_change_kind(rng) };
  let t0 = rng.below(3) as u8;
  let t1 = if rng.chance(1, 40) {
    t0
  } else {
    (t0 + 1 + rng.below(2) as u8) % 3
  };
  let change = [addr_script(k0, t0), addr_script(k1, t1)];
  let dust_r = ScriptBuf::from_bytes(recipient.clone()).minimal_non_dust().to_sat();
  let dust_c = ScriptBuf::from_bytes(change[0].clone()).minimal_non_dust().to_sat();
  // sizes of the typical shapes: 1 input / 1 output, +1 input, +1 output
  let base_vb = 11 + 58 + 9 + recipient.len();
  let interesting: Vec<u64> = vec![
    fee(base_vb),
    fee(base_vb + 43),
    fee(base_vb + 57),
    fee(base_vb + 58),
    fee(base_vb + 101),
    fee(43),
    fee(57),
    dust_r,
    dust_c,
    10_000,
    20_000,
  ];
  let n = rng.range(1, max_utxos) as usize;
  let mut ranks: Vec<u32> = Vec::new();
  while ranks.len() < n {
    let r = rng.below(14) as u32;
    if !ranks.contains(&r) {
      ranks.push(r);
    }
  }
  ranks.sort();
  let target = match rng.below(10) {
    0..=3 => Tgt::Postage,
    4..=6 => Tgt::Exact(match rng.below(8) {
      0 => 0,
      1 => near(rng, dust_r),
      2 => 546,
      3 => 10_000,
      4 => near(rng, 20_000),
      5 => rng.range(1, 100_000),
      6 => 100_000_000,
      _ => rng.u64_any_width() >> 12,
    }),
    _ => Tgt::Value(match rng.below(8) {
      0 => 0,
      1 => near(rng, dust_r),
      2 => 546,
      3 => 10_000,
      4 => near(rng, 20_000),
      5 => rng.range(1, 100_000),
      6 => 100_000_000,
      _ => rng.u64_any_width() >> 12,
    }),
  };
  let tv = match target {
    Tgt::Postage => 10_000,
    Tgt::Value(v) | Tgt::Exact(v) => v.min(1 << 50),
  };
  let value = |rng: &mut Rng| -> u64 {
    match rng.below(20) {
      0 => 0,
      1 => 1,
      2 => near(rng, dust_c),
      3 => 546,
      4 => 1000,
      5 => 10_000,
      6 => rng.range(19_800, 20_200),
      7..=9 => rng.range(65_000, 95_000),
      10 => 100_000_000,
      11 => 2_100_000_000_000_000,
      12..=15 => {
        // directed: target + a combination of the quantities the stages compare against
        let mut x = tv;
        for _ in 0..rng.range(1, 3) {
          x = x.saturating_add(*rng.pick(&interesting));
        }
        near(rng, x).min(1 << 51)
      }
      16 => {
        let x = *rng.pick(&interesting);
        near(rng, x).min(1 << 51)
      }
      17 => rng.range(0, 5000),
      _ => rng.u64_any_width() >> 13,
    }
  };
  let amounts: Vec<(u32, u64)> = ranks.iter().map(|r| (*r, value(rng))).collect();
  // outgoing
  let (out_rank, out_value) = if rng.chance(1, 40) {
    dist.hit("gen_outgoing_not_in_wallet");
    ((0..16).find(|r| !ranks.contains(r)).unwrap(), 0)
  } else {
    *rng.pick(&amounts)
  };
  let offset = match rng.below(12) {
    0..=4 => 0,
    5 => near(rng, dust_c),
    6 => out_value.saturating_sub(1),
    7 => out_value,
    8 => rng.below(out_value.max(1)),
    9 => rng.below(2000),
    10 => near(rng, out_value.saturating_sub(dust_r)),
    _ => rng.below(out_value.max(1)).min(rng.below(100_000)),
  };
  // inscriptions
  let mut ins: BTreeMap<(u32, u64), u32> = BTreeMap::new();
  let n_ins = *rng.pick(&[0u64, 0, 1, 1, 2, 3, 5]);
  for _ in 0..n_ins {
    let on_outgoing = rng.chance(1, 2);
    let r = if on_outgoing {
      out_rank
    } else if rng.chance(1, 10) {
      rng.below(16) as u32
    } else {
      rng.pick(&amounts).0
    };
    let v = amounts.iter().find(|a| a.0 == r).map(|a| a.1).unwrap_or(1000);
    let off = if on_outgoing {
      match rng.below(8) {
        0..=2 => offset,
        3 => offset.saturating_sub(near(rng, dust_c)),
        4 => offset.saturating_sub(rng.below(1000)),
        5 => offset.saturating_add(rng.below(1000)),
        6 => 0,
        _ => rng.below(v.max(1)),
      }
    } else {
      match rng.below(4) {
        0 => 0,
        1 => rng.below(v.max(1)),
        2 => v,
        _ => rng.below(100_000),
      }
    };
    ins.insert((r, off), rng.range(1, 3) as u32);
  }
  let inscriptions: Vec<(u32, u64, u32)> = ins.into_iter().map(|((r, o), n)| (r, o, n)).collect();
  let subset = |rng: &mut Rng| -> Vec<u32> {
    let mut s: BTreeSet<u32> = BTreeSet::new();
    if rng.chance(1, 2) {
      for (r, _) in &amounts {
        if rng.chance(1, 6) {
          s.insert(*r);
        }
      }
      if rng.chance(1, 8) {
        s.insert(rng.below(16) as u32);
      }
    }
    s.into_iter().collect()
  };
  let locked = subset(rng);
  let runic = subset(rng);
  Case {
    rate_bits,
    recipient,
    change,
    target,
    outgoing: (out_rank, offset),
    amounts,
    inscriptions,
    locked,
    runic,
  }
}

fn generate(args: &Args, rng: &mut Rng, e: &mut Engine) {
  let rates = gen_rates(rng);
  let max_utxos: u64 = args.get("max-utxos").map(|v| v.parse().unwrap()).unwrap_or(8);
  for _ in 0..args.cases {
    let c = gen_case(rng, &rates, &mut e.dist, max_utxos);
    e.emit_case(&c);
  }
}

fn replay(path: &std::path::Path, e: &mut Engine) {
  for line in replay_lines(path) {
    let toks: Vec<&str> = line.split(' ').filter(|t| !t.is_empty()).collect();
    match toks.as_slice() {
      ["builder.fee", bits, table] => {
        let ans = match u64::from_str_radix(bits, 16) {
          Ok(b) if FeeRate::try_from(f64::from_bits(b)).is_ok() && fee_table(b) == *table => {
            e.announced.insert(b);
            format!("ok {FEE_N}")
          }
          _ => "bad-op".into(),
        };
        e.out.emit(&line, &ans);
      }
      ["builder.build", bits, rest @ ..] => {
        match u64::from_str_radix(bits, 16)
          .ok()
          .filter(|b| FeeRate::try_from(f64::from_bits(*b)).is_ok())
          .and_then(|b| parse_case(b, rest))
        {
          // re-emits the build line (canonical) and a fresh oracle line
          Some(c) => e.emit_case(&c),
          None => e.out.emit(&line, "bad-op"),
        }
      }
      ["builder.oracle.feeformula", bits, _, _] => {
        // the model side compares the announced table of this rate with the closed formula
        match u64::from_str_radix(bits, 16) {
          Ok(b) if FeeRate::try_from(f64::from_bits(b)).is_ok() => {
            e.announce(b);
            e.out.emit(&line, "true");
          }
          _ => e.out.emit(&line, "bad-op"),
        }
      }
      ["builder.oracle.partial", bits, ..] => {
        match u64::from_str_radix(bits, 16) {
          Ok(b) if FeeRate::try_from(f64::from_bits(b)).is_ok() => {
            e.announce(b);
            e.out.emit(&line, "true");
          }
          _ => e.out.emit(&line, "bad-op"),
        }
      }
      // an oracle line carries the implementation's outcome; the model side decides
      [op, ..] if op.starts_with("builder.oracle.") => e.out.emit(&line, "true"),
      _ => e.out.emit(&line, "bad-op"),
    }
  }
}

fn main() {
  let args = Args::parse();
  assert_eq!(args.stream, "build", "unknown stream");
  // rank order must be BTreeMap<OutPoint> order
  let set: BTreeSet<OutPoint> = (0..64).map(outpoint).collect();
  assert!(set.iter().map(rank).eq(0..64), "rank order is not OutPoint order");
  if std::env::var("VERIF_LOUD").is_err() {
    silence_panics();
  }
  let mut e = Engine {
    out: Streams::create(&args.out),
    dist: Dist::default(),
    announced: HashSet::new(),
  };
  let mut rng = Rng::new(args.seed);
  if let Some(path) = &args.replay {
    replay(path, &mut e);
  } else {
    generate(&args, &mut rng, &mut e);
  }
  e.dist.write(&args.out);
  e.out.finish();
}
