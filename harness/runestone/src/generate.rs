//! Generators for the `runestone` stream.
//!
//! Case kinds (round robin, all random choices from the run's `Rng`):
//!   0,1  grammar-directed runestone -> real `encipher` -> transaction around it -> real
//!        `decipher`; round-trip oracle.  Mostly well-formed, sometimes one well-formedness
//!        condition is broken on purpose (the oracle then only checks the other clauses).
//!   2,3  integer-level message grammar / mutation (every flaw kind), encoded with the real
//!        varint encoder and pushed with random (also non-minimal) push opcodes.
//!   4    script-level mutation of kind 2 (non-push opcodes, truncation, PUSHDATA lengths,
//!        bad varints, several OP_RETURN outputs, OP_RETURN without OP_13, …).
//!   5    random bytes, with and without the `6a 5d` prefix.
//! Every transaction gets the decipher line plus the `none` / `flaw` / `keeps` oracle lines.
use {super::*, ordinals::varint};

const MAX_SPACERS: u128 = Etching::MAX_SPACERS as u128;

fn interesting(rng: &mut Rng) -> u128 {
  const FIXED: &[u128] = &[
    0,
    1,
    2,
    3,
    4,
    7,
    8,
    37,
    38,
    39,
    127,
    128,
    255,
    256,
    0xD7FF,
    0xD800,
    0xDFFF,
    0xE000,
    0x10FFFF,
    0x110000,
    MAX_SPACERS - 1,
    MAX_SPACERS,
    MAX_SPACERS + 1,
    u32::MAX as u128 - 1,
    u32::MAX as u128,
    u32::MAX as u128 + 1,
    u64::MAX as u128 - 1,
    u64::MAX as u128,
    u64::MAX as u128 + 1,
    u128::MAX - 1,
    u128::MAX,
    1 << 127,
  ];
  if rng.chance(1, 2) {
    *rng.pick(FIXED)
  } else {
    rng.u128_any_width()
  }
}

fn gen_id(rng: &mut Rng, valid_only: bool) -> RuneId {
  let block = match rng.below(8) {
    0 => 0,
    1 | 2 => 1,
    3 => 2,
    4 => 840_000,
    5 => u64::MAX,
    6 => u64::MAX - 1,
    _ => rng.u64_any_width(),
  };
  let tx = match rng.below(6) {
    0 | 1 => 0,
    2 => 1,
    3 => 2,
    4 => u32::MAX,
    _ => rng.u64_any_width() as u32,
  };
  if valid_only && block == 0 {
    RuneId { block: 0, tx: 0 }
  } else {
    RuneId { block, tx }
  }
}

fn gen_char(rng: &mut Rng) -> char {
  match rng.below(8) {
    0 => '\0',
    1 => '$',
    2 => '\u{D7FF}',
    3 => '\u{E000}',
    4 => '\u{10FFFF}',
    5 => '¢',
    _ => loop {
      if let Some(c) = char::from_u32(rng.below(0x110000) as u32) {
        break c;
      }
    },
  }
}

fn some<T>(rng: &mut Rng, f: impl FnOnce(&mut Rng) -> T) -> Option<T> {
  if rng.chance(1, 2) { Some(f(rng)) } else { None }
}

/// a runestone for a transaction with `n` outputs; `breakage` selects one well-formedness
/// condition to violate (0 = none)
pub fn gen_runestone(rng: &mut Rng, n: u32, breakage: u64, dist: &mut Dist) -> Runestone {
  let count = match rng.below(10) {
    0..=3 => 0,
    4 | 5 => 1,
    6 => 2,
    7 | 8 => rng.range(3, 8),
    _ => rng.range(9, 140),
  };
  // a small pool of ids so that repeated ids are common
  let pool: Vec<RuneId> = (0..rng.range(1, 5)).map(|_| gen_id(rng, true)).collect();
  let mut edicts = Vec::new();
  for _ in 0..count {
    let id = if rng.chance(3, 4) {
      *rng.pick(&pool)
    } else {
      gen_id(rng, true)
    };
    let output = match rng.below(4) {
      0 => n,
      1 => 0,
      _ => rng.below(u64::from(n) + 1) as u32,
    };
    edicts.push(Edict {
      id,
      amount: interesting(rng),
      output,
    });
  }
  let etching = some(rng, |rng| {
    let terms = some(rng, |rng| {
      // mostly keep cap * amount inside u128
      let wa = rng.below(64) as u32;
      let wc = rng.below(63) as u32;
      Terms {
        amount: some(rng, |rng| rng.next_u128() >> (127 - wa)),
        cap: some(rng, |rng| rng.next_u128() >> (127 - wc)),
        height: (some(rng, |rng| rng.u64_any_width()), some(rng, |rng| rng.u64_any_width())),
        offset: (some(rng, |rng| rng.u64_any_width()), some(rng, |rng| rng.u64_any_width())),
      }
    });
    Etching {
      divisibility: some(rng, |rng| match rng.below(4) {
        0 => 0,
        1 => 38,
        _ => rng.below(39) as u8,
      }),
      premine: some(rng, |rng| rng.next_u128() >> rng.range(1, 127)),
      rune: some(rng, |rng| Rune(interesting(rng))),
      spacers: some(rng, |rng| match rng.below(4) {
        0 => 0,
        1 => Etching::MAX_SPACERS,
        _ => rng.below(u64::from(Etching::MAX_SPACERS) + 1) as u32,
      }),
      symbol: some(rng, gen_char),
      terms,
      turbo: rng.chance(1, 2),
    }
  });
  let mint = if rng.chance(2, 5) { Some(gen_id(rng, true)) } else { None };
  let pointer = if rng.chance(2, 5) && n > 0 {
    Some(rng.below(u64::from(n)) as u32)
  } else {
    None
  };
  let mut r = Runestone {
    edicts,
    etching,
    mint,
    pointer,
  };
  match breakage {
    1 => {
      let e = r.etching.get_or_insert_with(Etching::default);
      e.divisibility = Some(*rng.pick(&[39u8, 40, 255]));
      dist.hit("rt_break_divisibility");
    }
    2 => {
      let e = r.etching.get_or_insert_with(Etching::default);
      e.spacers = Some(*rng.pick(&[Etching::MAX_SPACERS + 1, u32::MAX]));
      dist.hit("rt_break_spacers");
    }
    3 => {
      r.pointer = Some(*rng.pick(&[n, n.saturating_add(1), u32::MAX]));
      dist.hit("rt_break_pointer");
    }
    4 => {
      r.mint = Some(RuneId {
        block: 0,
        tx: rng.range(1, 9) as u32,
      });
      dist.hit("rt_break_mint");
    }
    5 => {
      let at = rng.below(r.edicts.len() as u64 + 1) as usize;
      r.edicts.insert(
        at,
        Edict {
          id: RuneId {
            block: 0,
            tx: rng.range(1, 9) as u32,
          },
          amount: 1,
          output: 0,
        },
      );
      dist.hit("rt_break_edict_id");
    }
    6 => {
      let at = rng.below(r.edicts.len() as u64 + 1) as usize;
      r.edicts.insert(
        at,
        Edict {
          id: gen_id(rng, true),
          amount: 1,
          output: *rng.pick(&[n.saturating_add(1), u32::MAX]),
        },
      );
      dist.hit("rt_break_edict_output");
    }
    7 => {
      let e = r.etching.get_or_insert_with(Etching::default);
      let mut t = e.terms.unwrap_or_default();
      match rng.below(3) {
        0 => {
          e.premine = Some(u128::MAX);
          t.cap = Some(1);
          t.amount = Some(rng.range(1, 5).into());
        }
        1 => {
          t.cap = Some(u128::from(u64::MAX) + 1);
          t.amount = Some(u128::from(u64::MAX) + 1);
        }
        _ => {
          e.premine = Some(1);
          t.cap = Some(u128::MAX);
          t.amount = Some(1);
        }
      }
      e.terms = Some(t);
      dist.hit("rt_break_supply");
    }
    _ => {}
  }
  r
}

/// an output script that does not start with OP_RETURN OP_13
fn filler(rng: &mut Rng) -> Vec<u8> {
  match rng.below(10) {
    0 => vec![],
    1 => {
      let mut s = vec![0x00, 0x14];
      s.extend(rng.bytes(20));
      s
    }
    2 => vec![0x6a],
    3 => vec![0x6a, 0x04, 0xde, 0xad, 0xbe, 0xef],
    4 => vec![0x6a, 0x01, 0x5d],
    5 => vec![0x4c],
    6 => vec![0x6a, 0x4c],
    7 => vec![0x6a, 0x5c, 0x01, 0x00],
    8 => vec![0x5d, 0x6a],
    _ => {
      let mut s = vec![0x51, 0x20];
      s.extend(rng.bytes(32));
      s
    }
  }
}

/// any output script, possibly one starting with OP_RETURN OP_13
fn any_output(rng: &mut Rng) -> Vec<u8> {
  match rng.below(4) {
    0 => vec![0x6a, 0x5d],
    1 => vec![0x6a, 0x5d, 0x51],
    2 => {
      let mut s = vec![0x6a, 0x5d];
      let n = rng.below(6) as usize;
      s.extend(rng.bytes(n));
      s
    }
    _ => filler(rng),
  }
}

/// place `script` in a transaction: non-matching outputs before it, arbitrary ones after it
fn surround(rng: &mut Rng, script: Vec<u8>) -> (usize, Vec<Vec<u8>>) {
  let before = match rng.below(4) {
    0 | 1 => 0,
    2 => 1,
    _ => rng.range(2, 4),
  };
  let after = match rng.below(4) {
    0 | 1 => 0,
    2 => 1,
    _ => rng.range(2, 5),
  };
  let mut scripts: Vec<Vec<u8>> = (0..before).map(|_| filler(rng)).collect();
  scripts.push(script);
  for _ in 0..after {
    scripts.push(any_output(rng));
  }
  // padding outputs with empty scripts: sometimes many, to move `n` around
  let pad = match rng.below(8) {
    0 => rng.range(1, 300) as usize,
    1 => rng.range(1, 4) as usize,
    _ => 0,
  };
  (scripts.len() + pad, scripts)
}

fn join_scripts(scripts: &[Vec<u8>]) -> String {
  scripts.iter().map(|s| hex(s)).collect::<Vec<_>>().join(" ")
}

fn classify(ans: &str, dist: &mut Dist) {
  let key = if ans.starts_with("ok none") {
    "dec_none".to_string()
  } else if ans.starts_with("ok R|") {
    "dec_runestone".to_string()
  } else if let Some(rest) = ans.strip_prefix("ok C|") {
    format!("dec_cenotaph_{}", rest.split('|').next().unwrap_or(""))
  } else {
    "dec_panic".to_string()
  };
  dist.hit(&key);
}

/// decipher line + oracle lines for one transaction; returns the artifact text
fn emit_tx(out: &mut Streams, dist: &mut Dist, n: usize, scripts: &[Vec<u8>]) -> String {
  let (ans, _) = decipher_str(n, scripts);
  let tail = if scripts.is_empty() {
    format!("{n}")
  } else {
    format!("{n} {}", join_scripts(scripts))
  };
  out.emit(&format!("runestone.decipher {tail}"), &ans);
  classify(&ans, dist);
  if let Some(art) = ans.strip_prefix("ok ") {
    out.emit(&format!("runestone.oracle.none {art} {tail}"), "true");
    out.emit(&format!("runestone.oracle.flaw {art} {tail}"), "true");
    out.emit(&format!("runestone.oracle.keeps {art} {tail}"), "true");
    art.to_string()
  } else {
    // a panic is a violation of the totality clause: make the oracle line fail
    out.emit(&format!("runestone.oracle.none panic {tail}"), "true");
    "panic".into()
  }
}

fn emit_instructions(out: &mut Streams, script: &[u8]) {
  out.emit(
    &format!("script.instructions {}", hex(script)),
    &instructions_str(script),
  );
}

fn case_roundtrip(rng: &mut Rng, out: &mut Streams, dist: &mut Dist) {
  // choose the shape of the transaction first: the runestone depends on the output count
  let before = match rng.below(4) {
    0 | 1 => 0,
    2 => 1,
    _ => rng.range(2, 4),
  } as usize;
  let after = match rng.below(4) {
    0 | 1 => 0,
    2 => 1,
    _ => rng.range(2, 5),
  } as usize;
  let pad = match rng.below(8) {
    0 => rng.range(1, 300) as usize,
    1 => rng.range(1, 4) as usize,
    _ => 0,
  };
  let n = before + 1 + after + pad;
  let breakage = if rng.chance(1, 6) { rng.range(1, 7) } else { 0 };
  let r = gen_runestone(rng, n as u32, breakage, dist);
  let text = render_runestone(&r);
  let (ans, script) = encipher_str(&r);
  out.emit(&format!("runestone.encipher {text}"), &ans);
  let Some(script) = script else {
    dist.hit("encipher_panic");
    // a panic of encipher on a typed runestone: fail an oracle line
    out.emit(&format!("runestone.oracle.rt {n} {text} panic"), "true");
    return;
  };
  dist.hit(&format!("rt_edicts_{}", match r.edicts.len() {
    0 => "0",
    1 => "1",
    2..=8 => "2to8",
    _ => "9plus",
  }));
  if r.etching.is_some() {
    dist.hit("rt_etching");
  }
  if r.etching.and_then(|e| e.terms).is_some() {
    dist.hit("rt_terms");
  }
  if r.mint.is_some() {
    dist.hit("rt_mint");
  }
  if r.pointer.is_some() {
    dist.hit("rt_pointer");
  }
  dist.hit(&format!("rt_script_len_{}", match script.len() {
    0..=77 => "direct",
    78..=257 => "pushdata1",
    _ => "pushdata2",
  }));
  emit_instructions(out, &script);
  let mut scripts: Vec<Vec<u8>> = (0..before).map(|_| filler(rng)).collect();
  scripts.push(script);
  for _ in 0..after {
    scripts.push(any_output(rng));
  }
  let art = emit_tx(out, dist, n, &scripts);
  out.emit(&format!("runestone.oracle.rt {n} {text} {art}"), "true");
  if breakage == 0 {
    dist.hit("rt_wellformed");
  }
}

/// one tag/value pair for a known tag, value around the tag's acceptance boundary
fn known_value(rng: &mut Rng, tag: u128, n: usize) -> u128 {
  let n = n as u128;
  let specific: &[u128] = match tag {
    1 => &[0, 1, 37, 38, 39, 255, 256],
    3 => &[0, 1, MAX_SPACERS - 1, MAX_SPACERS, MAX_SPACERS + 1, 0xFFFF_FFFF, 0x1_0000_0000],
    5 => &[0, 0x24, 0xD7FF, 0xD800, 0xDFFF, 0xE000, 0x10FFFF, 0x110000, 0xFFFF_FFFF, 0x1_0000_0000],
    12 | 14 | 16 | 18 => &[0, 1, 0xFFFF_FFFF_FFFF_FFFF, 0x1_0000_0000_0000_0000, u128::MAX],
    22 => &[0, 1, 0xFFFF_FFFF, 0x1_0000_0000],
    _ => &[0, 1, 2, u128::MAX],
  };
  match rng.below(4) {
    0 | 1 => *rng.pick(specific),
    2 if tag == 22 => match rng.below(3) {
      0 => n.saturating_sub(1),
      1 => n,
      _ => n + 1,
    },
    _ => interesting(rng),
  }
}

/// an integer message from the message grammar; `n` = number of outputs of the transaction
pub fn gen_message(rng: &mut Rng, n: usize, dist: &mut Dist) -> Vec<u128> {
  let mut ints: Vec<u128> = Vec::new();
  // flags
  let flags: Option<u128> = match rng.below(12) {
    0 | 1 => None,
    2 => Some(0),
    3 | 4 => Some(1),
    5 => Some(3),
    6 => Some(5),
    7 => Some(7),
    8 => Some(*rng.pick(&[2u128, 4, 6])),
    9 => Some(*rng.pick(&[8u128, 9, 15, 16, (1 << 127) | 1, 1 << 127, u128::MAX])),
    _ => Some(rng.below(16).into()),
  };
  let mut pairs: Vec<(u128, u128)> = Vec::new();
  if let Some(f) = flags {
    pairs.push((2, f));
  }
  const KNOWN: &[u128] = &[1, 3, 4, 5, 6, 8, 10, 12, 14, 16, 18, 22];
  for &tag in KNOWN {
    // fields belonging to an etching / terms are more likely when the flag is set
    let wanted = match tag {
      1 | 3 | 4 | 5 | 6 => flags.is_some_and(|f| f & 1 == 1),
      8 | 10 | 12 | 14 | 16 | 18 => flags.is_some_and(|f| f & 3 == 3),
      _ => true,
    };
    let p = if wanted { 2 } else { 12 };
    if rng.chance(1, p) {
      pairs.push((tag, known_value(rng, tag, n)));
      if rng.chance(1, 12) {
        pairs.push((tag, known_value(rng, tag, n)));
        dist.hit("msg_duplicate_tag");
      }
    }
  }
  // mint: two values, sometimes one or three, sometimes invalid
  if rng.chance(1, 3) {
    let valid = rng.chance(5, 6);
    let id = gen_id(rng, valid);
    let mut vals: Vec<u128> = vec![id.block.into(), id.tx.into()];
    match rng.below(10) {
      0 => {
        vals.pop();
        dist.hit("msg_partial_mint");
      }
      1 => vals.push(interesting(rng)),
      2 => vals[0] = u128::from(u64::MAX) + 1,
      3 => vals[1] = u128::from(u32::MAX) + 1,
      _ => {}
    }
    for v in vals {
      pairs.push((20, v));
    }
  }
  // unknown tags
  if rng.chance(1, 6) {
    let tag = *rng.pick(&[7u128, 9, 11, 127, 129, (1 << 64) + 1, u128::MAX]);
    pairs.push((tag, interesting(rng)));
    dist.hit("msg_unknown_odd_tag");
  }
  if rng.chance(1, 10) {
    let tag = *rng.pick(&[24u128, 26, 126, 128, 1 << 64, u128::MAX - 1]);
    pairs.push((tag, interesting(rng)));
    dist.hit("msg_unknown_even_tag");
  }
  // order: mostly the canonical order, sometimes shuffled
  if rng.chance(1, 3) {
    for i in (1..pairs.len()).rev() {
      let j = rng.below(i as u64 + 1) as usize;
      pairs.swap(i, j);
    }
  }
  for (t, v) in pairs {
    ints.push(t);
    ints.push(v);
  }
  // body
  if rng.chance(1, 2) {
    ints.push(0);
    let count = match rng.below(6) {
      0 => 0,
      1 | 2 => 1,
      3 => 2,
      _ => rng.range(3, 12),
    };
    for k in 0..count {
      let bad = rng.chance(1, 14);
      let block: u128 = if bad {
        *rng.pick(&[u128::from(u64::MAX), u128::from(u64::MAX) + 1, u128::MAX, 0])
      } else {
        match rng.below(4) {
          0 => 0,
          1 => 1,
          _ => rng.below(1000).into(),
        }
      };
      let tx: u128 = if bad {
        *rng.pick(&[u128::from(u32::MAX), u128::from(u32::MAX) + 1, u128::MAX, 1])
      } else if k == 0 && block == 0 {
        // 0:0 is fine, 0:k is not
        if rng.chance(1, 8) { 1 } else { 0 }
      } else {
        rng.below(4).into()
      };
      let output: u128 = match rng.below(12) {
        0 => n as u128 + 1,
        1 => u128::from(u32::MAX),
        2 => u128::from(u32::MAX) + 1,
        3 | 4 => n as u128,
        _ => rng.below(n as u64 + 1).into(),
      };
      ints.extend([block, tx, interesting(rng), output]);
    }
    if rng.chance(1, 6) {
      for _ in 0..rng.range(1, 3) {
        ints.push(interesting(rng));
      }
      dist.hit("msg_trailing");
    }
  } else if rng.chance(1, 8) {
    // dangling tag
    ints.push(*rng.pick(&[2u128, 4, 1, 22, 99, 20]));
    dist.hit("msg_dangling_tag");
  }
  // point mutations
  if rng.chance(1, 5) && !ints.is_empty() {
    match rng.below(3) {
      0 => {
        let at = rng.below(ints.len() as u64) as usize;
        ints[at] = interesting(rng);
      }
      1 => {
        let at = rng.below(ints.len() as u64) as usize;
        ints.remove(at);
      }
      _ => {
        let at = rng.below(ints.len() as u64 + 1) as usize;
        ints.insert(at, interesting(rng));
      }
    }
    dist.hit("msg_point_mutation");
  }
  ints
}

/// one data push with a randomly chosen (possibly non-minimal) push opcode
fn push_any(rng: &mut Rng, script: &mut Vec<u8>, data: &[u8]) {
  let n = data.len();
  let kind = rng.below(8);
  if n <= 75 && kind < 5 {
    script.push(n as u8);
  } else if n <= 0xff && kind < 6 {
    script.extend([0x4c, n as u8]);
  } else if n <= 0xffff && kind < 7 {
    script.extend([0x4d, n as u8, (n >> 8) as u8]);
  } else {
    script.extend([0x4e, n as u8, (n >> 8) as u8, (n >> 16) as u8, (n >> 24) as u8]);
  }
  script.extend_from_slice(data);
}

/// `OP_RETURN OP_13` followed by pushes of the payload split at random points
fn script_for_payload(rng: &mut Rng, payload: &[u8]) -> Vec<u8> {
  let mut script = vec![0x6a, 0x5d];
  let mut i = 0;
  if payload.is_empty() && rng.chance(1, 2) {
    push_any(rng, &mut script, &[]);
  }
  while i < payload.len() {
    let left = payload.len() - i;
    let len = match rng.below(6) {
      0 => 1,
      1 => rng.range(1, 3) as usize,
      2 => 75,
      3 => 76,
      _ => left,
    }
    .min(left);
    if rng.chance(1, 10) {
      script.push(0x00); // OP_0 = empty push
    }
    push_any(rng, &mut script, &payload[i..i + len]);
    i += len;
  }
  script
}

fn payload_of(ints: &[u128]) -> Vec<u8> {
  let mut p = Vec::new();
  for &i in ints {
    varint::encode_to_vec(i, &mut p);
  }
  p
}

fn case_message(rng: &mut Rng, out: &mut Streams, dist: &mut Dist) {
  let n_hint = rng.range(1, 6) as usize;
  let ints = gen_message(rng, n_hint, dist);
  let script = script_for_payload(rng, &payload_of(&ints));
  let (n, scripts) = if rng.chance(1, 2) {
    // exactly n_hint outputs
    let mut scripts = vec![script];
    let _ = &mut scripts;
    (n_hint, scripts)
  } else {
    surround(rng, script)
  };
  emit_tx(out, dist, n.max(scripts.len()), &scripts);
}

const NON_PUSH: &[u8] = &[
  0x4f, 0x50, 0x51, 0x52, 0x5d, 0x60, 0x61, 0x62, 0x65, 0x66, 0x6a, 0x75, 0x87, 0xac, 0xb0, 0xba, 0xfe,
  0xff,
];

fn case_script_mutation(rng: &mut Rng, out: &mut Streams, dist: &mut Dist) {
  let n_hint = rng.range(1, 4) as usize;
  let ints = gen_message(rng, n_hint, dist);
  let mut payload = payload_of(&ints);
  let kind = rng.below(12);
  // varint-level damage first
  match kind {
    0 => {
      payload.push(0x80 | rng.below(128) as u8);
      dist.hit("mut_varint_unterminated");
    }
    1 => {
      let at = rng.below(payload.len() as u64 + 1) as usize;
      let mut bad = vec![0x80u8; 18];
      bad.push(*rng.pick(&[0x04u8, 0x7f, 0x84]));
      bad.push(0x00);
      payload.splice(at..at, bad);
      dist.hit("mut_varint_overflow");
    }
    2 => {
      let at = rng.below(payload.len() as u64 + 1) as usize;
      let mut bad = vec![0x80u8; 19];
      bad.push(0x00);
      payload.splice(at..at, bad);
      dist.hit("mut_varint_overlong");
    }
    3 => {
      // non-canonical but valid varints
      let at = rng.below(payload.len() as u64 + 1) as usize;
      payload.splice(at..at, [0x80, 0x80, 0x00, 0x81, 0x00]);
      dist.hit("mut_varint_noncanonical");
    }
    _ => {}
  }
  let mut script = script_for_payload(rng, &payload);
  match kind {
    4 => {
      // a non-push opcode somewhere after the prefix (instruction boundary or not)
      let at = rng.range(2, script.len() as u64) as usize;
      script.insert(at, *rng.pick(NON_PUSH));
      dist.hit("mut_opcode_insert");
    }
    5 => {
      script.push(*rng.pick(NON_PUSH));
      dist.hit("mut_opcode_append");
    }
    6 => {
      let at = rng.below(script.len() as u64 + 1) as usize;
      script.truncate(at);
      dist.hit("mut_truncate");
    }
    7 => {
      // truncated push at the end
      match rng.below(5) {
        0 => script.push(rng.range(1, 75) as u8),
        1 => script.push(0x4c),
        2 => script.extend([0x4c, 0x05, 0x01]),
        3 => script.extend([0x4d, 0x01]),
        _ => script.extend([0x4e, 0xff, 0xff, 0xff, 0xff, 0x00]),
      }
      dist.hit("mut_truncated_push");
    }
    8 => {
      if script.len() > 2 {
        let at = rng.range(2, script.len() as u64 - 1) as usize;
        script[at] = rng.next_u64() as u8;
      }
      dist.hit("mut_byte");
    }
    9 => {
      // damage the prefix
      match rng.below(5) {
        0 => script[1] = 0x5c,
        1 => script[1] = 0x5e,
        2 => script[0] = 0x6b,
        3 => {
          script.insert(1, 0x01); // OP_RETURN PUSH(5d)
        }
        _ => {
          script.insert(0, 0x00);
        }
      }
      dist.hit("mut_prefix");
    }
    _ => {}
  }
  emit_instructions(out, &script);
  // several OP_RETURN outputs: only the first matching one counts
  let (n, scripts) = if kind >= 10 {
    dist.hit("mut_multi_op_return");
    let mut scripts = Vec::new();
    for _ in 0..rng.range(0, 2) {
      scripts.push(filler(rng));
    }
    scripts.push(script);
    let other = gen_message(rng, n_hint, dist);
    let other_script = script_for_payload(rng, &payload_of(&other));
    scripts.push(other_script);
    if rng.chance(1, 2) {
      let last = 1.min(scripts.len() - 1);
      scripts.swap(0, last);
    }
    (scripts.len(), scripts)
  } else {
    surround(rng, script)
  };
  emit_tx(out, dist, n.max(scripts.len()), &scripts);
}

fn case_random(rng: &mut Rng, out: &mut Streams, dist: &mut Dist) {
  let len = rng.below(40) as usize;
  let mut script = rng.bytes(len);
  match rng.below(4) {
    0 | 1 => {
      script.splice(0..0, [0x6a, 0x5d]);
      dist.hit("rand_prefixed");
    }
    2 => {
      // prefixed, and made of plausible small pushes
      let mut s = vec![0x6a, 0x5d];
      for _ in 0..rng.below(6) {
        let k = rng.below(5) as usize;
        let data = rng.bytes(k);
        push_any(rng, &mut s, &data);
      }
      script = s;
      dist.hit("rand_pushes");
    }
    _ => dist.hit("rand_raw"),
  }
  emit_instructions(out, &script);
  let (n, scripts) = if rng.chance(1, 2) {
    (1, vec![script])
  } else {
    surround(rng, script)
  };
  emit_tx(out, dist, n.max(scripts.len()), &scripts);
}

fn fixed_cases(out: &mut Streams, dist: &mut Dist, exhaustive: usize) {
  // transactions without outputs / without a match
  emit_tx(out, dist, 0, &[]);
  emit_tx(out, dist, 1, &[vec![]]);
  emit_tx(out, dist, 3, &[]);
  emit_tx(out, dist, 1, &[vec![0x6a]]);
  emit_tx(out, dist, 1, &[vec![0x6a, 0x5d]]);
  emit_tx(out, dist, 2, &[vec![0x6a, 0x5d, 0x00]]);
  // the default runestone and a few hand-picked ones
  for text in [
    "R|-|-|-|-",
    "R|E:-:-:-:-:-:0:-|-|-|-",
    "R|E:0:0:0:0:0:1:T/0/0/0/0/0/0|0:0|0|0:0:0:0",
    "R|E:38:340282366920938463463374607431768211455:340282366920938463463374607431768211455:134217727:1114111:1:T/-/-/18446744073709551615/18446744073709551615/18446744073709551615/18446744073709551615|18446744073709551615:4294967295|0|18446744073709551615:4294967295:340282366920938463463374607431768211455:1,18446744073709551615:4294967295:0:0,1:0:5:1",
  ] {
    let r = parse_runestone(text).unwrap();
    let (ans, script) = encipher_str(&r);
    out.emit(&format!("runestone.encipher {text}"), &ans);
    let script = script.unwrap();
    let art = emit_tx(out, dist, 1, &[script]);
    out.emit(&format!("runestone.oracle.rt 1 {text} {art}"), "true");
  }
  // push_slice at every length-prefix boundary
  for len in [0usize, 1, 2, 74, 75, 76, 77, 254, 255, 256, 257, 65535, 65536, 65537] {
    let data: Vec<u8> = (0..len).map(|i| (i * 7 + 3) as u8).collect();
    out.emit(&format!("script.pushslice {}", hex(&data)), &pushslice_str(&data));
    let mut script = vec![0x6a, 0x5d];
    script.extend(ScriptBuf::builder().push_slice(PushBytesBuf::try_from(data).unwrap()).into_bytes());
    emit_instructions(out, &script);
  }
  // exhaustive: every script `6a 5d b` / `6a 5d b c` (/ `6a 5d b c d` with --exhaustive 3)
  for len in 1..=exhaustive {
    let total = 256u64.pow(len as u32);
    for x in 0..total {
      let mut s = vec![0x6a, 0x5d];
      s.extend((0..len).map(|i| (x >> (8 * i)) as u8));
      if len <= 2 {
        emit_instructions(out, &s);
      }
      emit_tx(out, dist, 1, &[s]);
    }
  }
  // every single byte and byte pair as a whole script (instruction iterator only)
  for a in 0..=255u8 {
    emit_instructions(out, &[a]);
    emit_tx(out, dist, 1, &[vec![a, 0x5d]]);
    emit_tx(out, dist, 1, &[vec![0x6a, a]]);
  }
}

pub fn generate(args: &Args, rng: &mut Rng, out: &mut Streams, dist: &mut Dist) {
  let exhaustive: usize = args.get("exhaustive").map(|v| v.parse().unwrap()).unwrap_or(0);
  if exhaustive > 0 {
    fixed_cases(out, dist, exhaustive);
  }
  for case in 0..args.cases {
    match case % 6 {
      0 | 1 => case_roundtrip(rng, out, dist),
      2 | 3 => case_message(rng, out, dist),
      4 => case_script_mutation(rng, out, dist),
      _ => case_random(rng, out, dist),
    }
  }
}
