//! Correspondence harness for property C25 (runestones): runs the real
//! `Runestone::decipher(&Transaction)` / `Runestone::encipher()` (crate `ordinals`) and the real
//! rust-bitcoin script iterator / builder, and writes request lines (`ops.txt`) plus the
//! implementation's answers (`impl.out`).
//!
//! Canonical text forms (shared with `lean/Driver/Runestone.lean`):
//!   artifact := `none` | `R|<etching>|<mint>|<pointer>|<edicts>` | `C|<flaw>|<rune>|<mint>`
//!   etching  := `-` | `E:<div>:<premine>:<rune>:<spacers>:<symbol>:<turbo>:<terms>`
//!   terms    := `-` | `T/<amount>/<cap>/<hstart>/<hend>/<ostart>/<oend>`
//!   mint     := `-` | `<block>:<tx>`;  edicts := `-` | `<block>:<tx>:<amount>:<output>,…`
use {
  bitcoin::{
    Amount, ScriptBuf, Transaction, TxOut, absolute::LockTime, script::Instruction,
    script::PushBytesBuf, transaction::Version,
  },
  common::*,
  ordinals::{Artifact, Edict, Etching, Flaw, Rune, RuneId, Runestone, Terms},
};

mod generate;

const MAX_OUTPUTS: usize = 100_000;

fn opt<T: ToString>(o: Option<T>) -> String {
  o.map(|v| v.to_string()).unwrap_or_else(|| "-".into())
}

fn render_id(id: Option<RuneId>) -> String {
  id.map(|i| format!("{}:{}", i.block, i.tx))
    .unwrap_or_else(|| "-".into())
}

fn render_terms(t: Option<Terms>) -> String {
  match t {
    None => "-".into(),
    Some(t) => format!(
      "T/{}/{}/{}/{}/{}/{}",
      opt(t.amount),
      opt(t.cap),
      opt(t.height.0),
      opt(t.height.1),
      opt(t.offset.0),
      opt(t.offset.1)
    ),
  }
}

fn render_etching(e: Option<Etching>) -> String {
  match e {
    None => "-".into(),
    Some(e) => format!(
      "E:{}:{}:{}:{}:{}:{}:{}",
      opt(e.divisibility),
      opt(e.premine),
      opt(e.rune.map(|r| r.0)),
      opt(e.spacers),
      opt(e.symbol.map(u32::from)),
      u8::from(e.turbo),
      render_terms(e.terms)
    ),
  }
}

pub fn render_runestone(r: &Runestone) -> String {
  let edicts = if r.edicts.is_empty() {
    "-".to_string()
  } else {
    r.edicts
      .iter()
      .map(|e| format!("{}:{}:{}:{}", e.id.block, e.id.tx, e.amount, e.output))
      .collect::<Vec<_>>()
      .join(",")
  };
  format!(
    "R|{}|{}|{}|{}",
    render_etching(r.etching),
    render_id(r.mint),
    opt(r.pointer),
    edicts
  )
}

fn flaw_name(f: Flaw) -> &'static str {
  match f {
    Flaw::EdictOutput => "edict-output",
    Flaw::EdictRuneId => "edict-rune-id",
    Flaw::InvalidScript => "invalid-script",
    Flaw::Opcode => "opcode",
    Flaw::SupplyOverflow => "supply-overflow",
    Flaw::TrailingIntegers => "trailing-integers",
    Flaw::TruncatedField => "truncated-field",
    Flaw::UnrecognizedEvenTag => "unrecognized-even-tag",
    Flaw::UnrecognizedFlag => "unrecognized-flag",
    Flaw::Varint => "varint",
  }
}

pub fn render_artifact(a: &Option<Artifact>) -> String {
  match a {
    None => "none".into(),
    Some(Artifact::Runestone(r)) => render_runestone(r),
    Some(Artifact::Cenotaph(c)) => format!(
      "C|{}|{}|{}",
      c.flaw.map(flaw_name).unwrap_or("-"),
      opt(c.etching.map(|r| r.0)),
      render_id(c.mint)
    ),
  }
}

fn p_opt<T: std::str::FromStr>(s: &str) -> Option<Option<T>> {
  if s == "-" {
    Some(None)
  } else {
    s.parse::<T>().ok().map(Some)
  }
}

fn p_id(s: &str) -> Option<RuneId> {
  let (b, t) = s.split_once(':')?;
  Some(RuneId {
    block: b.parse().ok()?,
    tx: t.parse().ok()?,
  })
}

fn p_terms(s: &str) -> Option<Option<Terms>> {
  if s == "-" {
    return Some(None);
  }
  let p: Vec<&str> = s.split('/').collect();
  if p.len() != 7 || p[0] != "T" {
    return None;
  }
  Some(Some(Terms {
    amount: p_opt(p[1])?,
    cap: p_opt(p[2])?,
    height: (p_opt(p[3])?, p_opt(p[4])?),
    offset: (p_opt(p[5])?, p_opt(p[6])?),
  }))
}

fn p_etching(s: &str) -> Option<Option<Etching>> {
  if s == "-" {
    return Some(None);
  }
  let p: Vec<&str> = s.split(':').collect();
  if p.len() != 8 || p[0] != "E" {
    return None;
  }
  let symbol = match p_opt::<u32>(p[5])? {
    None => None,
    Some(v) => Some(char::from_u32(v)?),
  };
  Some(Some(Etching {
    divisibility: p_opt(p[1])?,
    premine: p_opt(p[2])?,
    rune: p_opt::<u128>(p[3])?.map(Rune),
    spacers: p_opt(p[4])?,
    symbol,
    turbo: match p[6] {
      "1" => true,
      "0" => false,
      _ => return None,
    },
    terms: p_terms(p[7])?,
  }))
}

pub fn parse_runestone(s: &str) -> Option<Runestone> {
  let p: Vec<&str> = s.split('|').collect();
  if p.len() != 5 || p[0] != "R" {
    return None;
  }
  let mut edicts = Vec::new();
  if p[4] != "-" {
    for e in p[4].split(',') {
      let q: Vec<&str> = e.split(':').collect();
      if q.len() != 4 {
        return None;
      }
      edicts.push(Edict {
        id: RuneId {
          block: q[0].parse().ok()?,
          tx: q[1].parse().ok()?,
        },
        amount: q[2].parse().ok()?,
        output: q[3].parse().ok()?,
      });
    }
  }
  Some(Runestone {
    edicts,
    etching: p_etching(p[1])?,
    mint: if p[2] == "-" { None } else { Some(p_id(p[2])?) },
    pointer: p_opt(p[3])?,
  })
}

/// the transaction of a request: the given output scripts, padded with empty-script outputs up
/// to `n` outputs
pub fn tx(n: usize, scripts: &[Vec<u8>]) -> Transaction {
  let mut output: Vec<TxOut> = scripts
    .iter()
    .map(|s| TxOut {
      value: Amount::ZERO,
      script_pubkey: ScriptBuf::from_bytes(s.clone()),
    })
    .collect();
  while output.len() < n {
    output.push(TxOut {
      value: Amount::ZERO,
      script_pubkey: ScriptBuf::new(),
    });
  }
  Transaction {
    version: Version(2),
    lock_time: LockTime::ZERO,
    input: Vec::new(),
    output,
  }
}

pub fn decipher_str(n: usize, scripts: &[Vec<u8>]) -> (String, Option<Option<Artifact>>) {
  let t = tx(n, scripts);
  match catch(move || Runestone::decipher(&t)) {
    Ok(a) => (format!("ok {}", render_artifact(&a)), Some(a)),
    Err(m) => (format!("panic {m}"), None),
  }
}

pub fn encipher_str(r: &Runestone) -> (String, Option<Vec<u8>>) {
  let r2 = Runestone {
    edicts: r.edicts.clone(),
    etching: r.etching,
    mint: r.mint,
    pointer: r.pointer,
  };
  match catch(move || r2.encipher().into_bytes()) {
    Ok(b) => (format!("ok {}", hex(&b)), Some(b)),
    Err(m) => (format!("panic {m}"), None),
  }
}

pub fn instructions_str(script: &[u8]) -> String {
  let s = ScriptBuf::from_bytes(script.to_vec());
  let mut out = String::from("I");
  for i in s.instructions() {
    match i {
      Ok(Instruction::PushBytes(p)) => out.push_str(&format!(" p:{}", hex(p.as_bytes()))),
      Ok(Instruction::Op(o)) => out.push_str(&format!(" o:{}", o.to_u8())),
      Err(_) => out.push_str(" err"),
    }
  }
  out
}

pub fn pushslice_str(data: &[u8]) -> String {
  let data = data.to_vec();
  match catch(move || {
    let mut s = ScriptBuf::new();
    s.push_slice(PushBytesBuf::try_from(data).unwrap());
    s.into_bytes()
  }) {
    Ok(b) => format!("ok {}", hex(&b)),
    Err(m) => format!("panic {m}"),
  }
}

fn parse_scripts(hs: &[&str]) -> Option<Vec<Vec<u8>>> {
  hs.iter().map(|h| unhex(h)).collect()
}

/// the implementation's answer to one request line (also used by --replay)
pub fn answer(toks: &[&str]) -> String {
  match toks {
    ["script.instructions", h] => match unhex(h) {
      Some(b) => instructions_str(&b),
      None => "bad-op".into(),
    },
    ["script.pushslice", h] => match unhex(h) {
      Some(b) => pushslice_str(&b),
      None => "bad-op".into(),
    },
    ["runestone.decipher", n, hs @ ..] => match (n.parse::<usize>(), parse_scripts(hs)) {
      (Ok(n), Some(ss)) if n <= MAX_OUTPUTS => decipher_str(n, &ss).0,
      _ => "bad-op".into(),
    },
    ["runestone.encipher", r] => match parse_runestone(r) {
      Some(r) => encipher_str(&r).0,
      None => "bad-op".into(),
    },
    // oracle lines carry the implementation's own outputs; the model side evaluates the
    // property's predicate on them and must answer "true"
    [op, ..] if op.starts_with("runestone.oracle.") => "true".into(),
    _ => "bad-op".into(),
  }
}

fn main() {
  let args = Args::parse();
  let mut out = Streams::create(&args.out);
  let mut dist = Dist::default();
  let mut rng = Rng::new(args.seed);
  if args.stream != "runestone" {
    eprintln!("unknown stream {}", args.stream);
    std::process::exit(3);
  }
  silence_panics();
  if let Some(path) = &args.replay {
    for line in replay_lines(path) {
      let line = line.as_str();
      let toks: Vec<&str> = line.split(' ').filter(|t| !t.is_empty()).collect();
      let ans = match args.stream.as_str() {
        "runestone" => answer(&toks),
        s => panic!("unknown stream {s}"),
      };
      out.emit(line, &ans);
    }
  } else {
    match args.stream.as_str() {
      "runestone" => generate::generate(&args, &mut rng, &mut out, &mut dist),
      s => {
        eprintln!("unknown stream {s}");
        std::process::exit(3);
      }
    }
  }
  dist.write(&args.out);
  out.finish();
}

