//! Engine of work stream P6 "flags" (property C15) on a chain with a NON-ZERO first-inscription
//! height: signet (first inscription height 112402, jubilee 175392, first rune height 0).
//!
//! One case = one signet chain: a cheap coinbase-only prefix for heights 1..=112401, then a few
//! rounds of rich blocks (ixlib::chaingen) at heights >= 112402, indexed by four real indexes
//! (all with inscriptions and runes):
//!   000  neither sats, addresses nor transactions: first_index_height = 112402, the prefix is
//!        fetched as HEADERS only, values of spent prefix outputs come from the node (fetcher)
//!        (unchanged tree; with the S2 repair first_index_height = min(112402, 0) = 0 on signet);
//!   100  --index-sats, 010 --index-addresses, 111 all three: full UTXO index from height 0.
//! After every round the eng_store flag projection of every index is compared with the one of
//! 000 (`flagsx.oracle.same`), the forced "lost inscription" of the last round is compared by
//! satpoint (`flagsx.oracle.lostsat`), and the Lean index model (which tracks every output locally
//! from height 0) is fed the SPARSE chain (genesis, the prefix blocks that matter, the tail) and
//! its `dump ins|runes|stats` are compared with the 000 index: node-fetch path vs local tracking.
//!
//! Nothing is hidden: in mode `lossy` the prefix has underpaying coinbases (lost sats before
//! activation: S1) and possibly a reserved-rune etching below 112402 (S2); the oracle lines are
//! emitted with answer `true` whatever the indexes say, `kind=` only classifies the difference.
//! In the `same` lines `prerune=1` means "the case has a prefix rune and the 000 index lacks it"
//! (always so on the unchanged tree; never with notes/fix-C15-runes-first-index-height.diff).
use {
  bitcoin::{
    Amount, Block, OutPoint, ScriptBuf, Sequence, Transaction, TxIn, TxOut, Witness,
    absolute::LockTime,
    opcodes,
    script::{self, PushBytesBuf},
    transaction::Version,
  },
  common::*,
  ixlib::{
    Flags, Node, UpdateOutcome,
    chaingen::{self, Gen, Utxo, p2tr, p2wpkh},
    emit::emit_block,
    env::{self, Ix, make_header},
  },
  ord::InscriptionId,
  ordinals::{Etching, Runestone},
  std::{
    collections::{BTreeMap, BTreeSet},
    path::Path,
    time::{Duration, Instant},
  },
};

// ---------------------------------------------------------------------------------------------
// helpers copied verbatim from eng_store (harness/store/src/main.rs): digest, first_diff and the
// `project` closure of `flags_case`
// ---------------------------------------------------------------------------------------------

pub fn digest(rows: &[String]) -> String {
  // FNV-1a over the rows: a short content fingerprint for the oracle lines
  let mut h: u64 = 0xcbf29ce484222325;
  for r in rows {
    for b in r.bytes().chain(std::iter::once(b'\n')) {
      h ^= u64::from(b);
      h = h.wrapping_mul(0x100000001b3);
    }
  }
  format!("{h:016x}:{}", rows.len())
}

pub fn first_diff(a: &[String], b: &[String]) -> String {
  for (x, y) in a.iter().zip(b.iter()) {
    if x != y {
      return format!("A[{}] B[{}]", x.replace(' ', "_"), y.replace(' ', "_"));
    }
  }
  if a.len() != b.len() {
    return format!("len {} vs {}", a.len(), b.len());
  }
  "-".into()
}

// projection: inscription ids, numbers, locations, parents, fees, heights, non-sat charms;
// rune entries and balances
const SAT_CHARMS: u32 = 1 | 4 | 8 | 32 | 64 | 512 | 2048 | 8192; // coin epic legendary nineball rare uncommon mythic palindrome
fn project(rows: &[String]) -> Vec<String> {
  let mut v = Vec::new();
  for r in rows {
    let head = r.split(' ').next().unwrap();
    match head {
      "entry" => {
        let toks: Vec<String> = r
          .split(' ')
          .filter_map(|t| {
            if t.starts_with("sat=") {
              None
            } else if let Some(c) = t.strip_prefix("charms=") {
              Some(format!("charms={}", c.parse::<u32>().unwrap() & !SAT_CHARMS))
            } else {
              Some(t.to_string())
            }
          })
          .collect();
        v.push(toks.join(" "));
      }
      "id2seq" | "num2seq" | "seq2satpoint" | "children" | "collection2latest" | "latest2collection" | "gallery"
      | "home" | "height2lastseq" | "rune" | "rune2id" | "balances" | "txid2rune" | "seq2runeid" => v.push(r.clone()),
      "statistic" if r.contains("Inscriptions") || r.contains("Runes") => v.push(r.clone()),
      _ => {}
    }
  }
  v
}

// ---------------------------------------------------------------------------------------------
// classification of ALL differing rows of two projections
// ---------------------------------------------------------------------------------------------

const NULL_PREFIX: &str = "0000000000000000000000000000000000000000000000000000000000000000:4294967295:";

fn is_rune_row(row: &str) -> bool {
  let head = row.split(' ').next().unwrap();
  matches!(head, "rune" | "rune2id" | "balances" | "txid2rune" | "seq2runeid")
    || row.starts_with("statistic Runes ")
    || row.starts_with("statistic ReservedRunes ")
}

/// `a` = projection of the reference (000, no sats), `b` = projection of the other index
fn classify(a: &[String], b: &[String], prelost: u64, prerune: bool, b_has_sats: bool) -> String {
  if a == b {
    return "none".into();
  }
  let mut count: BTreeMap<&str, i64> = BTreeMap::new();
  for r in a {
    *count.entry(r.as_str()).or_insert(0) += 1;
  }
  for r in b {
    *count.entry(r.as_str()).or_insert(0) -= 1;
  }
  let mut sp_a: BTreeMap<&str, &str> = BTreeMap::new();
  let mut sp_b: BTreeMap<&str, &str> = BTreeMap::new();
  let (mut shift, mut rune, mut other) = (false, false, false);
  for (row, c) in &count {
    if *c == 0 {
      continue;
    }
    if row.starts_with("seq2satpoint ") && c.abs() == 1 {
      let mut it = row.split(' ');
      it.next();
      let (seq, sp) = (it.next().unwrap_or(""), it.next().unwrap_or(""));
      let m = if *c > 0 { &mut sp_a } else { &mut sp_b };
      if m.insert(seq, sp).is_some() {
        other = true;
      }
    } else if is_rune_row(row) {
      if prerune {
        rune = true;
      } else {
        other = true;
      }
    } else {
      other = true;
    }
  }
  let seqs: BTreeSet<&str> = sp_a.keys().chain(sp_b.keys()).copied().collect();
  for seq in seqs {
    let ok = match (sp_a.get(seq), sp_b.get(seq)) {
      (Some(x), Some(y)) => match (x.strip_prefix(NULL_PREFIX), y.strip_prefix(NULL_PREFIX)) {
        (Some(ox), Some(oy)) => match (ox.parse::<u64>(), oy.parse::<u64>()) {
          // the index with sats counts the lost sats of the prefix, the one without does not
          (Ok(ox), Ok(oy)) => prelost > 0 && b_has_sats && ox.checked_add(prelost) == Some(oy),
          _ => false,
        },
        _ => false,
      },
      _ => false,
    };
    if ok {
      shift = true;
    } else {
      other = true;
    }
  }
  if other {
    "other".into()
  } else {
    match (shift, rune) {
      (true, true) => "null-offset-shift+prerune".into(),
      (true, false) => "null-offset-shift".into(),
      (false, true) => "prerune".into(),
      // cannot happen (a != b): rows differ only in order
      (false, false) => "other".into(),
    }
  }
}

// ---------------------------------------------------------------------------------------------
// scenario
// ---------------------------------------------------------------------------------------------

#[derive(Clone, Debug)]
struct Params {
  seed: u64,
  case: u64,
  lossy: bool,
  prefix: u32,
  rounds: u64,
  tailblocks: u64,
  /// `Some` = forced (by `--prerune` or by the replayed scenario line)
  prerune: Option<bool>,
  model: bool,
  /// `Some(r)` = stream `regtest-fh`: chain regtest, `first_inscription_height` overridden to
  /// `prefix` and `first_rune_height` to `r` (ord::verif::overrides); `None` = signet as it is
  short: Option<u32>,
}

impl Params {
  fn chain(&self) -> &'static str {
    if self.short.is_some() { "regtest" } else { "signet" }
  }
  /// below this prefix length a case is always clean (debugging runs of `signet` with a toy prefix)
  fn min_lossy_prefix(&self) -> u32 {
    if self.short.is_some() { 6 } else { 16 }
  }
}

fn ftag(f: Flags) -> String {
  format!("{}{}{}", f.sats as u8, f.addr as u8, f.tx as u8)
}

fn push(b: script::Builder, data: &[u8]) -> script::Builder {
  b.push_slice(PushBytesBuf::try_from(data.to_vec()).unwrap())
}

/// coinbase with a BIP34-ish unique script_sig (height + tag): distinct txids at every height,
/// and distinct from the coinbases chaingen builds (no tag)
fn coinbase(height: u32, outs: Vec<TxOut>) -> Transaction {
  Transaction {
    version: Version(2),
    lock_time: LockTime::ZERO,
    input: vec![TxIn {
      previous_output: OutPoint::null(),
      script_sig: push(script::Builder::new().push_int(i64::from(height)), b"flagsx").into_script(),
      sequence: Sequence::MAX,
      witness: Witness::new(),
    }],
    output: outs,
  }
}

fn pool_script(rng: &mut Rng) -> ScriptBuf {
  match rng.below(8) {
    0..=2 => p2wpkh(1),
    3 => p2wpkh(2),
    4..=6 => p2tr(7),
    _ => p2tr(8),
  }
}

/// 1–3 outputs from the small script pool summing to `total`; a few zero-value outputs; many
/// coinbases repeat the same values (one output of the whole subsidy, halves, 546, 10000, 1)
fn prefix_outs(rng: &mut Rng, total: u64, short: bool, dist: &mut Dist) -> Vec<TxOut> {
  let n = if short {
    // few blocks: more outputs per coinbase, so that the pool has many different vouts
    1 + rng.below(5) as usize
  } else {
    match rng.below(10) {
      0..=5 => 1,
      6..=8 => 2,
      _ => 3,
    }
  };
  let mut vals = Vec::new();
  let mut avail = total;
  for i in 0..n {
    let v = if i + 1 == n {
      avail
    } else {
      match rng.below(7) {
        0 => 0,
        1 => avail / 2,
        2 => 1,
        3 => 10_000,
        4 => 546,
        5 => avail,
        _ => rng.below(avail + 1),
      }
      .min(avail)
    };
    avail -= v;
    vals.push(v);
  }
  // the remainder is not always last
  let rot = rng.below(n as u64) as usize;
  vals.rotate_left(rot);
  for v in &vals {
    if *v == 0 {
      dist.hit("prefix_zero_value_output");
    }
  }
  vals.into_iter().map(|v| TxOut { value: Amount::from_sat(v), script_pubkey: pool_script(rng) }).collect()
}

fn pointer_bytes(p: u64) -> Vec<u8> {
  let mut v = p.to_le_bytes().to_vec();
  while v.last() == Some(&0) {
    v.pop();
  }
  v
}

/// `OP_FALSE OP_IF "ord" 1 "text/plain;charset=utf-8" [2 <pointer>] 0 <body> OP_ENDIF`
fn envelope_script(pointer: Option<u64>, body: &[u8]) -> ScriptBuf {
  let mut b = push(script::Builder::new().push_opcode(opcodes::OP_FALSE).push_opcode(opcodes::all::OP_IF), b"ord");
  b = push(push(b, &[1]), b"text/plain;charset=utf-8");
  if let Some(p) = pointer {
    b = push(push(b, &[2]), &pointer_bytes(p));
  }
  push(b.push_opcode(opcodes::OP_FALSE), body).push_opcode(opcodes::all::OP_ENDIF).into_script()
}

/// Stream `regtest-fh`: a block `[coinbase, reveal]` where the reveal spends 2–6 prefix outputs
/// (as many of them as possible ones the 000 index has to fetch, neighbours at different vouts),
/// carries an envelope on input 0 — with a pointer beyond the value of input 0 in most cases — and
/// one on a later input, whose offset is the sum of the values of the inputs before it.
fn multi_fetch_block(
  g: &mut Gen,
  rng: &mut Rng,
  node: &Node,
  prefix: u32,
  is_fetched: &dyn Fn(&OutPoint, u32) -> bool,
  dist: &mut Dist,
) -> Option<Block> {
  let height = node.height() + 1;
  let mut cand: Vec<usize> =
    (0..g.utxos.len()).filter(|&i| g.utxos[i].height < prefix && !g.utxos[i].script.is_op_return()).collect();
  // those the node has to be asked for first, in random order
  for i in (1..cand.len()).rev() {
    cand.swap(i, rng.below(i as u64 + 1) as usize);
  }
  cand.sort_by_key(|&i| !is_fetched(&g.utxos[i].op, g.utxos[i].height));
  if cand.len() < 2 {
    dist.hit("multi_fetch_no_candidates");
    return None;
  }
  let k = (2 + rng.below(5) as usize).min(cand.len());
  let window = cand.len().min(k + 6);
  let mut pool: Vec<Utxo> = cand[..window].iter().map(|&i| g.utxos[i].clone()).collect();
  let mut chosen: Vec<Utxo> = Vec::new();
  while chosen.len() < k {
    // neighbours at different vouts where the pool allows it
    let j = match chosen.last() {
      Some(last) => pool.iter().position(|u| u.op.vout != last.op.vout).unwrap_or(0),
      None => 0,
    };
    chosen.push(pool.remove(j));
  }
  g.utxos.retain(|u| !chosen.iter().any(|c| c.op == u.op));
  let total_in: u64 = chosen.iter().map(|u| u.value).sum();
  let fee = rng.below(total_in.min(5000) + 1);
  let total_out = total_in - fee;
  // 1–3 outputs
  let n_out = 1 + rng.below(3) as usize;
  let mut vals = Vec::new();
  let mut avail = total_out;
  for i in 0..n_out {
    let v = if i + 1 == n_out { avail } else { rng.below(avail + 1) };
    avail -= v;
    vals.push(v);
  }
  let v0 = chosen[0].value;
  let pointer = if total_out == 0 {
    None
  } else {
    match rng.below(6) {
      0 => None,
      1 => Some(v0.min(total_out - 1)),
      2 => Some((v0 + chosen[1].value / 2).min(total_out - 1)),
      3 => Some(total_out - 1),
      4 => Some(total_out), // ignored: not below the total output value
      _ => Some(rng.below(total_out)),
    }
  };
  if let Some(ptr) = pointer {
    dist.hit(if ptr >= v0 { "multi_fetch_pointer_beyond_input0" } else { "multi_fetch_pointer_in_input0" });
  }
  let second = 1 + rng.below(k as u64 - 1) as usize;
  let input = chosen
    .iter()
    .enumerate()
    .map(|(i, u)| TxIn {
      previous_output: u.op,
      script_sig: ScriptBuf::new(),
      sequence: Sequence::MAX,
      witness: if i == 0 {
        Witness::from_slice(&[envelope_script(pointer, b"mf0").into_bytes(), Vec::new()])
      } else if i == second {
        Witness::from_slice(&[envelope_script(None, b"mf1").into_bytes(), Vec::new()])
      } else {
        Witness::new()
      },
    })
    .collect();
  let reveal = Transaction {
    version: Version(2),
    lock_time: LockTime::ZERO,
    input,
    output: vals
      .iter()
      .map(|&v| TxOut { value: Amount::from_sat(v), script_pubkey: if rng.chance(1, 2) { p2tr(7) } else { p2wpkh(4) } })
      .collect(),
  };
  assert_eq!(ord::ParsedEnvelope::from_transaction(&reveal).len(), 2);
  let subsidy = ordinals::Height(height).subsidy();
  // the coinbase claims the fee, or leaves it (lost sats above the first inscription height)
  let claim = if rng.chance(3, 4) { subsidy + fee } else { subsidy };
  let cb = coinbase(height, vec![TxOut { value: Amount::from_sat(claim), script_pubkey: p2wpkh(1) }]);
  for tx in [&cb, &reveal] {
    let txid = tx.compute_txid();
    g.txs.insert(txid, (tx.clone(), height));
    for (vout, o) in tx.output.iter().enumerate() {
      g.utxos.push(Utxo { op: OutPoint { txid, vout: vout as u32 }, value: o.value.to_sat(), script: o.script_pubkey.clone(), height, hot: tx.input.len() > 1 });
    }
  }
  let rid = reveal.compute_txid();
  g.ins_ids.push(InscriptionId { txid: rid, index: 0 });
  g.ins_ids.push(InscriptionId { txid: rid, index: 1 });
  dist.hit("multi_fetch_reveal");
  dist.add("multi_fetch_reveal_inputs", k as u64);
  Some(Block { header: make_header(node.tip(), height, rng.next_u64() as u32), txdata: vec![cb, reveal] })
}

enum Failure {
  Update(String),
}

struct Slot {
  flags: Flags,
  tag: String,
  node: Node,
  ix: Ix,
}

fn update_all(slots: &[Slot], timeout: Duration) -> Vec<(Result<(), String>, f64)> {
  std::thread::scope(|s| {
    let hs: Vec<_> = slots
      .iter()
      .map(|slot| {
        let ix = &slot.ix;
        s.spawn(move || {
          let t = Instant::now();
          let r = match env::update(ix, timeout) {
            UpdateOutcome::Ok => Ok(()),
            UpdateOutcome::Err(e) => Err(format!("err:{e}")),
            UpdateOutcome::Panic(p) => Err(format!("panic:{p}")),
            UpdateOutcome::Hang => Err("hang".into()),
          };
          (r, t.elapsed().as_secs_f64())
        })
      })
      .collect();
    hs.into_iter().map(|h| h.join().unwrap()).collect()
  })
}

fn dump_all(slots: &[Slot]) -> Vec<Vec<String>> {
  std::thread::scope(|s| {
    let hs: Vec<_> = slots.iter().map(|slot| s.spawn(move || slot.ix.index.verif_dump().unwrap())).collect();
    hs.into_iter().map(|h| h.join().unwrap()).collect()
  })
}

fn push_all(slots: &[Slot], block: &Block) {
  for s in slots {
    s.node.push_block(block.clone());
  }
}

fn peak_rss_mb() -> u64 {
  std::fs::read_to_string("/proc/self/status")
    .ok()
    .and_then(|s| {
      s.lines().find(|l| l.starts_with("VmHWM:")).and_then(|l| l.split_whitespace().nth(1).and_then(|v| v.parse::<u64>().ok()))
    })
    .map(|kb| kb / 1024)
    .unwrap_or(0)
}

fn scenario_line(p: &Params, prerune: bool) -> String {
  let mut line = format!(
    "flagsx.scenario seed={} case={} mode={} prefix={} rounds={} tailblocks={} prerune={}",
    p.seed,
    p.case,
    if p.lossy { "lossy" } else { "clean" },
    p.prefix,
    p.rounds,
    p.tailblocks,
    prerune as u8
  );
  if let Some(r) = p.short {
    line.push_str(&format!(" chain=regtest first_ins={} first_rune={r}", p.prefix));
  }
  line
}

fn run_case(p: &Params, rng: &mut Rng, out: &mut Streams, dist: &mut Dist, scratch: &Path) {
  let t_case = Instant::now();
  let mode = if p.lossy { "lossy" } else { "clean" };
  let case = p.case;
  // ---- plan (every draw is made whatever the mode / forced values, so that the chain depends
  // only on the parameters of the scenario line)
  let mut plan = rng.fork();
  let mut body = rng.fork();
  let gen_rng = rng.fork();
  let mut tail = rng.fork();
  let coin = plan.chance(1, 2);
  let prerune = p.lossy && p.prefix >= p.min_lossy_prefix() && p.prerune.unwrap_or(coin);
  let hi = p.prefix.saturating_sub(1).max(1); // last prefix height
  // underpaying coinbases: 1–3 distinct prefix heights, kinds rotate over
  // {by 1, by a random amount, claims nothing at all}
  let n_under = 1 + plan.below(3) as usize;
  let k0 = plan.below(3);
  let mut under: BTreeMap<u32, u64> = BTreeMap::new(); // height -> kind
  for j in 0..n_under {
    let h = 1 + plan.below(u64::from(hi)) as u32;
    under.entry(h).or_insert((k0 + j as u64) % 3);
  }
  if !p.lossy || p.prefix < p.min_lossy_prefix() {
    under.clear();
  }
  // prefix rune: block `hp` carries a transaction spending output 0.. of the coinbase of `h0`
  let (h0, hp) = {
    let mut h0 = 1 + plan.below(u64::from(hi.saturating_sub(1).max(1))) as u32;
    while under.contains_key(&h0) && h0 > 1 {
      h0 -= 1;
    }
    let hp = h0 + 1 + plan.below(u64::from((hi - h0).max(1))) as u32;
    (h0, hp.min(hi))
  };
  let prerune = prerune && h0 < hp && !under.contains_key(&h0);
  // always the first line of a case: `--replay` regenerates the case from it
  out.emit(&scenario_line(p, prerune), "ok");
  // sample of prefix blocks the generator (and the model) get to know
  let mut sample: BTreeSet<u32> = BTreeSet::new();
  if hi >= 1 && p.prefix > 1 {
    for _ in 0..300.min(hi) {
      sample.insert(1 + plan.below(u64::from(hi)) as u32);
    }
    for h in hi.saturating_sub(19).max(1)..=hi {
      sample.insert(h);
    }
    if p.short.is_some() {
      sample.extend(1..=hi);
    }
    sample.extend(under.keys().copied());
    if prerune {
      sample.insert(h0);
      sample.insert(hp);
    }
  }

  // ---- nodes and indexes: every index gets its own mock node with the same blocks (mockcore
  // serves requests on a single thread)
  let mut flag_sets = vec![
    Flags { sats: false, addr: false, tx: false, ins: true, runes: true },
    Flags { sats: true, addr: false, tx: false, ins: true, runes: true },
    Flags { sats: false, addr: true, tx: false, ins: true, runes: true },
    Flags { sats: true, addr: true, tx: true, ins: true, runes: true },
  ];
  if let Some(n) = std::env::var("FLAGSX_INDEXES").ok().and_then(|v| v.parse::<usize>().ok()) {
    flag_sets.truncate(n.clamp(2, 4));
  }
  // activation heights: the chain's own (signet) or overridden for the whole process (one case
  // at a time; the four indexes of a case share them)
  ord::verif::overrides::set_first_inscription_height(p.short.map(|_| p.prefix));
  ord::verif::overrides::set_first_rune_height(p.short);
  let slots: Vec<Slot> = flag_sets
    .iter()
    .map(|&flags| {
      let node = Node::new(p.chain(), scratch);
      let ix = env::open(&node, scratch, flags, &[], false);
      Slot { flags, tag: ftag(flags), node, ix }
    })
    .collect();
  let network = slots[0].node.core.state().network;

  // ---- prefix: heights 1..=prefix-1, one coinbase per block
  let t_build = Instant::now();
  let mut prelost = 0u64;
  let mut h0_out: Option<(OutPoint, u64)> = None;
  let mut prev = slots[0].node.tip();
  for h in 1..p.prefix {
    let subsidy = ordinals::Height(h).subsidy();
    let total = match under.get(&h) {
      None => subsidy,
      Some(0) => {
        dist.hit("underpay_by_one");
        subsidy - 1
      }
      Some(1) => {
        dist.hit("underpay_random");
        subsidy - 1 - body.below(subsidy - 1)
      }
      Some(_) => {
        dist.hit("underpay_claims_nothing");
        0
      }
    };
    prelost += subsidy - total;
    let outs = if total == 0 { vec![TxOut { value: Amount::ZERO, script_pubkey: pool_script(&mut body) }] } else { prefix_outs(&mut body, total, p.short.is_some(), dist) };
    let cb = coinbase(h, outs);
    if h == h0 {
      h0_out = cb
        .output
        .iter()
        .enumerate()
        .find(|(_, o)| o.value.to_sat() > 0)
        .map(|(vout, o)| (OutPoint { txid: cb.compute_txid(), vout: vout as u32 }, o.value.to_sat()));
    }
    let mut txdata = vec![cb];
    if prerune && h == hp {
      // S2: a reserved-rune etching (no name, so no commitment needed) below the first
      // inscription height; premine goes to the first non-OP_RETURN output
      let (op, value) = h0_out.unwrap();
      let rs = Runestone {
        etching: Some(Etching { premine: Some(1000), ..Default::default() }),
        ..Default::default()
      };
      txdata.push(Transaction {
        version: Version(2),
        lock_time: LockTime::ZERO,
        input: vec![TxIn { previous_output: op, script_sig: ScriptBuf::new(), sequence: Sequence::MAX, witness: Witness::new() }],
        output: vec![
          TxOut { value: Amount::ZERO, script_pubkey: rs.encipher() },
          TxOut { value: Amount::from_sat(value), script_pubkey: p2wpkh(3) },
        ],
      });
      dist.hit("prefix_rune_etching");
    }
    let block = Block { header: make_header(prev, h, body.next_u64() as u32), txdata };
    prev = block.block_hash();
    push_all(&slots, &block);
  }
  dist.add("prefix_blocks", u64::from(p.prefix.saturating_sub(1)));
  let build_secs = t_build.elapsed().as_secs_f64();
  if p.short.is_none() {
    eprintln!("[flagsx] case {case} mode {mode}: prefix of {} blocks built in {build_secs:.1}s, prelost={prelost} prerune={}", p.prefix.saturating_sub(1), prerune as u8);
  }

  // ---- generator: genesis + the sampled prefix blocks, in height order
  let mut g = Gen::new(gen_rng, network);
  let genesis = slots[0].node.block_at(0);
  g.absorb(&genesis, 0);
  for &h in &sample {
    g.absorb(&slots[0].node.block_at(h), h);
  }
  if prerune {
    // the output spent by the prefix etching is gone
    let spent = h0_out.unwrap().0;
    g.utxos.retain(|u| u.op != spent);
  }
  // reserve one sampled non-zero coinbase output for the forced lost-inscription sequence
  let reserved = {
    let cands: Vec<usize> = (0..g.utxos.len()).filter(|&i| g.utxos[i].value > 0 && g.utxos[i].height != hp).collect();
    if cands.is_empty() { None } else { Some(g.utxos.remove(*plan.pick(&cands))) }
  };

  // ---- model stream, part 1: the sparse prefix.  The Lean index model tracks every output
  // locally from height 0 and starts inscriptions at first_ins; fed only the prefix blocks that
  // matter (heights are not contiguous) it must agree with the 000 index, whose values of spent
  // prefix outputs come from the node.
  // The driver applies every block as configuration 000 SEES it (`applyBlockTracked`): below
  // `first_index_height` the rune updater gets no transaction (header-only fetch), the values are
  // still tracked.  `first_index_height` is read off `Index::open` on every run
  // (tools/extractors/first_index_height.py): on the unchanged tree the prefix rune of a prerune=1
  // case is invisible to the 000 index and to the model (finding S2, reported by the `same` oracle
  // lines); with notes/fix-C15-runes-first-index-height.diff applied both see it.  Either way
  // `dump ins|runes|stats` of the 000 index must equal the model's.
  if p.model {
    match p.short {
      None => out.emit("cfg sats=0 addr=0 tx=0 ins=1 runes=1 first_ins=112402 jubilee=175392 first_rune=0", "ok"),
      Some(r) => out.emit(&format!("cfg sats=0 addr=0 tx=0 ins=1 runes=1 first_ins={} jubilee=110 first_rune={r}", p.prefix), "ok"),
    }
    emit_block(out, 0, &genesis, network, &g.txs);
    out.emit("endblock", "ok");
    for &h in &sample {
      emit_block(out, h, &slots[0].node.block_at(h), network, &g.txs);
      out.emit("endblock", "ok");
    }
    dist.add("model_prefix_blocks", sample.len() as u64);
  }

  // ---- index the prefix in all indexes, in parallel
  let fail = |out: &mut Streams, dist: &mut Dist, desc: &str, f: Failure| {
    let Failure::Update(msg) = f;
    out.emit(&format!("flagsx.oracle.true 0 {desc} update-failed {}", msg.replace(' ', "_")), "true");
    dist.hit("update_failed");
  };
  let res = update_all(&slots, Duration::from_secs(1800));
  for (slot, (r, secs)) in slots.iter().zip(&res) {
    if p.short.is_none() {
      eprintln!("[flagsx] case {case} mode {mode}: prefix indexed by {} in {secs:.1}s ({:?})", slot.tag, r);
    }
    dist.add(&format!("prefix_secs_{}", slot.tag), secs.round() as u64);
  }
  for (slot, (r, _)) in slots.iter().zip(&res) {
    if let Err(e) = r {
      fail(out, dist, &format!("case={case} mode={mode} round=prefix flags={}", slot.tag), Failure::Update(e.clone()));
      return;
    }
  }

  // ---- which prefix outputs does the 000 index hold locally?  (short chain: read its UTXO
  // rows; signet: all of them or none, `have_full_utxo_index`.)  The others it must ask the node for.
  let tracked0: Option<BTreeSet<String>> = p.short.map(|_| {
    slots[0]
      .ix
      .index
      .verif_dump()
      .unwrap()
      .iter()
      .filter_map(|r| r.strip_prefix("utxo ").map(|t| t.split(' ').next().unwrap().to_string()))
      .collect()
  });
  let full0 = slots[0].ix.index.have_full_utxo_index();
  let is_fetched = |op: &OutPoint, created: u32| -> bool {
    created < p.prefix
      && match &tracked0 {
        Some(t) => !t.contains(&op.to_string()),
        None => !full0,
      }
  };
  if p.short.is_some() {
    dist.hit(if full0 { "case_000_full_utxo_index" } else { "case_000_fetches_from_node" });
  }

  // ---- rounds of rich blocks at heights >= prefix
  let mut lost_id: Option<InscriptionId> = None;
  for round in 0..p.rounds {
    let nb = 1 + tail.below(p.tailblocks.max(1));
    let mut blocks: Vec<Block> = Vec::new();
    for _ in 0..nb {
      let block = g.block(&slots[0].node, dist);
      push_all(&slots, &block);
      blocks.push(block);
    }
    if p.short.is_some() {
      // one reveal per round whose 2–6 inputs are all prefix outputs (different vouts, different
      // values): in the 000 index their values come from the node in one batch, and they decide
      // the offsets and the fee of the inscriptions
      if let Some(block) = multi_fetch_block(&mut g, &mut tail, &slots[0].node, p.prefix, &is_fetched, dist) {
        push_all(&slots, &block);
        blocks.push(block);
      }
    }
    if round + 1 == p.rounds {
      if let Some(u) = &reserved {
        // block X: reveal on the reserved prefix output (fee 0), coinbase pays the subsidy exactly
        let hx = slots[0].node.height() + 1;
        let env_script = push(
          push(
            push(script::Builder::new().push_opcode(opcodes::OP_FALSE).push_opcode(opcodes::all::OP_IF), b"ord"),
            &[1],
          ),
          b"text/plain;charset=utf-8",
        )
        .push_opcode(opcodes::OP_FALSE);
        let env_script = push(env_script, b"lost").push_opcode(opcodes::all::OP_ENDIF).into_script();
        let reveal = Transaction {
          version: Version(2),
          lock_time: LockTime::ZERO,
          input: vec![TxIn {
            previous_output: u.op,
            script_sig: ScriptBuf::new(),
            sequence: Sequence::MAX,
            witness: Witness::from_slice(&[env_script.into_bytes(), Vec::new()]),
          }],
          output: vec![TxOut { value: Amount::from_sat(u.value), script_pubkey: p2wpkh(4) }],
        };
        let rid = reveal.compute_txid();
        assert_eq!(ord::ParsedEnvelope::from_transaction(&reveal).len(), 1);
        let cbx = coinbase(hx, vec![TxOut { value: Amount::from_sat(ordinals::Height(hx).subsidy()), script_pubkey: p2wpkh(1) }]);
        g.txs.insert(cbx.compute_txid(), (cbx.clone(), hx));
        g.txs.insert(rid, (reveal.clone(), hx));
        let bx = Block { header: make_header(slots[0].node.tip(), hx, tail.next_u64() as u32), txdata: vec![cbx, reveal] };
        push_all(&slots, &bx);
        blocks.push(bx);
        // block X+1: everything to fees, coinbase claims none of the fee: the inscription falls
        // past the coinbase's outputs and is lost
        let hy = hx + 1;
        let burn = Transaction {
          version: Version(2),
          lock_time: LockTime::ZERO,
          input: vec![TxIn { previous_output: OutPoint { txid: rid, vout: 0 }, script_sig: ScriptBuf::new(), sequence: Sequence::MAX, witness: Witness::new() }],
          output: vec![TxOut { value: Amount::ZERO, script_pubkey: chaingen::op_return(&[]) }],
        };
        let cby = coinbase(hy, vec![TxOut { value: Amount::from_sat(ordinals::Height(hy).subsidy()), script_pubkey: p2wpkh(1) }]);
        g.txs.insert(cby.compute_txid(), (cby.clone(), hy));
        g.txs.insert(burn.compute_txid(), (burn.clone(), hy));
        let by = Block { header: make_header(slots[0].node.tip(), hy, tail.next_u64() as u32), txdata: vec![cby, burn] };
        push_all(&slots, &by);
        blocks.push(by);
        lost_id = Some(InscriptionId { txid: rid, index: 0 });
        dist.hit("forced_lost_sequence");
      }
    }
    // which path do the inputs of this round take in the 000 index?
    let first_h = slots[0].node.height() + 1 - blocks.len() as u32;
    for (i, b) in blocks.iter().enumerate() {
      let h = first_h + i as u32;
      let (mut f, mut s, mut t) = (0u64, 0u64, 0u64);
      // the outpoints the 000 index sends to the fetcher for this block, in order
      let mut asked: Vec<OutPoint> = Vec::new();
      for tx in b.txdata.iter().skip(1) {
        let mut asked_tx: Vec<OutPoint> = Vec::new();
        for input in &tx.input {
          match g.txs.get(&input.previous_output.txid).map(|(_, ph)| *ph) {
            Some(ph) if ph == h => s += 1,
            Some(ph) if is_fetched(&input.previous_output, ph) => {
              f += 1;
              asked_tx.push(input.previous_output);
            }
            Some(_) => t += 1,
            None => dist.hit("unknown_input"),
          }
        }
        let zero_in = asked_tx.iter().any(|op| g.txs[&op.txid].0.output[op.vout as usize].value == Amount::ZERO);
        if zero_in {
          dist.hit("fetched_zero_value_input");
        }
        if asked_tx.len() >= 2 {
          dist.hit("tx_with_several_fetched_inputs");
          if asked_tx.iter().any(|op| op.vout != asked_tx[0].vout) {
            dist.hit("tx_multi_vout_fetch");
          }
        }
        asked.extend(asked_tx);
      }
      // a batch of >= 2 fetched outputs that are not all at the same vout
      if asked.len() >= 2 && asked.iter().any(|op| op.vout != asked[0].vout) {
        dist.hit("multi_vout_fetch_batches");
        if asked[1..].iter().any(|op| op.vout != asked[1].vout) {
          // … even if the fetcher takes the first outpoint alone and the rest as a second batch
          dist.hit("multi_vout_fetch_batches_after_first");
        }
      }
      dist.add("fetched_inputs", f);
      dist.add("sameblock_inputs", s);
      dist.add("tracked_inputs", t);
      if f > 0 && s > 0 {
        dist.hit("blocks_mixing_fetched_and_sameblock");
      }
      if f >= 2 {
        dist.hit("blocks_with_several_fetched_inputs");
      }
      dist.hit("tail_block");
    }
    // index
    let tip = slots[0].node.height();
    let res = update_all(&slots, Duration::from_secs(600));
    let mut failed = false;
    for (slot, (r, _)) in slots.iter().zip(&res) {
      if let Err(e) = r {
        fail(out, dist, &format!("case={case} mode={mode} round={round} h={tip} flags={}", slot.tag), Failure::Update(e.clone()));
        failed = true;
      }
    }
    if failed {
      return;
    }
    let dumps = dump_all(&slots);
    // model stream, part 2: the tail blocks and the sections of the 000 index
    if p.model {
      for (i, b) in blocks.iter().enumerate() {
        emit_block(out, first_h + i as u32, b, network, &g.txs);
        out.emit("endblock", "ok");
      }
      let secs = env::sections(&dumps[0]);
      out.emit("dump ins", &secs["ins"]);
      out.emit("dump runes", &secs["runes"]);
      out.emit("dump stats", &secs["stats"]);
    }
    if round + 1 == p.rounds {
      // evidence that 000 really has no local record of the prefix outputs
      for (slot, d) in slots.iter().zip(&dumps) {
        dist.add(&format!("final_utxo_rows_{}", slot.tag), d.iter().filter(|r| r.starts_with("utxo ")).count() as u64);
      }
    }
    // index-vs-index comparison
    let projs: Vec<Vec<String>> = dumps.iter().map(|d| project(d)).collect();
    // S2 in effect: the case has a prefix rune (etched in block `hp`, second transaction) and the
    // 000 index does not have it.  Only then are differing rune rows attributed to it (`kind`
    // `prerune`); when the 000 index does see the prefix rune (repaired `first_index_height`) every
    // rune row must be equal, and the line reads `prerune=0` like any other line without a hidden rune.
    let prefix_rune_row = format!("rune {hp}:1 ");
    let has_prefix_rune = |proj: &Vec<String>| proj.iter().any(|r| r.starts_with(&prefix_rune_row));
    let seen0 = has_prefix_rune(&projs[0]);
    if prerune {
      dist.hit(if seen0 {
        "prefix_rune_seen_by_000"
      } else if projs[1..].iter().any(has_prefix_rune) {
        "prefix_rune_hidden_from_000"
      } else {
        // etched below the (overridden) first rune height: no index has it
        "prefix_rune_below_first_rune_height"
      });
    }
    for i in 1..slots.len() {
      let hidden = prerune && !seen0 && has_prefix_rune(&projs[i]);
      let kind = classify(&projs[0], &projs[i], prelost, hidden, slots[i].flags.sats);
      if kind != "none" && std::env::var("FLAGSX_VERBOSE").is_ok() {
        // every differing row, for the notes (stderr only)
        let a: BTreeSet<&String> = projs[0].iter().collect();
        let b: BTreeSet<&String> = projs[i].iter().collect();
        for r in a.difference(&b) {
          eprintln!("[flagsx] round {round} only in 000: {r}");
        }
        for r in b.difference(&a) {
          eprintln!("[flagsx] round {round} only in {}: {r}", slots[i].tag);
        }
      }
      dist.hit(&format!("kind_{kind}"));
      out.emit(
        &format!(
          "flagsx.oracle.same {} {} case={case} mode={mode} round={round} h={tip} flags={} prelost={prelost} prerune={} kind={kind} diff={}",
          digest(&projs[0]),
          digest(&projs[i]),
          slots[i].tag,
          hidden as u8,
          first_diff(&projs[0], &projs[i])
        ),
        "true",
      );
    }
    // feed the generator the runes that really exist in the most complete index
    let runes = slots.last().unwrap().ix.index.runes().unwrap();
    g.rune_ids = runes.iter().map(|(id, _)| *id).collect();
    g.rune_names = runes.iter().map(|(_, e)| e.spaced_rune.rune.0).collect();
    for row in &projs[0] {
      if row.starts_with("entry ") {
        dist.hit("inscription_rows_seen");
      }
    }
  }
  // ---- the forced lost inscription, by satpoint
  if let Some(id) = lost_id {
    let sp: Vec<String> = slots
      .iter()
      .map(|s| s.ix.index.get_inscription_satpoint_by_id(id).unwrap().map(|s| s.to_string()).unwrap_or("none".into()))
      .collect();
    for i in 1..slots.len() {
      dist.hit(if sp[0] == sp[i] { "lostsat_equal" } else { "lostsat_differs" });
      out.emit(&format!("flagsx.oracle.lostsat {} {} case={case} mode={mode} flags={} prelost={prelost}", sp[0], sp[i], slots[i].tag), "true");
    }
    if p.short.is_none() {
      eprintln!("[flagsx] case {case} mode {mode}: lost inscription {id} at {}", slots.iter().zip(&sp).map(|(s, p)| format!("{}={p}", s.tag)).collect::<Vec<_>>().join(" "));
    }
  }
  dist.hit(&format!("case_{mode}"));
  if prerune {
    dist.hit("case_prerune");
  }
  let secs = t_case.elapsed().as_secs_f64();
  dist.add("case_secs", secs.round() as u64);
  let rss = peak_rss_mb();
  let d = dist.0.entry("peak_rss_mb".into()).or_insert(0);
  *d = (*d).max(rss);
  if p.short.is_none() {
    eprintln!("[flagsx] case {case} mode {mode}: done in {secs:.1}s, peak rss {rss} MB");
  }
  drop(slots);
}

fn kv<'a>(line: &'a str, key: &str) -> Option<&'a str> {
  line.split(' ').find_map(|t| t.strip_prefix(key).and_then(|r| r.strip_prefix('=')))
}

fn main() {
  let args = Args::parse();
  let mut out = Streams::create(&args.out);
  let mut dist = Dist::default();
  let scratch = args.out.join("scratch");
  std::fs::create_dir_all(&scratch).unwrap();
  assert!(args.stream == "signet" || args.stream == "regtest-fh", "unknown stream {}", args.stream);
  let short_stream = args.stream == "regtest-fh";
  let num = |k: &str, d: u64| args.get(k).map(|v| v.parse::<u64>().unwrap()).unwrap_or(d);
  let model = num("model", 1) == 1;
  let replay = args.replay.as_ref().map(|p| replay_lines(p));
  let skip = num("skip", 0) == 1 || replay.as_ref().map(|l| l.first().map(|f| f.starts_with("flagsx.skipped")).unwrap_or(true)).unwrap_or(false);
  if skip {
    out.emit(&format!("flagsx.skipped {}", args.stream), "ok");
    dist.hit("skipped");
  } else if let Some(lines) = replay {
    // a corpus file: every `flagsx.scenario` line is re-run from its parameters (same seed and
    // case => same chain); the other request lines of the file are regenerated by that run
    for line in lines.iter().filter(|l| l.starts_with("flagsx.scenario ")) {
      let p = Params {
        seed: kv(line, "seed").unwrap().parse().unwrap(),
        case: kv(line, "case").unwrap().parse().unwrap(),
        lossy: kv(line, "mode").unwrap() == "lossy",
        prefix: kv(line, "prefix").unwrap().parse().unwrap(),
        rounds: kv(line, "rounds").unwrap().parse().unwrap(),
        tailblocks: kv(line, "tailblocks").unwrap().parse().unwrap(),
        prerune: Some(kv(line, "prerune").unwrap() == "1"),
        model,
        short: match kv(line, "chain") {
          Some("regtest") => Some(kv(line, "first_rune").unwrap().parse().unwrap()),
          _ => None,
        },
      };
      let mut rng = Rng::new(p.seed);
      let mut r = rng.fork();
      for _ in 0..p.case {
        r = rng.fork();
      }
      run_case(&p, &mut r, &mut out, &mut dist, &scratch);
    }
  } else {
    let mut rng = Rng::new(args.seed);
    for case in 0..args.cases {
      let mut r = rng.fork();
      // vcheck gives shard k the seed `seed*1000003 + k` and case numbers from 0: alternate on
      // seed + case so that two one-case shards run one clean and one lossy chain
      let lossy = match args.get("mode") {
        Some("clean") => false,
        Some("lossy") => true,
        Some(m) => panic!("unknown mode {m}"),
        None => (args.seed.wrapping_add(case)) % 2 == 1,
      };
      let p = if short_stream {
        // chain regtest; first inscription height = prefix length in 8..=40, first rune height
        // 0 / below / equal / above it — both overridden for this process (ord::verif::overrides)
        let mut pr = Rng::new(args.seed.wrapping_mul(0x9e37_79b9).wrapping_add(case).wrapping_add(0xf1a9));
        let prefix = args.get("prefix").map(|v| v.parse().unwrap()).unwrap_or(8 + pr.below(33) as u32);
        let first_rune = match pr.below(8) {
          0 => 0,
          1..=3 => 1 + pr.below(u64::from(prefix) - 1) as u32,
          4 => prefix,
          _ => prefix + 1 + pr.below(10) as u32,
        };
        Params {
          seed: args.seed,
          case,
          lossy,
          prefix,
          rounds: num("rounds", 4),
          tailblocks: num("tailblocks", 3),
          prerune: args.get("prerune").map(|v| v == "1"),
          model,
          short: Some(args.get("first_rune").map(|v| v.parse().unwrap()).unwrap_or(first_rune)),
        }
      } else {
        Params {
          seed: args.seed,
          case,
          lossy,
          prefix: num("prefix", 112402) as u32,
          rounds: num("rounds", 8),
          tailblocks: num("tailblocks", 3),
          prerune: args.get("prerune").map(|v| v == "1"),
          model,
          short: None,
        }
      };
      run_case(&p, &mut r, &mut out, &mut dist, &scratch);
    }
  }
  let _ = std::fs::remove_dir_all(&scratch);
  dist.write(&args.out);
  out.finish();
}
