fn main(){ println!("{:?}", ord::verif::entry::sat_range_store((5,7))); }
