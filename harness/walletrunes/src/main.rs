//! Engine `eng_walletrunes` — properties C22 (stream `runes`) and C23 (stream `lock`).
//!
//! Every scenario = one wallet world (`env::World`, built from a `Recipe`) + one real wallet
//! command run in-process.  Every emitted line starts with `<op> <recipe> <cmdspec>` so that any
//! single line (e.g. from a replay file written by vcheck) is enough to re-run its scenario.
mod env;
use {
  bitcoin::{Address, Network, OutPoint, PubkeyHash, ScriptBuf, Transaction, WPubkeyHash, WScriptHash, hashes::Hash},
  common::{Args, Dist, Rng, Streams},
  env::*,
  ordinals::{Artifact, Rune, RuneId, Runestone},
  std::{
    collections::{BTreeMap, BTreeSet},
    str::FromStr,
  },
};

#[derive(Clone, Debug, PartialEq)]
struct SplitOutSpec {
  destk: usize,
  value: Option<u64>,
  runes: Vec<(usize, u128)>,
}

#[derive(Clone, Debug, PartialEq)]
enum Cmd {
  Send { ri: Option<usize>, dec: String, postage: Option<u64>, destk: usize },
  Burn { ri: Option<usize>, dec: String },
  /// `outs = None`: a split file naming a rune that was never etched
  Split { nolimit: bool, postage: Option<u64>, outs: Option<Vec<SplitOutSpec>> },
  Btc { sats: u64 },
  Mint { ri: usize },
  Offer { amount: u64 },
}

fn dest_scripts() -> Vec<ScriptBuf> {
  let mut p2tr = vec![0x51, 0x20];
  p2tr.extend([0x22; 32]);
  vec![
    ScriptBuf::new_p2wpkh(&WPubkeyHash::from_byte_array([0x11; 20])),
    ScriptBuf::from_bytes(p2tr),
    ScriptBuf::new_p2wsh(&WScriptHash::from_byte_array([0x33; 32])),
    ScriptBuf::new_p2pkh(&PubkeyHash::from_byte_array([0x44; 20])),
  ]
}

fn dest_address(k: usize) -> String {
  Address::from_script(&dest_scripts()[k], Network::Regtest).unwrap().to_string()
}

fn opt<T: ToString>(o: &Option<T>) -> String {
  o.as_ref().map(|v| v.to_string()).unwrap_or("-".into())
}

fn split_desc(outs: &[SplitOutSpec]) -> String {
  if outs.is_empty() {
    return "-".into();
  }
  outs
    .iter()
    .map(|o| {
      let rs = if o.runes.is_empty() {
        "-".into()
      } else {
        o.runes.iter().map(|(i, a)| format!("{i}={a}")).collect::<Vec<_>>().join("+")
      };
      let dust = dest_scripts()[o.destk].minimal_non_dust().to_sat();
      format!("{}/{}/{}/{}", o.destk, opt(&o.value), dust, rs)
    })
    .collect::<Vec<_>>()
    .join(";")
}

impl Cmd {
  fn encode(&self) -> String {
    match self {
      Cmd::Send { ri, dec, postage, destk } => {
        format!("send~{}~{}~{}~{}", ri.map(|i| i.to_string()).unwrap_or("x".into()), common::hextext(dec), opt(postage), destk)
      }
      Cmd::Burn { ri, dec } => format!("burn~{}~{}", ri.map(|i| i.to_string()).unwrap_or("x".into()), common::hextext(dec)),
      Cmd::Split { nolimit, postage, outs } => format!(
        "split~{}~{}~{}",
        u8::from(*nolimit),
        opt(postage),
        outs.as_ref().map(|o| split_desc(o)).unwrap_or("err".into())
      ),
      Cmd::Btc { sats } => format!("btc~{sats}"),
      Cmd::Mint { ri } => format!("mint~{ri}"),
      Cmd::Offer { amount } => format!("offer~{amount}"),
    }
  }

  fn decode(s: &str) -> Option<Cmd> {
    let f = s.split('~').collect::<Vec<_>>();
    let ri = |t: &str| if t == "x" { Some(None) } else { t.parse::<usize>().ok().map(Some) };
    let text = |t: &str| common::unhex(t).and_then(|b| String::from_utf8(b).ok());
    let o64 = |t: &str| if t == "-" { Some(None) } else { t.parse::<u64>().ok().map(Some) };
    match f.as_slice() {
      ["send", r, d, p, k] => Some(Cmd::Send { ri: ri(r)?, dec: text(d)?, postage: o64(p)?, destk: k.parse().ok().filter(|k| *k < 4)? }),
      ["burn", r, d] => Some(Cmd::Burn { ri: ri(r)?, dec: text(d)? }),
      ["split", n, p, d] => {
        let outs = if *d == "err" {
          None
        } else if *d == "-" {
          Some(Vec::new())
        } else {
          let mut v = Vec::new();
          for o in d.split(';') {
            let g = o.split('/').collect::<Vec<_>>();
            if g.len() != 4 {
              return None;
            }
            let mut runes = Vec::new();
            if g[3] != "-" {
              for e in g[3].split('+') {
                let (i, a) = e.split_once('=')?;
                runes.push((i.parse().ok()?, a.parse().ok()?));
              }
            }
            v.push(SplitOutSpec { destk: g[0].parse().ok().filter(|k| *k < 4)?, value: o64(g[1])?, runes });
          }
          Some(v)
        };
        Some(Cmd::Split { nolimit: *n == "1", postage: o64(p)?, outs })
      }
      ["btc", s] => Some(Cmd::Btc { sats: s.parse().ok()? }),
      ["mint", r] => Some(Cmd::Mint { ri: r.parse().ok()? }),
      ["offer", a] => Some(Cmd::Offer { amount: a.parse().ok()? }),
      _ => None,
    }
  }

  fn name(&self) -> &'static str {
    match self {
      Cmd::Send { .. } => "send",
      Cmd::Burn { .. } => "burn",
      Cmd::Split { .. } => "split",
      Cmd::Btc { .. } => "btc",
      Cmd::Mint { .. } => "mint",
      Cmd::Offer { .. } => "offer",
    }
  }
}

/// exact decimal text of `a / 10^div`
fn fmt_dec(a: u128, div: u8) -> String {
  if div == 0 {
    return a.to_string();
  }
  let p = 10u128.pow(u32::from(div));
  format!("{}.{:0width$}", a / p, a % p, width = usize::from(div))
}

const UNETCHED: u128 = MIN_NAME + 424_242;

fn join<T: ToString>(v: impl IntoIterator<Item = T>) -> String {
  let v = v.into_iter().map(|x| x.to_string()).collect::<Vec<_>>();
  if v.is_empty() { "-".into() } else { v.join(",") }
}

fn id_amts(m: &BTreeMap<RuneId, u128>) -> String {
  if m.is_empty() {
    return "-".into();
  }
  m.iter().map(|(id, a)| format!("{}:{}={}", id.block, id.tx, a)).collect::<Vec<_>>().join("+")
}

fn classify_common(e: &str) -> Option<String> {
  if let Some(p) = e.strip_prefix("PANIC ") {
    return Some(if p.starts_with("assertion `left == right` failed") {
      "panic decipher".into()
    } else if p.starts_with("called `Option::unwrap()` on a `None` value") {
      "panic required-overflow".into()
    } else {
      format!("panic {}", sanitize(p))
    });
  }
  None
}

fn sanitize(e: &str) -> String {
  e.split_whitespace().collect::<Vec<_>>().join("_").chars().take(160).collect()
}

fn classify_send(e: &str) -> String {
  if let Some(c) = classify_common(e) {
    c
  } else if e.starts_with("clap:") && (e.contains("decimal") || e.contains("outgoing")) {
    // the amount text does not parse as a `Decimal` (e.g. above u128): rejected by the argument parser
    "err amount".into()
  } else if e.contains("has not been etched") {
    "err not-etched".into()
  } else if e.contains("insufficient `") {
    "err insufficient".into()
  } else if e.contains("excessive precision") || e.contains("amount out of range") || e.contains("divisibility out of range") {
    "err amount".into()
  } else if e.contains("greater than zero") {
    "err zero-amount".into()
  } else {
    format!("err other:{}", sanitize(e))
  }
}

fn classify_split(e: &str) -> String {
  if let Some(c) = classify_common(e) {
    c
  } else if e.contains("must contain at least one output") {
    "err no-outputs".into()
  } else if e.contains("postage value") {
    "err dust-postage".into()
  } else if e.contains("has zero value for rune") {
    "err zero-value".into()
  } else if e.contains("wallet contains") && e.contains("but need") {
    "err shortfall".into()
  } else if e.contains("runestone size") {
    "err runestone-size".into()
  } else if e.contains("below dust threshold") {
    "err dust-output".into()
  } else if e.contains("has not been etched") {
    "err load".into()
  } else {
    format!("err other:{}", sanitize(e))
  }
}

struct Run<'a> {
  streams: &'a mut Streams,
  dist: &'a mut Dist,
  scratch: std::path::PathBuf,
}

impl Run<'_> {
  /// build the world, run the command, emit every line of the scenario
  fn scenario(&mut self, recipe: &Recipe, cmd: &Cmd) {
    let rs = recipe.encode();
    let cs = cmd.encode();
    let w = World::build(recipe, &self.scratch);
    let m = recipe.outs.len();
    self.dist.hit(&format!("cmd.{}", cmd.name()));

    // the wallet state per the REAL index and the mock node
    let pre = w.balances();
    let runic: Vec<usize> = (0..m).filter(|j| pre.get(&w.outpoints[*j]).is_some_and(|b| !b.is_empty())).collect();
    let inscribed: Vec<usize> = (0..m)
      .filter(|j| w.index.get_inscriptions_for_output(w.outpoints[*j]).unwrap().is_some_and(|v| !v.is_empty()))
      .collect();
    let locked_before = w.locked();
    let locked: Vec<usize> = (0..m).filter(|j| locked_before.contains(&w.outpoints[*j])).collect();
    // the recipe is what the index says (guards the world construction itself)
    for (j, o) in recipe.outs.iter().enumerate() {
      let want: BTreeMap<RuneId, u128> = o.runes.iter().map(|(i, a)| (w.rune_ids[*i], *a)).collect();
      assert_eq!(pre.get(&w.outpoints[j]).cloned().unwrap_or_default(), want, "world construction: rune balances of output {j}");
      assert_eq!(inscribed.contains(&j), o.ins > 0, "world construction: inscriptions of output {j}");
    }
    let ids = join(w.rune_ids.iter().map(|id| format!("{}:{}", id.block, id.tx)));
    let rune_name = |ri: &Option<usize>| Rune(ri.map(|i| recipe.runes[i].name).unwrap_or(UNETCHED)).to_string();
    let change_dust = w.script_of(w.outpoints[0]).minimal_non_dust().to_sat();

    // ---- run the real command
    let split_path = self.scratch.join(format!("splits-{}.yaml", std::process::id()));
    let mut argv: Vec<String> = Vec::new();
    let mut req: Vec<BTreeMap<RuneId, u128>> = Vec::new();
    let mut amt_tok = String::from("-");
    let mut subject: Vec<usize> = Vec::new();
    let holders = |ris: &[usize]| -> Vec<usize> {
      (0..m).filter(|j| !inscribed.contains(j) && recipe.outs[*j].runes.iter().any(|(i, _)| ris.contains(i))).collect()
    };
    match cmd {
      Cmd::Send { ri, dec, postage, destk } => {
        argv.extend(["send".into(), "--fee-rate".into(), "1".into()]);
        if let Some(p) = postage {
          argv.extend(["--postage".into(), format!("{p}sat")]);
        }
        argv.extend([dest_address(*destk), format!("{dec}:{}", rune_name(ri))]);
        // text that is not a `Decimal` at all is rejected by the argument parser, before anything else
        if ord::decimal::Decimal::from_str(dec).is_err() {
          amt_tok = "unparsable".into();
        }
        if let Some(i) = ri {
          subject = holders(&[*i]);
          if amt_tok == "unparsable" {
          } else if let Ok(a) = ord::decimal::Decimal::from_str(dec).and_then(|d| d.to_integer(recipe.runes[*i].div)) {
            amt_tok = a.to_string();
            req.push([(w.rune_ids[*i], a)].into());
          } else {
            amt_tok = "err".into();
          }
        }
      }
      Cmd::Burn { ri, dec } => {
        argv.extend(["burn".into(), "--fee-rate".into(), "1".into(), format!("{dec}:{}", rune_name(ri))]);
        // text that is not a `Decimal` at all is rejected by the argument parser, before anything else
        if ord::decimal::Decimal::from_str(dec).is_err() {
          amt_tok = "unparsable".into();
        }
        if let Some(i) = ri {
          subject = holders(&[*i]);
          if amt_tok == "unparsable" {
          } else if let Ok(a) = ord::decimal::Decimal::from_str(dec).and_then(|d| d.to_integer(recipe.runes[*i].div)) {
            amt_tok = a.to_string();
            req.push([(w.rune_ids[*i], a)].into());
          } else {
            amt_tok = "err".into();
          }
        }
      }
      Cmd::Split { nolimit, postage, outs } => {
        let mut yaml = String::from("outputs:\n");
        match outs {
          Some(outs) => {
            if outs.is_empty() {
              yaml = "outputs: []\n".into();
            }
            let mut ris = Vec::new();
            for o in outs {
              yaml.push_str(&format!("- address: {}\n", dest_address(o.destk)));
              if let Some(v) = o.value {
                yaml.push_str(&format!("  value: {v} sat\n"));
              }
              if o.runes.is_empty() {
                yaml.push_str("  runes: {}\n");
              } else {
                yaml.push_str("  runes:\n");
                for (i, a) in &o.runes {
                  yaml.push_str(&format!("    {}: {}\n", Rune(recipe.runes[*i].name), fmt_dec(*a, recipe.runes[*i].div)));
                  ris.push(*i);
                }
              }
              req.push(o.runes.iter().map(|(i, a)| (w.rune_ids[*i], *a)).collect());
            }
            subject = holders(&ris);
          }
          None => {
            yaml.push_str(&format!("- address: {}\n  runes:\n    {}: 1\n", dest_address(0), Rune(UNETCHED)));
          }
        }
        std::fs::write(&split_path, yaml).unwrap();
        argv.extend(["split".into(), "--fee-rate".into(), "1".into()]);
        if *nolimit {
          argv.push("--no-limit".into());
        }
        if let Some(p) = postage {
          argv.extend(["--postage".into(), format!("{p}sat")]);
        }
        argv.extend(["--splits".into(), split_path.display().to_string()]);
      }
      Cmd::Btc { sats } => {
        argv.extend(["send".into(), "--fee-rate".into(), "1".into(), dest_address(0), format!("{sats}sat")]);
      }
      Cmd::Mint { ri } => {
        argv.extend(["mint".into(), "--fee-rate".into(), "1".into(), "--rune".into(), Rune(recipe.runes[*ri].name).to_string()]);
      }
      Cmd::Offer { amount } => {
        let id = w.foreign_inscription.map(|i| i.to_string()).unwrap_or(format!("{}i0", "0".repeat(64)));
        argv.extend([
          "offer".into(),
          "create".into(),
          "--inscription".into(),
          id,
          "--amount".into(),
          format!("{amount}sat"),
          "--fee-rate".into(),
          "1".into(),
        ]);
      }
    }
    let argv_ref = argv.iter().map(|s| s.as_str()).collect::<Vec<_>>();
    let result = w.run(&argv_ref);
    let _ = std::fs::remove_file(&split_path);

    // ---- the transaction the command produced
    let mempool = w.mempool();
    let tx: Option<Transaction> = match (&result, cmd) {
      (Ok(json), Cmd::Offer { .. }) => serde_json::from_str::<serde_json::Value>(json)
        .ok()
        .and_then(|v| v["psbt"].as_str().map(|s| s.to_string()))
        .and_then(|b64| ord::base64_decode(&b64).ok())
        .and_then(|bytes| bitcoin::Psbt::deserialize(&bytes).ok())
        .map(|p| p.unsigned_tx),
      (Ok(_), _) => {
        assert_eq!(mempool.len(), 1, "one broadcast transaction expected");
        Some(mempool[0].clone())
      }
      (Err(_), _) => {
        assert!(mempool.is_empty(), "a failed command broadcast something");
        None
      }
    };
    self.dist.hit(&format!(
      "{}.{}",
      cmd.name(),
      match &result {
        Ok(_) => "ok".to_string(),
        Err(e) => match cmd {
          Cmd::Split { .. } => classify_split(e),
          _ => classify_send(e),
        }
        .split(':')
        .next()
        .unwrap()
        .replace(' ', "-"),
      }
    ));

    let dests = dest_scripts();
    let index_of = |o: &OutPoint| w.outpoints.iter().position(|p| p == o);
    let kind = |s: &ScriptBuf| -> &'static str {
      if s.is_op_return() {
        "R"
      } else if dests.contains(s) {
        "D"
      } else if Address::from_script(s, Network::Regtest).is_ok_and(|a| w.core.state().is_wallet_address(&a)) {
        "W"
      } else {
        "?"
      }
    };
    let render_tx = |t: &Transaction| -> String {
      let ins = join(t.input.iter().filter_map(|i| index_of(&i.previous_output)).filter(|j| runic.contains(j)));
      let n = t.output.len();
      let mut d = 0;
      let outs = join(t.output.iter().enumerate().map(|(v, o)| match kind(&o.script_pubkey) {
        "R" => "R".to_string(),
        "W" if v + 1 == n => "W:*".to_string(),
        "W" => format!("W:{}", o.value.to_sat()),
        "D" => {
          d += 1;
          format!("D{}:{}", d - 1, o.value.to_sat())
        }
        _ => format!("?:{}", o.value.to_sat()),
      }));
      let edicts = match Runestone::decipher(t) {
        None => "none".to_string(),
        Some(Artifact::Cenotaph(_)) => "cenotaph".to_string(),
        Some(Artifact::Runestone(r)) => {
          let e = join(r.edicts.iter().map(|e| format!("{}:{}:{}:{}", e.id.block, e.id.tx, e.amount, e.output)));
          if r.pointer.is_some() || r.mint.is_some() || r.etching.is_some() { format!("{e}/extra") } else { e }
        }
      };
      format!("in={ins} outs={outs} edicts={edicts}")
    };

    // ---- main correspondence line
    match cmd {
      Cmd::Send { ri, .. } | Cmd::Burn { ri, .. } => {
        let (dest, postage) = match cmd {
          Cmd::Send { postage, .. } => ("1", postage.unwrap_or(10_000)),
          _ => ("0", 10_000),
        };
        let answer = match (&result, &tx) {
          (Ok(_), Some(t)) => format!("ok {}", render_tx(t)),
          (Err(e), _) => classify_send(e),
          _ => "ok ?".into(),
        };
        self.streams.emit(
          &format!("wr.send {rs} {cs} {ids} {} {amt_tok} {dest} {postage}", ri.map(|i| i.to_string()).unwrap_or("x".into())),
          &answer,
        );
        if ri.is_some() && amt_tok != "err" && amt_tok != "unparsable" {
          self.streams.emit(
            &format!("wr.oracle.zero {rs} {cs} {} {amt_tok} {}", cmd.name(), if result.is_ok() { "ok" } else { "err" }),
            "true",
          );
        }
      }
      Cmd::Split { nolimit, postage, outs } => {
        let answer = match (&result, &tx) {
          (Ok(_), Some(t)) => format!("ok {}", render_tx(t)),
          (Err(e), _) => classify_split(e),
          _ => "ok ?".into(),
        };
        self.streams.emit(
          &format!(
            "wr.split {rs} {cs} {ids} {} {} {change_dust} {}",
            u8::from(*nolimit),
            opt(postage),
            outs.as_ref().map(|o| split_desc(o)).unwrap_or("err".into())
          ),
          &answer,
        );
      }
      _ => {}
    }

    // ---- C23: the lock call and the funded inputs
    let locked_now_set = w.locked();
    let newly: Vec<usize> = (0..m).filter(|j| locked_now_set.contains(&w.outpoints[*j]) && !locked_before.contains(&w.outpoints[*j])).collect();
    let foreign_locked = locked_now_set.iter().filter(|o| index_of(o).is_none()).count();
    assert_eq!(foreign_locked, 0, "the wallet locked an output that is not in the recipe");
    let reached_lock = match cmd {
      Cmd::Mint { .. } | Cmd::Offer { .. } => result.is_ok(),
      _ => true,
    } && !matches!(&result, Err(e) if e.starts_with("clap:"));
    if reached_lock {
      self.streams.emit(
        &format!("wr.lock {rs} {cs} {} {} {} {}", join(0..m), join(&inscribed), join(&runic), join(&locked)),
        &join(&newly),
      );
    }
    if let Some(t) = &tx {
      let locked_now: Vec<usize> = (0..m).filter(|j| locked_now_set.contains(&w.outpoints[*j])).collect();
      let inputs: Vec<usize> = t.input.iter().filter_map(|i| index_of(&i.previous_output)).collect();
      self.dist.add("inputs.recipe", inputs.len() as u64);
      self.dist.add("inputs.other", (t.input.len() - inputs.len()) as u64);
      self.dist.add("inputs.noncardinal", inputs.iter().filter(|j| runic.contains(j) || inscribed.contains(j)).count() as u64);
      // would an unlocked non-cardinal output have been picked first by the mock node's
      // largest-first selection?  (how sensitive this scenario is to a missing lock)
      let max_card = (0..m).filter(|j| !runic.contains(j) && !inscribed.contains(j) && !locked.contains(j)).map(|j| recipe.outs[j].value).max().unwrap_or(0);
      if (0..m).any(|j| (runic.contains(&j) || inscribed.contains(&j)) && !locked.contains(&j) && !subject.contains(&j) && recipe.outs[j].value > max_card) {
        self.dist.hit("lock.sensitive");
      }
      self.streams.emit(
        &format!(
          "wr.oracle.cardinal {rs} {cs} {} {} {} {} {} {} {} {}",
          cmd.name(),
          join(0..m),
          join(&inscribed),
          join(&runic),
          join(&locked),
          join(&locked_now),
          join(&inputs),
          join(&subject)
        ),
        "true",
      );
    }

    // ---- C22: mine, index, compare balances with the request
    if let (Some(t), true) = (&tx, matches!(cmd, Cmd::Send { .. } | Cmd::Burn { .. } | Cmd::Split { .. })) {
      w.mine_and_index();
      let post = w.balances();
      let txid = t.compute_txid();
      let mut pre_sum: BTreeMap<RuneId, u128> = BTreeMap::new();
      for i in &t.input {
        for (id, a) in pre.get(&i.previous_output).cloned().unwrap_or_default() {
          *pre_sum.entry(id).or_default() += a;
        }
      }
      let kinds = join(t.output.iter().map(|o| kind(&o.script_pubkey)));
      let msg = match Runestone::decipher(t) {
        None => "none".to_string(),
        Some(Artifact::Cenotaph(_)) => "cenotaph".to_string(),
        Some(Artifact::Runestone(r)) => format!(
          "{}/{}",
          join(r.edicts.iter().map(|e| format!("{}:{}:{}:{}", e.id.block, e.id.tx, e.amount, e.output))),
          opt(&r.pointer)
        ),
      };
      let post_s = (0..t.output.len())
        .map(|v| id_amts(&post.get(&OutPoint { txid, vout: v as u32 }).cloned().unwrap_or_default()))
        .collect::<Vec<_>>()
        .join(";");
      let req_s = req.iter().map(id_amts).collect::<Vec<_>>().join(";");
      self.dist.hit(&format!("moved.{}", cmd.name()));
      self.streams.emit(
        &format!("wr.oracle.moved {rs} {cs} {} {amt_tok} {kinds} {msg} {} {post_s} {req_s}", cmd.name(), id_amts(&pre_sum)),
        "true",
      );
    }
  }
}

// ------------------------------------------------------------------ generators

fn gen_runes(rng: &mut Rng, k: usize, mintable: bool) -> Vec<RuneSpec> {
  let mut names = BTreeSet::new();
  while names.len() < k {
    names.insert(MIN_NAME + rng.below(1_000_000) as u128 * 7 + 1);
  }
  let mut names: Vec<u128> = names.into_iter().collect();
  // etching order independent of name order
  for i in (1..names.len()).rev() {
    names.swap(i, rng.below(i as u64 + 1) as usize);
  }
  names
    .into_iter()
    .enumerate()
    .map(|(i, name)| RuneSpec {
      name,
      div: *rng.pick(&[0u8, 0, 1, 2, 6]),
      mint: if mintable && i == 0 { Some((rng.range(1, 1000) as u128, 100)) } else { None },
    })
    .collect()
}

fn gen_amount(rng: &mut Rng) -> u128 {
  match rng.below(10) {
    0 => 1,
    1..=5 => rng.range(1, 5000) as u128,
    6 | 7 => rng.range(1, 1 << 40) as u128,
    8 => (rng.u128_any_width() >> 2).max(1),
    _ => 1u128 << rng.range(60, 124),
  }
}

/// a wallet for the rune commands: 1–4 outputs per rune, some outputs holding two runes, an
/// inscribed one, a locked one, a couple of cardinals and the never-locked reserve (last)
fn gen_recipe(rng: &mut Rng, for_lock: bool) -> Recipe {
  let k = rng.range(if for_lock { 1 } else { 2 }, 4) as usize;
  let runes = gen_runes(rng, k, for_lock);
  let mut outs = Vec::new();
  // values: the reserve cardinal is 1 BTC; non-cardinal outputs are sometimes worth more, so
  // that the mock node's largest-first funding would take them if they were left unlocked
  let value = |rng: &mut Rng| match rng.below(6) {
    0 => 330 + rng.below(300),
    1 | 2 => 10_000,
    3 => rng.range(1_000, 1_000_000),
    _ => rng.range(150_000_000, 400_000_000),
  };
  for ri in 0..k {
    if !for_lock && rng.chance(1, 12) {
      continue; // a rune the wallet does not hold
    }
    for _ in 0..rng.range(1, if for_lock { 2 } else { 4 }) {
      let mut rs = vec![(ri, gen_amount(rng))];
      if k > 1 && rng.chance(1, 3) {
        let other = (ri + 1 + rng.below(k as u64 - 1) as usize) % k;
        rs.push((other, gen_amount(rng)));
        if k > 2 && rng.chance(1, 4) {
          let third = (0..k).find(|i| *i != ri && *i != other).unwrap();
          rs.push((third, gen_amount(rng)));
        }
      }
      // inscribed + runic only when already locked (the mock node rejects a duplicate in one
      // lockunspent call; Bitcoin Core does not)
      let both = rng.chance(1, 10);
      outs.push(OutSpec { value: value(rng), runes: rs, ins: u8::from(both), locked: both || rng.chance(1, 12) });
    }
  }
  for _ in 0..rng.range(0, 2) {
    outs.push(OutSpec { value: value(rng), runes: vec![], ins: rng.range(1, 2) as u8, locked: rng.chance(1, 8) });
  }
  for _ in 0..rng.range(0, 2) {
    outs.push(OutSpec { value: rng.range(1_000, 50_000_000), runes: vec![], ins: 0, locked: rng.chance(1, 6) });
  }
  // shuffle (outpoint order = recipe order), then the reserve
  for i in (1..outs.len()).rev() {
    outs.swap(i, rng.below(i as u64 + 1) as usize);
  }
  outs.push(OutSpec { value: 100_000_000, runes: vec![], ins: 0, locked: false });
  Recipe { runes, outs, foreign_ins: for_lock && rng.chance(1, 2) }
}

fn balance_of(recipe: &Recipe, ri: usize) -> Vec<u128> {
  recipe.outs.iter().filter(|o| o.ins == 0).filter_map(|o| o.runes.iter().find(|(i, _)| *i == ri).map(|(_, a)| *a)).collect()
}

/// requested amount relative to what the wallet's eligible outputs hold, in selection order
fn gen_request(rng: &mut Rng, recipe: &Recipe, ri: usize, dist: &mut Dist) -> u128 {
  let bals = balance_of(recipe, ri);
  let total: u128 = bals.iter().sum();
  let first = bals.first().copied().unwrap_or(0);
  let (name, a) = match rng.below(12) {
    0 => ("zero", 0),
    1 => ("one", 1),
    2 => ("first-exact", first),
    3 => ("first-minus-1", first.saturating_sub(1)),
    4 => ("first-plus-1", first + 1),
    5 => ("total", total),
    6 => ("total-plus-1", total + 1),
    7 if bals.len() > 1 => ("two-exact", bals[0] + bals[1]),
    8 if bals.len() > 1 => ("two-inexact", bals[0] + 1 + rng.below(bals[1].min(1 << 60) as u64) as u128 % bals[1]),
    9 => ("huge", 1u128 << 126),
    _ => ("random", if total == 0 { 5 } else { 1 + rng.next_u128() % total }),
  };
  dist.hit(&format!("req.{name}"));
  a
}

fn gen_dec(rng: &mut Rng, a: u128, div: u8, dist: &mut Dist) -> String {
  let mut s = fmt_dec(a, div);
  if div > 0 && rng.chance(1, 3) {
    // drop trailing zeros of the fraction
    while s.ends_with('0') {
      s.pop();
    }
    if s.ends_with('.') {
      s.pop();
    }
  }
  if rng.chance(1, 25) {
    dist.hit("req.excess-precision");
    if div == 0 { format!("{a}.5") } else { format!("{}1", fmt_dec(a, div)) }
  } else {
    s
  }
}

fn gen_split(rng: &mut Rng, recipe: &Recipe, dist: &mut Dist) -> Cmd {
  let k = recipe.runes.len();
  if rng.chance(1, 30) {
    return Cmd::Split { nolimit: false, postage: None, outs: None };
  }
  let n_out = if rng.chance(1, 30) { 0 } else { rng.range(1, 3) as usize };
  // remaining balance per rune so that most files are satisfiable
  let mut left: Vec<u128> = (0..k).map(|ri| balance_of(recipe, ri).iter().sum()).collect();
  let exact = rng.chance(1, 4);
  let mut outs = Vec::new();
  for oi in 0..n_out {
    let mut runes = Vec::new();
    for ri in 0..k {
      if !rng.chance(1, 2) {
        continue;
      }
      let a = match rng.below(14) {
        0 => 0,
        1 => left[ri] + 1,
        2 => 1u128 << 127,
        _ if exact && oi + 1 == n_out => left[ri],
        _ => {
          if left[ri] == 0 { 3 } else { 1 + rng.next_u128() % left[ri].div_ceil(n_out as u128 - oi as u128) }
        }
      };
      left[ri] = left[ri].saturating_sub(a);
      runes.push((ri, a));
    }
    let destk = rng.below(4) as usize;
    let dust = dest_scripts()[destk].minimal_non_dust().to_sat();
    let value = match rng.below(8) {
      0 => Some(dust),
      1 => Some(dust - 1),
      2 => Some(rng.range(1_000, 20_000)),
      _ => None,
    };
    outs.push(SplitOutSpec { destk, value, runes });
  }
  dist.hit(&format!("split.outputs.{n_out}"));
  let postage = match rng.below(8) {
    0 => Some(329),
    1 => Some(330),
    2 => Some(rng.range(1_000, 30_000)),
    _ => None,
  };
  Cmd::Split { nolimit: rng.chance(1, 4), postage, outs: Some(outs) }
}

fn gen_rune_cmd(rng: &mut Rng, recipe: &Recipe, dist: &mut Dist) -> Cmd {
  let k = recipe.runes.len();
  match rng.below(10) {
    0..=3 => {
      let ri = rng.below(k as u64) as usize;
      let a = gen_request(rng, recipe, ri, dist);
      let dec = gen_dec(rng, a, recipe.runes[ri].div, dist);
      let postage = match rng.below(5) {
        0 => Some(rng.range(330, 50_000)),
        _ => None,
      };
      Cmd::Send { ri: if rng.chance(1, 30) { None } else { Some(ri) }, dec, postage, destk: rng.below(4) as usize }
    }
    4..=6 => {
      let ri = rng.below(k as u64) as usize;
      let a = gen_request(rng, recipe, ri, dist);
      let dec = gen_dec(rng, a, recipe.runes[ri].div, dist);
      Cmd::Burn { ri: if rng.chance(1, 30) { None } else { Some(ri) }, dec }
    }
    _ => gen_split(rng, recipe, dist),
  }
}

fn gen_lock_cmd(rng: &mut Rng, recipe: &Recipe, dist: &mut Dist) -> Cmd {
  match rng.below(6) {
    0 => Cmd::Btc { sats: *rng.pick(&[1_000u64, 50_000, 1_000_000, 60_000_000]) },
    1 => Cmd::Mint { ri: 0 },
    2 if recipe.foreign_ins => Cmd::Offer { amount: rng.range(1_000, 5_000_000) },
    _ => {
      // rune commands that succeed most of the time
      let ri = rng.below(recipe.runes.len() as u64) as usize;
      let bals = balance_of(recipe, ri);
      let total: u128 = bals.iter().sum();
      let a = if total == 0 { 1 } else { 1 + rng.next_u128() % total };
      let dec = fmt_dec(a, recipe.runes[ri].div);
      match rng.below(3) {
        0 => Cmd::Send { ri: Some(ri), dec, postage: None, destk: 0 },
        1 => Cmd::Burn { ri: Some(ri), dec },
        _ => {
          dist.hit("split.outputs.1");
          Cmd::Split { nolimit: false, postage: None, outs: Some(vec![SplitOutSpec { destk: 1, value: None, runes: vec![(ri, a)] }]) }
        }
      }
    }
  }
}

fn main() {
  let args = Args::parse();
  std::fs::create_dir_all(&args.out).unwrap();
  let scratch = std::path::PathBuf::from(format!("/dev/shm/wr-{}-{}", std::process::id(), args.seed));
  std::fs::create_dir_all(&scratch).unwrap();
  unsafe {
    std::env::set_var("ORD_INTEGRATION_TEST", "1");
    std::env::set_var("TMPDIR", &scratch);
  }
  let mut streams = Streams::create(&args.out);
  let mut dist = Dist::default();
  let debug = args.get("debug").is_some();
  if !debug {
    common::silence_panics();
  }
  let t0 = std::time::Instant::now();
  {
    let mut run = Run { streams: &mut streams, dist: &mut dist, scratch: scratch.clone() };
    if let Some(path) = &args.replay {
      let mut seen = BTreeSet::new();
      for line in common::replay_lines(path) {
        let toks = line.split(' ').collect::<Vec<_>>();
        if toks.len() < 3 || !toks[0].starts_with("wr.") {
          continue;
        }
        let (Some(recipe), Some(cmd)) = (Recipe::decode(toks[1]), Cmd::decode(toks[2])) else {
          run.streams.emit(&line, "bad-op");
          continue;
        };
        if seen.insert((toks[1].to_string(), toks[2].to_string())) {
          run.scenario(&recipe, &cmd);
          shut_down_leaked_threads();
        }
      }
    } else {
      let mut rng = Rng::new(args.seed.wrapping_mul(0x9e37_79b9).wrapping_add(match args.stream.as_str() {
        "runes" => 1,
        "lock" => 2,
        s => panic!("unknown stream {s}"),
      }));
      for case in 0..args.cases {
        let for_lock = args.stream == "lock";
        let recipe = gen_recipe(&mut rng, for_lock);
        let cmd = if for_lock { gen_lock_cmd(&mut rng, &recipe, run.dist) } else { gen_rune_cmd(&mut rng, &recipe, run.dist) };
        if debug {
          eprintln!("case {case}: {} {}", recipe.encode(), cmd.encode());
        }
        run.scenario(&recipe, &cmd);
        if case % 8 == 7 {
          shut_down_leaked_threads();
        }
      }
    }
  }
  shut_down_leaked_threads();
  dist.add("wall_ms", t0.elapsed().as_millis() as u64);
  dist.write(&args.out);
  streams.finish();
  let _ = std::fs::remove_dir_all(&scratch);
}

/// each in-process `ord server` leaves its (idle, `--no-sync`) index thread polling the global
/// shutdown flag every 100 ms; raise the flag between worlds so they exit
fn shut_down_leaked_threads() {
  ord::shut_down();
  std::thread::sleep(std::time::Duration::from_millis(130));
  ord::cancel_shutdown();
}
