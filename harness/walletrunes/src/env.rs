//! One wallet world per scenario: a mock node whose chain is written directly (so every txid,
//! value and rune balance is determined by the recipe), a real ord `Index` + the real ord HTTP
//! server (in-process, `--no-sync`: the harness calls `Index::update` itself), and the real
//! wallet commands run through `ord::verif::run_command` (= `Arguments::run`).
use {
  bitcoin::{
    Amount, Block, BlockHash, CompactTarget, OutPoint, ScriptBuf, Sequence, Transaction, TxIn,
    TxMerkleNode, TxOut, Txid, WPubkeyHash, Witness,
    absolute::LockTime,
    block::{Header, Version as BlockVersion},
    hashes::Hash,
    script::{self, PushBytes},
    transaction::Version,
  },
  ord::{Index, Inscription},
  ordinals::{Edict, Etching, Rune, RuneId, Runestone},
  std::{
    collections::{BTreeMap, BTreeSet},
    net::SocketAddr,
    path::PathBuf,
    sync::Arc,
    time::Duration,
  },
};

/// 13 letters: the shortest name etchable on regtest at low heights
pub const MIN_NAME: u128 = 99246114928149462;

#[derive(Clone, Debug, PartialEq)]
pub struct RuneSpec {
  pub name: u128,
  pub div: u8,
  /// open mint terms (amount, cap)
  pub mint: Option<(u128, u128)>,
}

#[derive(Clone, Debug, PartialEq)]
pub struct OutSpec {
  pub value: u64,
  /// (index into `Recipe::runes`, amount > 0), at most one entry per rune
  pub runes: Vec<(usize, u128)>,
  /// number of inscriptions on the output
  pub ins: u8,
  pub locked: bool,
}

/// Everything that determines the world.  Runes are etched in list order (ids `(H, 1+i)`).
#[derive(Clone, Debug, PartialEq)]
pub struct Recipe {
  pub runes: Vec<RuneSpec>,
  pub outs: Vec<OutSpec>,
  /// an inscription on an output that does not belong to the wallet (for `offer create`)
  pub foreign_ins: bool,
}

impl Recipe {
  pub fn encode(&self) -> String {
    let runes = self
      .runes
      .iter()
      .map(|r| match r.mint {
        Some((a, c)) => format!("{}:{}:{}:{}", r.name, r.div, a, c),
        None => format!("{}:{}", r.name, r.div),
      })
      .collect::<Vec<_>>()
      .join(",");
    let outs = self
      .outs
      .iter()
      .map(|o| {
        let rs = if o.runes.is_empty() {
          "-".to_string()
        } else {
          o.runes
            .iter()
            .map(|(i, a)| format!("{i}={a}"))
            .collect::<Vec<_>>()
            .join("+")
        };
        format!("{}:{}:{}:{}", o.value, o.ins, u8::from(o.locked), rs)
      })
      .collect::<Vec<_>>()
      .join(",");
    format!(
      "rn={}/out={}{}",
      if runes.is_empty() { "-" } else { &runes },
      if outs.is_empty() { "-" } else { &outs },
      if self.foreign_ins { "/fi=1" } else { "" }
    )
  }

  pub fn decode(s: &str) -> Option<Recipe> {
    let (a, b) = s.split_once("/out=")?;
    let (b, foreign_ins) = match b.strip_suffix("/fi=1") {
      Some(b) => (b, true),
      None => (b, false),
    };
    let a = a.strip_prefix("rn=")?;
    let mut runes = Vec::new();
    if a != "-" {
      for r in a.split(',') {
        let f = r.split(':').collect::<Vec<_>>();
        let mint = match f.len() {
          2 => None,
          4 => Some((f[2].parse().ok()?, f[3].parse().ok()?)),
          _ => return None,
        };
        runes.push(RuneSpec { name: f[0].parse().ok()?, div: f[1].parse().ok()?, mint });
      }
    }
    let mut outs = Vec::new();
    if b != "-" {
      for o in b.split(',') {
        let parts = o.split(':').collect::<Vec<_>>();
        if parts.len() != 4 {
          return None;
        }
        let mut rs = Vec::new();
        if parts[3] != "-" {
          for e in parts[3].split('+') {
            let (i, a) = e.split_once('=')?;
            let i: usize = i.parse().ok()?;
            if i >= runes.len() {
              return None;
            }
            rs.push((i, a.parse().ok()?));
          }
        }
        outs.push(OutSpec {
          value: parts[0].parse().ok()?,
          ins: parts[1].parse().ok()?,
          locked: parts[2] == "1",
          runes: rs,
        });
      }
    }
    Some(Recipe { runes, outs, foreign_ins })
  }
}

pub struct World {
  pub core: mockcore::Handle,
  pub index: Arc<Index>,
  server: axum_server::Handle<SocketAddr>,
  pub port: u16,
  pub dir: tempfile::TempDir,
  pub cookie: PathBuf,
  pub rune_ids: Vec<RuneId>,
  /// wallet outputs in recipe order
  pub outpoints: Vec<OutPoint>,
  /// a script that does not belong to the wallet
  pub foreign: ScriptBuf,
  pub foreign_inscription: Option<ord::InscriptionId>,
  capture: PathBuf,
}

fn foreign_script(tag: u8) -> ScriptBuf {
  ScriptBuf::new_p2wpkh(&WPubkeyHash::from_byte_array([tag; 20]))
}

/// a fixed key-path-only P2TR script (the commit output of an etching)
fn p2tr_script(tag: u8) -> ScriptBuf {
  let mut bytes = vec![0x51, 0x20];
  bytes.extend([tag; 32]);
  ScriptBuf::from_bytes(bytes)
}

fn txin(prev: OutPoint, witness: Witness) -> TxIn {
  TxIn { previous_output: prev, script_sig: ScriptBuf::new(), sequence: Sequence::MAX, witness }
}

fn tx(input: Vec<TxIn>, output: Vec<TxOut>) -> Transaction {
  Transaction { version: Version(2), lock_time: LockTime::ZERO, input, output }
}

fn out(value: u64, script_pubkey: ScriptBuf) -> TxOut {
  TxOut { value: Amount::from_sat(value), script_pubkey }
}

/// Append one block holding the mempool to the mock node's chain.  The coinbase pays `subsidy`
/// to a script outside the wallet, so the wallet owns exactly the recipe's outputs (plus what
/// its own transactions create).
pub fn mine(core: &mockcore::Handle, subsidy: u64) -> Block {
  let mut state = core.state();
  let height = state.hashes.len();
  let coinbase = Transaction {
    version: Version(2),
    lock_time: LockTime::ZERO,
    input: vec![TxIn {
      previous_output: OutPoint::null(),
      script_sig: script::Builder::new().push_int(height as i64).push_int(7).into_script(),
      sequence: Sequence::MAX,
      witness: Witness::new(),
    }],
    output: vec![out(subsidy, foreign_script(0xc0))],
  };
  let mempool = std::mem::take(&mut state.mempool);
  let block = Block {
    header: Header {
      version: BlockVersion::ONE,
      prev_blockhash: *state.hashes.last().unwrap(),
      merkle_root: TxMerkleNode::all_zeros(),
      time: height as u32,
      bits: CompactTarget::from_consensus(0),
      nonce: height as u32,
    },
    txdata: std::iter::once(coinbase).chain(mempool).collect(),
  };
  for t in &block.txdata {
    let txid = t.compute_txid();
    state.transactions.insert(txid, t.clone());
    state.txid_to_block_height.insert(txid, height as u32);
    for i in &t.input {
      if !i.previous_output.is_null() {
        assert!(state.utxos.remove(&i.previous_output).is_some(), "spent output missing");
      }
    }
    for (vout, o) in t.output.iter().enumerate() {
      if !o.script_pubkey.is_op_return() {
        state.utxos.insert(OutPoint { txid, vout: vout as u32 }, o.value);
      }
    }
  }
  let hash: BlockHash = block.block_hash();
  state.blocks.insert(hash, block.clone());
  state.hashes.push(hash);
  block
}

fn push_tx(core: &mockcore::Handle, t: Transaction) -> Txid {
  let txid = t.compute_txid();
  core.state().mempool.push(t);
  txid
}

impl World {
  pub fn build(recipe: &Recipe, scratch: &std::path::Path) -> World {
    let core = mockcore::builder().network(bitcoin::Network::Regtest).build();
    let dir = tempfile::Builder::new().prefix("w").tempdir_in(scratch).unwrap();
    let cookie = dir.path().join("cookie");
    std::fs::write(&cookie, "username:password").unwrap();
    let foreign = foreign_script(0xee);
    let k = recipe.runes.len();

    // block 1: the only subsidy
    let b1 = mine(&core, 50 * 100_000_000);
    let cb = OutPoint { txid: b1.txdata[0].compute_txid(), vout: 0 };

    // block 2: commit outputs + funding output
    let mut outs = Vec::new();
    for i in 0..k {
      outs.push(out(10_000, p2tr_script(i as u8 + 1)));
    }
    let funding_value = 50 * 100_000_000 - 10_000 * k as u64;
    outs.push(out(funding_value, foreign_script(0xf0)));
    let commit = push_tx(&core, tx(vec![txin(cb, Witness::new())], outs));
    mine(&core, 0);
    for _ in 0..Runestone::COMMIT_CONFIRMATIONS - 1 {
      mine(&core, 0);
    }

    // etchings: ids (H, 1 + i)
    let etch_height = core.state().hashes.len() as u64;
    let mut holding = Vec::new();
    let mut rune_ids = Vec::new();
    let total: BTreeMap<usize, u128> = {
      let mut m = BTreeMap::new();
      for o in &recipe.outs {
        for (i, a) in &o.runes {
          *m.entry(*i).or_default() += *a;
        }
      }
      m
    };
    for (i, r) in recipe.runes.iter().enumerate() {
      let rune = Rune(r.name);
      let tapscript = script::Builder::new()
        .push_slice::<&PushBytes>(rune.commitment().as_slice().try_into().unwrap())
        .into_script();
      let mut witness = Witness::new();
      witness.push(tapscript);
      witness.push([]);
      let premine = total.get(&i).copied().unwrap_or(0);
      let runestone = Runestone {
        etching: Some(Etching {
          divisibility: Some(r.div),
          premine: Some(premine),
          rune: Some(rune),
          spacers: None,
          symbol: None,
          terms: r.mint.map(|(amount, cap)| ordinals::Terms {
            amount: Some(amount),
            cap: Some(cap),
            height: (None, None),
            offset: (None, None),
          }),
          turbo: false,
        }),
        ..Default::default()
      };
      let txid = push_tx(
        &core,
        tx(
          vec![txin(OutPoint { txid: commit, vout: i as u32 }, witness)],
          vec![out(0, runestone.encipher()), out(10_000, foreign_script(0xf1))],
        ),
      );
      holding.push(OutPoint { txid, vout: 1 });
      rune_ids.push(RuneId { block: etch_height, tx: 1 + i as u32 });
    }
    mine(&core, 0);

    // distribution: input 0 = funding output (carries the inscription envelopes), then the
    // holding outputs; output 0 = runestone, outputs 1..=m = wallet outputs, last = sink
    let m = recipe.outs.len();
    let mut edicts = Vec::new();
    let mut txouts = vec![out(0, ScriptBuf::new())];
    let mut offset = 0u64;
    let mut builder = script::Builder::new();
    let mut any_ins = false;
    {
      let mut state = core.state();
      for (j, o) in recipe.outs.iter().enumerate() {
        for (i, a) in &o.runes {
          edicts.push(Edict { id: rune_ids[*i], amount: *a, output: 1 + j as u32 });
        }
        for n in 0..o.ins {
          let ins = Inscription {
            content_type: Some(b"text/plain".to_vec()),
            body: Some(vec![b'a' + n, j as u8]),
            pointer: Some(Inscription::pointer_value(offset + u64::from(n).min(o.value.saturating_sub(1)))),
            ..Default::default()
          };
          builder = ins.append_reveal_script_to_builder(builder);
          any_ins = true;
        }
        let address = state.new_address(false);
        txouts.push(out(o.value, address.script_pubkey()));
        offset += o.value;
      }
    }
    let input_total = funding_value + 10_000 * k as u64;
    let mut n_ins = recipe.outs.iter().map(|o| u32::from(o.ins)).sum::<u32>();
    let mut foreign_index = None;
    if recipe.foreign_ins {
      let ins = Inscription {
        content_type: Some(b"text/plain".to_vec()),
        body: Some(b"foreign".to_vec()),
        pointer: Some(Inscription::pointer_value(offset)),
        ..Default::default()
      };
      builder = ins.append_reveal_script_to_builder(builder);
      any_ins = true;
      foreign_index = Some(n_ins);
      n_ins += 1;
      txouts.push(out(10_000, foreign_script(0xab)));
      offset += 10_000;
    }
    let _ = n_ins;
    assert!(offset < input_total, "recipe values exceed the funding");
    txouts.push(out(input_total - offset, foreign.clone()));
    let runestone = Runestone { edicts, pointer: Some(txouts.len() as u32 - 1), ..Default::default() };
    txouts[0] = out(0, runestone.encipher());
    let mut witness = Witness::new();
    if any_ins {
      witness.push(builder.into_script());
      witness.push([]);
    }
    let mut inputs = vec![txin(OutPoint { txid: commit, vout: k as u32 }, witness)];
    for h in &holding {
      inputs.push(txin(*h, Witness::new()));
    }
    let dist = push_tx(&core, tx(inputs, txouts));
    mine(&core, 0);
    let outpoints = (0..m).map(|j| OutPoint { txid: dist, vout: 1 + j as u32 }).collect::<Vec<_>>();
    {
      let mut state = core.state();
      for (j, o) in recipe.outs.iter().enumerate() {
        if o.locked {
          state.locked.insert(outpoints[j]);
        }
      }
    }

    // index + server
    let (settings, server) = ord::parse_ord_server_args(&format!(
      "ord --chain regtest --bitcoin-rpc-url {} --cookie-file {} --bitcoin-data-dir {} --datadir {} --index-runes server --no-sync --http-port 0 --address 127.0.0.1",
      core.url(),
      cookie.display(),
      dir.path().display(),
      dir.path().display(),
    ));
    let index = Arc::new(Index::open(&settings).unwrap());
    index.update().unwrap();
    let handle = axum_server::Handle::new();
    let (tx_port, rx_port) = std::sync::mpsc::channel();
    {
      let index = index.clone();
      let handle = handle.clone();
      std::thread::spawn(move || {
        let _ = server.run(settings, index, handle, Some(tx_port));
      });
    }
    let port = rx_port.recv_timeout(Duration::from_secs(30)).expect("ord server did not start");

    let capture = scratch.join(format!("stdout-{}", std::process::id()));
    let foreign_inscription = foreign_index.map(|index| ord::InscriptionId { txid: dist, index });
    let world = World { core, index, server: handle, port, dir, cookie, rune_ids, outpoints, foreign, foreign_inscription, capture };
    let r = world.run(&["create"]);
    assert!(r.is_ok(), "wallet create failed: {r:?}");
    world
  }

  pub fn server_url(&self) -> String {
    format!("http://127.0.0.1:{}", self.port)
  }

  /// `ord <globals> wallet --server-url S <args…>` through the real argument parser and command
  pub fn run(&self, args: &[&str]) -> Result<String, String> {
    let mut v: Vec<String> = vec![
      "ord".into(),
      "--chain".into(),
      "regtest".into(),
      "--bitcoin-rpc-url".into(),
      self.core.url(),
      "--cookie-file".into(),
      self.cookie.display().to_string(),
      "--datadir".into(),
      self.dir.path().display().to_string(),
      "wallet".into(),
      "--server-url".into(),
      self.server_url(),
    ];
    v.extend(args.iter().map(|s| s.to_string()));
    match common::catch(std::panic::AssertUnwindSafe(|| ord::verif::run_command(&v))) {
      Ok(Ok(Some(output))) => Ok(capture_stdout(&self.capture, || output.print(ord::subcommand::OutputFormat::Minify))),
      Ok(Ok(None)) => Ok(String::new()),
      Ok(Err(e)) => Err(e),
      Err(p) => Err(format!("PANIC {p}")),
    }
  }

  pub fn mine_and_index(&self) {
    mine(&self.core, 0);
    self.index.update().unwrap();
  }

  pub fn locked(&self) -> BTreeSet<OutPoint> {
    self.core.state().locked.clone()
  }

  pub fn mempool(&self) -> Vec<Transaction> {
    self.core.state().mempool.clone()
  }

  /// rune balances of every unspent output, per the real index
  pub fn balances(&self) -> BTreeMap<OutPoint, BTreeMap<RuneId, u128>> {
    self
      .index
      .get_rune_balances()
      .unwrap()
      .into_iter()
      .map(|(o, v)| (o, v.into_iter().collect()))
      .collect()
  }

  pub fn script_of(&self, o: OutPoint) -> ScriptBuf {
    self.core.state().transactions[&o.txid].output[o.vout as usize].script_pubkey.clone()
  }
}

/// what `f` prints to fd 1 (the command outputs only know how to print themselves)
fn capture_stdout(path: &std::path::Path, f: impl FnOnce()) -> String {
  use std::{io::Write, os::fd::AsRawFd};
  std::io::stdout().flush().ok();
  let file = std::fs::File::create(path).unwrap();
  unsafe {
    let saved = libc::dup(1);
    assert!(saved >= 0);
    assert!(libc::dup2(file.as_raw_fd(), 1) >= 0);
    f();
    std::io::stdout().flush().ok();
    assert!(libc::dup2(saved, 1) >= 0);
    libc::close(saved);
  }
  drop(file);
  std::fs::read_to_string(path).unwrap_or_default()
}

impl Drop for World {
  fn drop(&mut self) {
    self.server.shutdown();
  }
}
