//! C21 — the REAL `ord wallet batch --batch FILE --fee-rate R [--dry-run]` run in-process on
//! generated wallet states and batch files; commit and reveal are mined in the mock node and
//! indexed by the REAL indexer (the in-process server's index); what ord reported is compared
//! with what the indexer says, and the reveal's layout with `OrdModel.Wallet.Batch`.
use {
  bitcoin::{Address, Network, OutPoint, ScriptBuf, Transaction},
  common::*,
  ixlib::env::Flags,
  ord::{Inscription, InscriptionId, wallet::batch},
  ordinals::{Rune, SatPoint, SpacedRune},
  std::{collections::{BTreeMap, BTreeSet}, fmt::Write as _},
  wx2::*,
};

#[derive(Clone, Debug)]
struct WOut {
  op: OutPoint,
  value: u64,
  ins: Vec<(SatPoint, InscriptionId)>,
  runes: usize,
  locked: bool,
}

fn is_wallet_script(w: &World, s: &ScriptBuf) -> bool {
  match Address::from_script(s, w.network()) {
    Ok(a) => w.node.core.state().is_wallet_address(&a),
    Err(_) => false,
  }
}

/// the wallet's outputs as node and REAL index see them
fn snapshot(w: &World) -> Vec<WOut> {
  let (utxos, locked): (Vec<(OutPoint, u64, ScriptBuf)>, Vec<OutPoint>) = {
    let state = w.node.core.state();
    (
      state
        .utxos
        .iter()
        .map(|(op, v)| (*op, v.to_sat(), state.transactions[&op.txid].output[op.vout as usize].script_pubkey.clone()))
        .collect(),
      state.locked.iter().cloned().collect(),
    )
  };
  utxos
    .into_iter()
    .filter(|(_, _, s)| is_wallet_script(w, s))
    .map(|(op, value, _)| WOut {
      op,
      value,
      ins: w.index().get_inscriptions_on_output_with_satpoints(op).unwrap().unwrap_or_default(),
      runes: w.index().get_rune_balances_for_output(op).unwrap().map(|m| m.len()).unwrap_or(0),
      locked: locked.contains(&op),
    })
    .collect()
}

const FUND: u64 = 300_000_000;

struct Setup {
  w: World,
  /// an inscription that exists but is not the wallet's (delegate target)
  foreign_id: InscriptionId,
  rune_counter: u128,
  minimum: u128,
}

fn build_world(scratch: &std::path::Path, rng: &mut Rng) -> Setup {
  let flags = Flags { sats: rng.chance(1, 5), addr: true, tx: false, ins: true, runes: !rng.chance(1, 8) };
  let mut w = World::new_on(scratch, flags, "regtest");
  w.create_wallet();
  let idle = p2tr(202);
  let cb1 = w.mine(vec![], &p2tr(200));
  let cb2 = w.mine(vec![], &p2tr(200));
  let fund = p2tr(201);
  let nfund = 14usize;
  let split = tx(vec![txin(cb1)], (0..nfund).map(|_| txout(FUND, &fund)).collect());
  let split_id = split.compute_txid();
  w.mine(vec![split], &idle);
  for _ in 0..5 {
    w.mine(vec![], &idle);
  }
  let minimum = Rune::minimum_at_height(Network::Regtest, ordinals::Height(9)).0;
  let f = |k: usize| txin(OutPoint { txid: split_id, vout: k as u32 });
  let mut txs = Vec::new();
  // cardinals: one transaction, many wallet outputs
  let cardinal_values = [100_000_000u64, 100_000_000, 50_000_000, 5_000_000, 1_000_000, 60_000, 30_000, 20_000, 10_000, 9_000];
  let outs: Vec<_> = cardinal_values.iter().map(|v| txout(*v, &w.wallet_script())).collect();
  let mut card = tx(vec![f(0), txin(cb2)], outs);
  card.input[1].sequence = bitcoin::Sequence::MAX;
  let card_id = card.compute_txid();
  txs.push(card);
  // parent A: one inscription at offset 0
  let mut t = tx(vec![f(1)], vec![txout(10_000, &w.wallet_script())]);
  t.input[0].witness = reveal_witness(&[text_inscription("parent-a")], None);
  txs.push(t);
  // parent B: one inscription at a non-zero offset (pointer)
  let off = *rng.pick(&[1u64, 3_000, 9_999]);
  let mut i = text_inscription("parent-b");
  i.pointer = Some(Inscription::pointer_value(off));
  let mut t = tx(vec![f(2)], vec![txout(10_000, &w.wallet_script())]);
  t.input[0].witness = reveal_witness(&[i], None);
  txs.push(t);
  // parents C and D share one output (offsets 0 and 5000)
  let mut d = text_inscription("parent-d");
  d.pointer = Some(Inscription::pointer_value(5_000));
  let mut t = tx(vec![f(3)], vec![txout(20_000, &w.wallet_script())]);
  t.input[0].witness = reveal_witness(&[text_inscription("parent-c"), d], None);
  txs.push(t);
  // parent E: a plain second parent candidate
  let mut t = tx(vec![f(4)], vec![txout(*rng.pick(&[546u64, 10_000, 33_333]), &w.wallet_script())]);
  t.input[0].witness = reveal_witness(&[text_inscription("parent-e")], None);
  txs.push(t);
  // a foreign inscription (delegate target)
  let mut t = tx(vec![f(5)], vec![txout(10_000, &p2tr(77))]);
  t.input[0].witness = reveal_witness(&[text_inscription("foreign")], None);
  let foreign_id = InscriptionId { txid: t.compute_txid(), index: 0 };
  txs.push(t);
  // a runic wallet output
  let r = Rune(minimum + 5);
  let mut t = tx(vec![f(6)], vec![txout(40_000, &w.wallet_script()), etching_output(r, 777, 0)]);
  t.input[0].witness = reveal_witness(&[], Some(r));
  txs.push(t);
  w.mine(txs, &idle);
  w.mine(vec![], &idle);
  // one cardinal is locked at the node
  w.node.core.lock(OutPoint { txid: card_id, vout: 4 });
  w.sync();
  Setup { w, foreign_id, rune_counter: 100, minimum }
}

#[derive(Clone, Copy, PartialEq, Debug)]
enum Mode {
  SameSat,
  SatPoints,
  Separate,
  Shared,
}

impl Mode {
  fn yaml(self) -> &'static str {
    match self {
      Mode::SameSat => "same-sat",
      Mode::SatPoints => "satpoints",
      Mode::Separate => "separate-outputs",
      Mode::Shared => "shared-output",
    }
  }
  fn tok(self) -> &'static str {
    match self {
      Mode::SameSat => "same",
      Mode::SatPoints => "satpoints",
      Mode::Separate => "separate",
      Mode::Shared => "shared",
    }
  }
}

struct Case {
  mode: Mode,
  n: usize,
  /// (id, location, value of its output)
  parents: Vec<(InscriptionId, SatPoint, u64)>,
  postage: Option<u64>,
  /// satpoints mode: the outputs named per entry
  satpoints: Vec<(OutPoint, u64)>,
  same_sat_satpoint: Option<SatPoint>,
  reinscribe: bool,
  /// (rune, premine text, premine integer, divisibility, terms)
  etching: Option<(Rune, String, u128, u8, bool)>,
  destinations: Vec<Option<String>>,
  delegate: Vec<bool>,
  metadata: Vec<bool>,
  fee_rate: &'static str,
}

fn gen_case(rng: &mut Rng, s: &mut Setup, snap: &[WOut], dist: &mut Dist, force: u8) -> Case {
  let force_dup = force == 1;
  let mode = *rng.pick(&[Mode::SameSat, Mode::SatPoints, Mode::Separate, Mode::Shared]);
  // force 2: ask for a reinscription inside an output that carries several inscriptions
  let force_shared = force == 2 && snap.iter().any(|o| !o.locked && o.ins.iter().any(|(sp, _)| *sp != o.ins[0].0));
  let mode = if force_shared { Mode::SameSat } else { mode };
  let n = 1 + rng.below(5) as usize;
  let inscribed: Vec<&WOut> = snap.iter().filter(|o| !o.ins.is_empty() && !o.locked).collect();
  let cardinals: Vec<&WOut> = snap.iter().filter(|o| o.ins.is_empty() && o.runes == 0 && !o.locked && o.value > 0).collect();
  // parents: 0-2 inscriptions of the wallet, from distinct outputs
  let mut parents = Vec::new();
  let np = match rng.below(10) {
    0..=3 => 0,
    4..=7 => 1,
    _ => 2,
  };
  let mut used: Vec<OutPoint> = Vec::new();
  for _ in 0..np {
    if inscribed.is_empty() {
      break;
    }
    let o = *rng.pick(&inscribed);
    if used.contains(&o.op) {
      continue;
    }
    used.push(o.op);
    let (sp, id) = *rng.pick(&o.ins);
    parents.push((id, sp, o.value));
  }
  if force_dup || rng.chance(1, 14) {
    // two parents that live in the same output (finding C21-duplicate-reveal-input)
    if let Some(o) = inscribed.iter().find(|o| o.ins.len() >= 2) {
      parents = o.ins.iter().take(2).map(|(sp, id)| (*id, *sp, o.value)).collect();
      dist.hit("parents_same_output");
    }
  }
  dist.hit(&format!("parents_{}", parents.len()));
  let postage = match rng.below(10) {
    0..=3 => None,
    4 => Some(330),
    5 => Some(546),
    6 => Some(12_345),
    7 => Some(20_000),
    8 => Some(*rng.pick(&[1u64, 329, 293])),
    _ => Some(rng.range(331, 30_000)),
  };
  let postage = if mode == Mode::SatPoints { None } else { postage };
  let mut satpoints = Vec::new();
  if mode == Mode::SatPoints {
    // small cardinals first so that funds remain for the commit
    let mut pool: Vec<&WOut> = cardinals.iter().cloned().filter(|o| o.value <= 5_000_000).collect();
    while satpoints.len() < n && !pool.is_empty() {
      let k = rng.below(pool.len() as u64) as usize;
      let o = pool.remove(k);
      satpoints.push((o.op, o.value));
    }
  }
  // no small cardinal left: fall back to separate outputs
  let mode = if mode == Mode::SatPoints && satpoints.is_empty() { Mode::Separate } else { mode };
  let n = if mode == Mode::SatPoints { satpoints.len() } else { n };
  dist.hit(&format!("mode_{}", mode.tok()));
  let mut same_sat_satpoint = None;
  let mut reinscribe = false;
  if mode == Mode::SameSat {
    match if force_shared { 1 } else { rng.below(6) } {
      0 if !cardinals.is_empty() => {
        let o = *rng.pick(&cardinals);
        same_sat_satpoint = Some(SatPoint { outpoint: o.op, offset: *rng.pick(&[0u64, 0, 1]) });
        dist.hit("same_sat_explicit");
      }
      1 | 2 if !inscribed.is_empty() => {
        // reinscription of a sat of the wallet: mostly an output with a single inscribed
        // satpoint; one time in two an output with several inscribed satpoints, so that outputs carrying further
        // inscriptions at other offsets (what a shared-output batch leaves behind) are asked for
        // too — the planner must refuse those or leave the other inscriptions alone
        let single: Vec<&&WOut> = inscribed.iter().filter(|o| o.ins.len() == 1 && !used.contains(&o.op)).collect();
        let multi: Vec<&&WOut> = inscribed
          .iter()
          .filter(|o| !used.contains(&o.op) && o.ins.iter().any(|(sp, _)| *sp != o.ins[0].0))
          .collect();
        if !multi.is_empty() && (force_shared || rng.chance(1, 2)) {
          let o = **rng.pick(&multi);
          same_sat_satpoint = Some(rng.pick(&o.ins).0);
          reinscribe = true;
          dist.hit("reinscribe_shared_utxo");
        } else if !single.is_empty() {
          let o = **rng.pick(&single);
          same_sat_satpoint = Some(o.ins[0].0);
          reinscribe = true;
          dist.hit("reinscribe");
        }
      }
      _ => {}
    }
  }
  let has_runes = s.w.flags.runes;
  let etching = if has_runes && rng.chance(1, 4) {
    s.rune_counter += 1;
    let rune = Rune(s.minimum + 1_000_000 + s.rune_counter);
    let (text, int, div, terms) = match rng.below(4) {
      0 => ("1000".to_string(), 1000u128, 0u8, false),
      1 => ("100.5".to_string(), 1005, 1, false),
      2 => ("21".to_string(), 21, 0, true),
      _ => ("0".to_string(), 0, 0, true),
    };
    dist.hit(if int > 0 { "etching_premine" } else { "etching_no_premine" });
    Some((rune, text, int, div, terms))
  } else {
    None
  };
  let per_entry_dest = matches!(mode, Mode::Separate | Mode::SatPoints);
  let destinations = (0..n)
    .map(|k| {
      (per_entry_dest && rng.chance(1, 3)).then(|| Address::from_script(&p2tr(60 + k as u8), Network::Regtest).unwrap().to_string())
    })
    .collect();
  Case {
    mode,
    n,
    parents,
    postage,
    satpoints,
    same_sat_satpoint,
    reinscribe,
    etching,
    destinations,
    delegate: (0..n).map(|_| rng.chance(1, 6)).collect(),
    metadata: (0..n).map(|_| rng.chance(1, 4)).collect(),
    fee_rate: *rng.pick(&["1", "1", "2.5", "10"]),
  }
}

fn write_batch(dir: &std::path::Path, c: &Case, s: &Setup, tag: u64) -> std::path::PathBuf {
  let mut y = String::new();
  writeln!(y, "mode: {}", c.mode.yaml()).unwrap();
  if !c.parents.is_empty() {
    writeln!(y, "parents:").unwrap();
    for (id, _, _) in &c.parents {
      writeln!(y, "- {id}").unwrap();
    }
  }
  if let Some(p) = c.postage {
    writeln!(y, "postage: {p}").unwrap();
  }
  if c.reinscribe {
    writeln!(y, "reinscribe: true").unwrap();
  }
  if let Some(sp) = c.same_sat_satpoint {
    writeln!(y, "satpoint: {sp}").unwrap();
  }
  if let Some((rune, text, int, div, terms)) = &c.etching {
    writeln!(y, "etching:").unwrap();
    writeln!(y, "  rune: {}", SpacedRune { rune: *rune, spacers: 0 }).unwrap();
    writeln!(y, "  divisibility: {div}").unwrap();
    writeln!(y, "  premine: {text}").unwrap();
    let unit = 10u128.pow(u32::from(*div));
    let supply = if *terms { int + 2 * 5 * unit } else { *int };
    let whole = supply / unit;
    let frac = supply % unit;
    if *div == 0 {
      writeln!(y, "  supply: {whole}").unwrap();
    } else {
      writeln!(y, "  supply: {whole}.{frac}").unwrap();
    }
    writeln!(y, "  symbol: $").unwrap();
    writeln!(y, "  turbo: {}", int % 2 == 1).unwrap();
    if *terms {
      writeln!(y, "  terms:\n    amount: 5\n    cap: 2").unwrap();
    }
  }
  writeln!(y, "inscriptions:").unwrap();
  for k in 0..c.n {
    let file = dir.join(format!("b{tag}-{k}.txt"));
    std::fs::write(&file, format!("batch {tag} entry {k}")).unwrap();
    writeln!(y, "- file: {}", file.display()).unwrap();
    if c.delegate[k] {
      writeln!(y, "  delegate: {}", s.foreign_id).unwrap();
    }
    if let Some(d) = &c.destinations[k] {
      writeln!(y, "  destination: {d}").unwrap();
    }
    if c.metadata[k] {
      writeln!(y, "  metadata:\n    title: entry {k}\n    n: {k}").unwrap();
    }
    if c.mode == Mode::SatPoints {
      if let Some((op, _)) = c.satpoints.get(k) {
        writeln!(y, "  satpoint: {op}:0").unwrap();
      }
    }
  }
  let path = dir.join(format!("batch{tag}.yaml"));
  std::fs::write(&path, y).unwrap();
  path
}

fn nums<T: ToString>(v: impl IntoIterator<Item = T>) -> String {
  let v: Vec<String> = v.into_iter().map(|x| x.to_string()).collect();
  if v.is_empty() { "-".into() } else { v.join(",") }
}

/// the model's request: mode, resolved per-entry postages, parents (value:offset), premine
fn spec_tokens(c: &Case) -> String {
  let entries: Vec<u64> = if c.mode == Mode::SatPoints {
    c.satpoints.iter().map(|(_, v)| *v).collect()
  } else {
    vec![c.postage.unwrap_or(10_000); c.n]
  };
  format!(
    "{} {} {} {}",
    c.mode.tok(),
    nums(entries),
    nums(c.parents.iter().map(|(_, sp, v)| format!("{v}:{}", sp.offset))),
    c.etching.as_ref().map(|e| e.2.to_string()).unwrap_or("none".into()),
  )
}

/// the outpoints the reveal is going to spend besides the commit output (generator's view)
fn input_ops(c: &Case) -> String {
  nums(c.parents.iter().map(|(_, sp, _)| sp.outpoint.to_string()).chain(c.satpoints.iter().map(|(op, _)| op.to_string())))
}

fn reported_tokens(o: &batch::Output) -> (String, String) {
  (
    nums(o.inscriptions.iter().map(|i| format!("{}:{}", i.location.outpoint.vout, i.location.offset))),
    o.rune.as_ref().and_then(|r| r.location).map(|l| l.vout.to_string()).unwrap_or("none".into()),
  )
}

fn classify(msg: &str) -> &'static str {
  let table: &[(&str, &str)] = &[
    ("reveal transaction would spend output", "duplicate-reveal-input"),
    ("would be dust", "dust"),
    ("below dust value", "dust"),
    ("already inscribed", "already-inscribed"),
    ("without also sending inscription", "additional-inscriptions"),
    ("reinscribe flag set", "not-a-reinscription"),
    ("wallet contains no cardinal utxos", "no-cardinals"),
    ("not enough cardinal utxos", "not-enough-cardinals"),
    ("enough cardinal UTXOs", "not-enough-cardinals"),
    ("offset higher than maximum", "out-of-range"),
    ("not in wallet", "not-in-wallet"),
    ("insufficient funds", "insufficient-funds"),
    ("panic:", "panic"),
  ];
  for (k, v) in table {
    if msg.contains(k) {
      return v;
    }
  }
  "other"
}

/// The planner's view of the wallet at the commit guard (C21, `OrdModel.Wallet.BatchCommit`), read
/// from the node and the REAL index the way `Wallet::build` + `Batch::run` assemble it:
/// `utxos` = `listunspent` (wallet scripts, not locked) ∪ `listlockunspent`; `wallet_inscriptions`'
/// keys = the satpoints of every inscription on those outputs; `runic_utxos` = outputs with a rune
/// balance.  Kept in `BTreeMap<OutPoint, _>` / `BTreeSet<SatPoint>`, i.e. in the order (Rust's `Ord`
/// on `OutPoint` / `SatPoint`) in which `create_batch_transactions` iterates.
struct GuardView {
  /// value, locked at the node, runic
  utxos: BTreeMap<OutPoint, (u64, bool, bool)>,
  ins: BTreeSet<SatPoint>,
}

fn guard_view(w: &World) -> GuardView {
  let entries: Vec<(OutPoint, u64, ScriptBuf, bool)> = {
    let state = w.node.core.state();
    state
      .utxos
      .iter()
      .map(|(op, v)| (*op, v.to_sat(), state.transactions[&op.txid].output[op.vout as usize].script_pubkey.clone(), state.locked.contains(op)))
      .collect()
  };
  let mut utxos = BTreeMap::new();
  let mut ins = BTreeSet::new();
  for (op, value, script, locked) in entries {
    if !(locked || is_wallet_script(w, &script)) {
      continue;
    }
    let runic = w.index().get_rune_balances_for_output(op).unwrap().map(|m| !m.is_empty()).unwrap_or(false);
    utxos.insert(op, (value, locked, runic));
    for (sp, _) in w.index().get_inscriptions_on_output_with_satpoints(op).unwrap().unwrap_or_default() {
      ins.insert(sp);
    }
  }
  GuardView { utxos, ins }
}

/// `batch.guard <reinscribe> <explicit satpoint|none> <utxos> <inscribed satpoints> <observe>`;
/// utxo token `txid:vout/value/<locked><runic>` where locked = in the `locked_utxos` set the planner
/// gets (`Batch::run`: the node's locked outputs plus the outputs a `satpoints` batch names)
fn guard_request(c: &Case, v: &GuardView, observe: &str) -> String {
  format!(
    "batch.guard {} {} {} {} {observe}",
    u8::from(c.reinscribe),
    c.same_sat_satpoint.map(|sp| sp.to_string()).unwrap_or("none".into()),
    nums(v.utxos.iter().map(|(op, (value, locked, runic))| {
      let named = c.mode == Mode::SatPoints && c.satpoints.iter().any(|(o, _)| o == op);
      format!("{op}/{value}/{}{}", u8::from(*locked || named), u8::from(*runic))
    })),
    nums(v.ins.iter()),
  )
}

/// Where the planner's checks stand relative to the guard (plan.rs / batch_command.rs, in order):
/// `Batch::run`: File::load, missing delegates, `get_parent_info` ("parent … not in wallet"),
/// `File::inscriptions` ("<satpoint> not in wallet"), `check_etching`; `create_batch_transactions`:
/// invariant asserts, duplicate reveal input — all BEFORE; then satpoint selection + loop +
/// "reinscribe flag set" = the GUARD; then runestone size, `TransactionBuilder` (dust, not enough
/// cardinals, outgoing satpoint not in wallet / out of range, additional inscriptions, duplicate
/// address, overflow), reveal dust, reveal weight, and the RPC calls of `Plan::inscribe` — AFTER.
#[derive(PartialEq, Debug)]
enum Stage {
  Before,
  Guard(String),
  After,
}

fn token_after<'a>(msg: &'a str, key: &str) -> Option<&'a str> {
  let rest = &msg[msg.find(key)? + key.len()..];
  rest.split(|ch: char| ch.is_whitespace()).next()
}

fn guard_stage(msg: &str) -> Stage {
  if msg.contains("wallet contains no cardinal utxos") {
    return Stage::Guard("err no-cardinals".into());
  }
  if msg.contains("reinscribe flag set but this would not be a reinscription") {
    return Stage::Guard("err not-a-reinscription".into());
  }
  if msg.contains("already inscribed") {
    // "sat at <satpoint> already inscribed" | "utxo <outpoint> with sat <satpoint> already inscribed with …"
    let hit = token_after(msg, " with sat ").or_else(|| token_after(msg, "sat at ")).unwrap_or("?");
    return Stage::Guard(format!("err already-inscribed {hit}"));
  }
  let after = [
    "outgoing satpoint",
    "below dust value",
    "would be dust",
    "enough cardinal UTXOs",
    "without also sending inscription",
    "duplicate input address",
    "arithmetic overflow calculating value",
    "runestone greater than maximum",
    "reveal transaction weight greater",
    "Failed to sign reveal transaction",
    "Failed to send reveal transaction",
  ];
  if after.iter().any(|k| msg.contains(k)) { Stage::After } else { Stage::Before }
}

/// the satpoint the commit actually sends to the reveal: the sat at the first position of the
/// commit output (`commit:vout`), located in the commit's inputs by their pre-state values
fn committed_satpoint(commit: &Transaction, vout: u32, v: &GuardView) -> String {
  let start: u64 = commit.output.iter().take(vout as usize).map(|o| o.value.to_sat()).sum();
  let mut acc = 0u64;
  for i in &commit.input {
    let Some((value, _, _)) = v.utxos.get(&i.previous_output) else {
      return "unknown-input".into();
    };
    if start < acc + value {
      return SatPoint { outpoint: i.previous_output, offset: start - acc }.to_string();
    }
    acc += value;
  }
  "beyond-inputs".into()
}

fn parse_output(s: &str) -> Option<batch::Output> {
  serde_json::from_str(s.trim()).ok()
}

fn run_batch(s: &mut Setup, cap: &mut StdoutCapture, file: &std::path::Path, c: &Case, dry: bool) -> Result<batch::Output, String> {
  cap.take();
  let mut tail: Vec<String> = vec!["batch".into(), "--batch".into(), file.display().to_string(), "--fee-rate".into(), c.fee_rate.into(), "--no-backup".into()];
  if dry {
    tail.push("--dry-run".into());
  }
  let suspend = !dry && c.etching.is_some();
  if suspend {
    // `wait_for_maturation` returns the pending output at once ("Suspending batch"); the reveal
    // is sent by `ord wallet resume` after the commit has matured
    ord::shut_down();
  }
  let r = s.w.wallet(&tail);
  if suspend {
    ord::cancel_shutdown();
  }
  match r {
    Ok(Some(out)) => {
      out.print(ord::subcommand::OutputFormat::Minify);
      parse_output(&cap.take()).ok_or_else(|| "unparseable output".to_string())
    }
    Ok(None) => Err("no output".into()),
    Err(e) => Err(e),
  }
}

/// the `batch.guard` line of one dry run of the real command
fn emit_guard_dry(dry: &Result<batch::Output, String>, c: &Case, view: &GuardView, out: &mut Streams, dist: &mut Dist) {
  match dry {
    Ok(o) => {
      // which sat the planner chose, read off the commit PSBT
      let commit = o.commit_psbt.as_ref().and_then(|p| ord::base64_decode(p).ok()).and_then(|b| bitcoin::Psbt::deserialize(&b).ok());
      let reveal = o.reveal_psbt.as_ref().and_then(|p| ord::base64_decode(p).ok()).and_then(|b| bitcoin::Psbt::deserialize(&b).ok());
      let answer = match (commit, reveal.as_ref().and_then(|r| r.unsigned_tx.input.last())) {
        (Some(cp), Some(ci)) if ci.previous_output.txid == cp.unsigned_tx.compute_txid() => {
          format!("ok {}", committed_satpoint(&cp.unsigned_tx, ci.previous_output.vout, view))
        }
        _ => "ok no-psbt".into(),
      };
      out.emit(&guard_request(c, view, "dry"), &answer);
      dist.hit(if c.same_sat_satpoint.is_some() { "guard_ok_explicit" } else { "guard_ok_auto" });
      if c.reinscribe {
        dist.hit("guard_ok_reinscription");
      }
    }
    Err(e) => match guard_stage(e) {
      Stage::Before => dist.hit("guard_not_reached"),
      Stage::Guard(answer) => {
        dist.hit(&format!("guard_{}", answer.split(' ').take(2).collect::<Vec<_>>().join("_")));
        if answer.starts_with("err already-inscribed") {
          dist.hit(if e.contains(" with sat ") { "guard_bail_other_sat_in_utxo" } else { "guard_bail_sat_itself" });
        }
        out.emit(&guard_request(c, view, "dry"), &answer);
      }
      Stage::After => {
        dist.hit(&format!("guard_ok_later_{}", classify(e)));
        out.emit(&guard_request(c, view, "later"), "ok-later");
      }
    },
  }
}

/// Probes of the commit guard on the current wallet: minimal `same-sat` batches (one inscription,
/// no parents), DRY RUN only, one per kind of answer the guard can give — including the order in
/// which the loop meets the inscribed sats of an output that carries several.
fn guard_probe(s: &mut Setup, cap: &mut StdoutCapture, rng: &mut Rng, out: &mut Streams, dist: &mut Dist, tag: u64, snap: &[WOut]) {
  let inscribed: Vec<&WOut> = snap.iter().filter(|o| !o.ins.is_empty()).collect();
  let single: Vec<&WOut> = inscribed.iter().cloned().filter(|o| o.ins.len() == 1).collect();
  let multi: Vec<&WOut> = inscribed.iter().cloned().filter(|o| o.ins.iter().any(|(sp, _)| *sp != o.ins[0].0)).collect();
  let cardinals: Vec<&WOut> = snap.iter().filter(|o| o.ins.is_empty() && o.runes == 0 && !o.locked && o.value > 0).collect();
  let odd: Vec<&WOut> = snap.iter().filter(|o| o.ins.is_empty() && (o.runes > 0 || o.locked)).collect();
  let free = |o: &WOut, rng: &mut Rng| -> Option<SatPoint> {
    let ks: Vec<u64> = [0u64, 1, 2_999, 5_001, o.value - 1].into_iter().filter(|k| *k < o.value && !o.ins.iter().any(|(sp, _)| sp.offset == *k)).collect();
    (!ks.is_empty()).then(|| SatPoint { outpoint: o.op, offset: *rng.pick(&ks) })
  };
  let mut lock_all = false;
  let (kind, satpoint, reinscribe): (&str, Option<SatPoint>, bool) = match rng.below(12) {
    0 if !cardinals.is_empty() => ("reinscribe_cardinal", Some(SatPoint { outpoint: rng.pick(&cardinals).op, offset: *rng.pick(&[0u64, 7]) }), true),
    1 => ("reinscribe_auto", None, true),
    2 if !single.is_empty() => ("inscribed_sat_no_flag", Some(rng.pick(&single).ins[0].0), false),
    3 if !inscribed.is_empty() => match { let o = *rng.pick(&inscribed); free(o, rng) } {
      Some(sp) => ("other_sat_of_inscribed_output", Some(sp), rng.chance(1, 2)),
      None => ("auto", None, false),
    },
    4 | 5 if !multi.is_empty() => {
      let o = *rng.pick(&multi);
      ("shared_output_no_flag", Some(rng.pick(&o.ins).0), false)
    }
    6 | 7 if !multi.is_empty() => {
      let o = *rng.pick(&multi);
      ("shared_output_reinscribe", Some(rng.pick(&o.ins).0), true)
    }
    8 if !single.is_empty() => ("reinscribe_single", Some(rng.pick(&single).ins[0].0), true),
    9 if !odd.is_empty() => ("explicit_runic_or_locked", Some(SatPoint { outpoint: rng.pick(&odd).op, offset: 0 }), false),
    10 => match rng.below(2) {
      0 => ("explicit_unknown_output", Some(SatPoint { outpoint: OutPoint { txid: s.foreign_id.txid, vout: 0 }, offset: 0 }), false),
      _ if !cardinals.is_empty() => {
        let o = *rng.pick(&cardinals);
        ("explicit_out_of_range", Some(SatPoint { outpoint: o.op, offset: o.value }), false)
      }
      _ => ("auto", None, false),
    },
    11 => {
      lock_all = true;
      ("all_cardinals_locked", None, false)
    }
    _ => ("auto", None, false),
  };
  dist.hit(&format!("probe_{kind}"));
  let c = Case {
    mode: Mode::SameSat,
    n: 1,
    parents: Vec::new(),
    postage: None,
    satpoints: Vec::new(),
    same_sat_satpoint: satpoint,
    reinscribe,
    etching: None,
    destinations: vec![None],
    delegate: vec![false],
    metadata: vec![false],
    fee_rate: "1",
  };
  let saved: Option<BTreeSet<OutPoint>> = lock_all.then(|| {
    let mut st = s.w.node.core.state();
    let saved = st.locked.iter().cloned().collect();
    for o in &cardinals {
      st.locked.insert(o.op);
    }
    saved
  });
  let view = guard_view(&s.w);
  let dir = s.w.scratch.path().to_path_buf();
  let file = write_batch(&dir, &c, s, 1_000_000 + tag);
  let dry = run_batch(s, cap, &file, &c, true);
  if let Some(saved) = saved {
    let mut st = s.w.node.core.state();
    st.locked = saved.into_iter().collect();
  }
  emit_guard_dry(&dry, &c, &view, out, dist);
  if let Err(e) = &dry {
    if classify(e) == "other" || classify(e) == "panic" {
      out.emit(&format!("batch.unexpected probe {}", hextext(e)), "never");
    }
  }
  assert!(s.w.node.core.state().mempool.is_empty(), "dry run left transactions in the mempool");
}

fn mine_mempool(w: &World) -> Vec<Transaction> {
  let txs: Vec<Transaction> = std::mem::take(&mut w.node.core.state().mempool);
  w.mine(txs.clone(), &p2tr(202));
  txs
}

fn one_case(s: &mut Setup, cap: &mut StdoutCapture, rng: &mut Rng, out: &mut Streams, dist: &mut Dist, tag: u64, force: u8) {
  let snap = snapshot(&s.w);
  if force != 1 {
    guard_probe(s, cap, rng, out, dist, tag, &snap);
  }
  let view = guard_view(&s.w);
  let c = gen_case(rng, s, &snap, dist, force);
  let ops = input_ops(&c);
  let mut reveal_unminable = false;
  let dir = s.w.scratch.path().to_path_buf();
  let file = write_batch(&dir, &c, s, tag);
  let spec = spec_tokens(&c);
  // ---- dry run
  let dry = run_batch(s, cap, &file, &c, true);
  emit_guard_dry(&dry, &c, &view, out, dist);
  match dry {
    Ok(o) => {
      let psbt = o.reveal_psbt.as_ref().and_then(|p| ord::base64_decode(p).ok()).and_then(|b| bitcoin::Psbt::deserialize(&b).ok());
      let (rep, rune) = reported_tokens(&o);
      let layout = psbt
        .map(|p| format!("inputs={} outs={}", p.unsigned_tx.input.len(), nums(p.unsigned_tx.output.iter().map(|o| o.value.to_sat()))))
        .unwrap_or("no-psbt".into());
      out.emit(&format!("batch.layout.dry {spec} {ops}"), &format!("ok {layout} rep={rep} rune={rune}"));
      dist.hit("dry_ok");
      // the reveal must be minable: no output spent twice (the last input is the commit output)
      if let Some(p) = o.reveal_psbt.as_ref().and_then(|p| ord::base64_decode(p).ok()).and_then(|b| bitcoin::Psbt::deserialize(&b).ok()) {
        let ins: Vec<String> = p.unsigned_tx.input.iter().map(|i| i.previous_output.to_string()).collect();
        let spent = &ins[..ins.len() - 1];
        let mut sorted = spent.to_vec();
        sorted.sort();
        sorted.dedup();
        reveal_unminable = sorted.len() != spent.len();
        out.emit(&format!("batch.oracle.inputs_distinct {}", nums(spent.iter())), "true");
      }
    }
    Err(e) => {
      dist.hit(&format!("dry_err_{}", classify(&e)));
      if classify(&e) == "duplicate-reveal-input" {
        out.emit(&format!("batch.layout.dry {spec} {ops}"), "err duplicate-reveal-input");
      }
      if classify(&e) == "other" || classify(&e) == "panic" {
        out.emit(&format!("batch.unexpected dry {}", hextext(&e)), "never");
      }
    }
  }
  assert!(s.w.node.core.state().mempool.is_empty(), "dry run left transactions in the mempool");
  if reveal_unminable {
    // the real run would broadcast a commit and a reveal that no node accepts; mockcore would
    // "mine" it and the real indexer then hits an assertion — not run
    dist.hit("reveal_unminable_skipped_real_run");
    return;
  }
  // ---- real run
  let o = match run_batch(s, cap, &file, &c, false) {
    Ok(o) => o,
    Err(e) => {
      dist.hit(&format!("real_err_{}", classify(&e)));
      if classify(&e) == "other" || classify(&e) == "panic" {
        out.emit(&format!("batch.unexpected real {}", hextext(&e)), "never");
      }
      s.w.node.core.state().mempool.clear();
      return;
    }
  };
  dist.hit("real_ok");
  // commit (and, without etching, reveal) are in the mempool
  let first = mine_mempool(&s.w);
  let commit = first.iter().find(|t| t.compute_txid() == o.commit).cloned().expect("commit transaction not broadcast");
  let mut o = o;
  if c.etching.is_some() {
    for _ in 0..4 {
      s.w.mine(vec![], &p2tr(202));
    }
    s.w.sync();
    cap.take();
    match s.w.wallet(&["resume".to_string()]) {
      Ok(Some(r)) => {
        r.print(ord::subcommand::OutputFormat::Minify);
        let text = cap.take();
        let v: serde_json::Value = serde_json::from_str(text.trim()).expect("resume output");
        let e = v["etchings"].as_array().cloned().unwrap_or_default();
        assert_eq!(e.len(), 1, "resume: expected one etching, got {text}");
        o = serde_json::from_value(e[0].clone()).unwrap();
      }
      other => panic!("resume failed: {:?}", other.err()),
    }
    mine_mempool(&s.w);
  }
  s.w.sync();
  let reveal: Transaction = s.w.node.core.state().transactions.get(&o.reveal).cloned().expect("reveal transaction not mined");
  // ---- layout of the real reveal transaction vs the model
  let envelopes = ord::ParsedEnvelope::from_transaction(&reveal);
  let commit_input = reveal.input.iter().position(|i| i.previous_output.txid == o.commit).unwrap();
  let ptrs = nums(envelopes.iter().map(|e| e.payload.pointer().map(|p| p.to_string()).unwrap_or("x".into())));
  let env_inputs_ok = envelopes.iter().all(|e| e.input as usize == commit_input);
  let (rep, rune_tok) = reported_tokens(&o);
  let out_values: Vec<u64> = reveal.output.iter().map(|o| o.value.to_sat()).collect();
  out.emit(
    &format!("batch.layout {spec}"),
    &format!(
      "ok inputs={} commit_input={} outs={} ptrs={} rep={rep} rune={rune_tok}",
      reveal.input.len(),
      commit_input,
      nums(out_values.iter()),
      ptrs
    ),
  );
  // ---- the commit guard again, on the mined commit: the chosen sat, and (where the index shows it)
  // whether it was a reinscription: inscription 0 of the reveal carries the `reinscription` charm
  // iff the sat at the first position of the commit output was inscribed before.  In `satpoints`
  // mode inscription 0 lands on the first named output instead, so the flag is not observable.
  {
    let sat = committed_satpoint(&commit, reveal.input[commit_input].previous_output.vout, &view);
    let charm = s.w.index().get_inscription_entry(InscriptionId { txid: o.reveal, index: 0 }).unwrap().map(|e| ordinals::Charm::Reinscription.is_set(e.charms));
    match (c.mode, charm) {
      (Mode::SatPoints, _) | (_, None) => out.emit(&guard_request(&c, &view, "dry"), &format!("ok {sat}")),
      (_, Some(re)) => out.emit(&guard_request(&c, &view, "real"), &format!("ok {sat} {}", u8::from(re))),
    }
  }
  // ---- reported ids and locations vs the REAL index
  let reported: Vec<String> = o.inscriptions.iter().map(|i| format!("{}@{}", i.id, i.location)).collect();
  let indexed: Vec<String> = o
    .inscriptions
    .iter()
    .enumerate()
    .map(|(k, _)| {
      let id = InscriptionId { txid: o.reveal, index: k as u32 };
      match s.w.index().get_inscription_satpoint_by_id(id).unwrap() {
        Some(sp) => format!("{id}@{sp}"),
        None => format!("{id}@missing"),
      }
    })
    .collect();
  let extra = s.w.index().get_inscription_satpoint_by_id(InscriptionId { txid: o.reveal, index: o.inscriptions.len() as u32 }).unwrap().is_some();
  out.emit(
    &format!("batch.oracle.located {} {} {} {}", c.n, nums(reported.iter()), nums(indexed.iter()), u8::from(extra || !env_inputs_ok)),
    "true",
  );
  // ---- the placement rule of the theorems on the implementation's own transaction
  let values: BTreeMap<OutPoint, u64> = {
    let st = s.w.node.core.state();
    reveal.input.iter().map(|i| (i.previous_output, st.transactions[&i.previous_output.txid].output[i.previous_output.vout as usize].value.to_sat())).collect()
  };
  let input_start: u64 = reveal.input[..commit_input].iter().map(|i| values[&i.previous_output]).sum();
  let indexed_locs = nums(o.inscriptions.iter().enumerate().map(|(k, _)| {
    match s.w.index().get_inscription_satpoint_by_id(InscriptionId { txid: o.reveal, index: k as u32 }).unwrap() {
      Some(sp) if sp.outpoint.txid == o.reveal => format!("{}:{}", sp.outpoint.vout, sp.offset),
      _ => "elsewhere".into(),
    }
  }));
  out.emit(&format!("batch.oracle.placement {} {ptrs} {input_start} {indexed_locs}", nums(out_values.iter())), "true");
  // ---- parents return to the wallet at the same offset of their return output
  let parents = nums(c.parents.iter().enumerate().map(|(k, (id, sp, _))| {
    let now = s.w.index().get_inscription_satpoint_by_id(*id).unwrap();
    let owned = reveal.output.get(k).map(|o| is_wallet_script(&s.w, &o.script_pubkey)).unwrap_or(false);
    let expect = SatPoint { outpoint: OutPoint { txid: o.reveal, vout: k as u32 }, offset: sp.offset };
    format!("{}/{}/{}", u8::from(now == Some(expect)), u8::from(owned), u8::from(o.parents.get(k) == Some(id)))
  }));
  out.emit(&format!("batch.oracle.parents {} {parents}", c.parents.len()), "true");
  // ---- the commit spends no inscribed or runic output (other than a reinscribed sat's)
  // first digit: 0 = not inscribed, 1 = inscribed only on the sat being reinscribed, 2 = carries an
  // inscription anywhere else (never allowed: the commit would move it)
  let commit_flags = nums(commit.input.iter().map(|i| {
    let pre = snap.iter().find(|o| o.op == i.previous_output);
    match pre {
      Some(o) => {
        let foreign = o.ins.iter().any(|(sp, _)| !(c.reinscribe && Some(*sp) == c.same_sat_satpoint));
        let ins = if o.ins.is_empty() { 0 } else if foreign { 2 } else { 1 };
        format!("{ins}{}{}", u8::from(o.runes > 0), u8::from(o.locked))
      }
      None => "???".into(),
    }
  }));
  out.emit(&format!("batch.oracle.commit {} {commit_flags}", u8::from(c.reinscribe)), "true");
  // ---- the etching
  if let Some((rune, _, premine, _, _)) = &c.etching {
    let entry = s.w.index().rune(*rune).unwrap();
    let exists = entry.is_some();
    let etched_in_reveal = entry.as_ref().map(|(_, e, _)| e.etching == o.reveal).unwrap_or(false);
    let premine_ok = entry.as_ref().map(|(_, e, _)| e.premine == *premine).unwrap_or(false);
    let at_reported = match o.rune.as_ref().and_then(|r| r.location) {
      Some(loc) => s
        .w
        .index()
        .get_rune_balances_for_output(loc)
        .unwrap()
        .unwrap_or_default()
        .iter()
        .any(|(sr, pile)| sr.rune == *rune && pile.amount == *premine),
      None => *premine == 0,
    };
    let named = o.rune.as_ref().map(|r| r.rune.rune == *rune).unwrap_or(false);
    out.emit(
      &format!("batch.oracle.rune {premine} {}{}{}{}{}", u8::from(exists), u8::from(etched_in_reveal), u8::from(premine_ok), u8::from(at_reported), u8::from(named)),
      "true",
    );
    dist.hit("etching_mined");
  }
}

fn scratch_root(args: &Args) -> std::path::PathBuf {
  let base = if std::path::Path::new("/dev/shm").is_dir() { std::path::PathBuf::from("/dev/shm") } else { args.out.clone() };
  let p = base.join(format!("eng_batch-{}-{}", std::process::id(), args.seed));
  std::fs::create_dir_all(&p).unwrap();
  p
}

fn main() {
  let args = Args::parse();
  let mut out = Streams::create(&args.out);
  let mut dist = Dist::default();
  let mut rng = Rng::new(args.seed);
  assert_eq!(args.stream, "batch", "unknown stream");
  if let Some(path) = &args.replay {
    // request lines carry everything the model needs; the implementation side of a batch cannot
    // be re-run from a line alone (it needs the wallet history), so replay re-answers with the
    // recorded layout lines only when regenerated from the seed recorded in the file's header
    let scratch = scratch_root(&args);
    let mut cap = StdoutCapture::install(&scratch);
    for line in replay_lines(path) {
      let toks: Vec<&str> = line.split(' ').filter(|t| !t.is_empty()).collect();
      if toks[0] == "batch.probe.dup_parents" {
        // a fresh deterministic world; a batch naming two parents that share an output; dry run
        let mut prng = Rng::new(toks[1].parse().unwrap());
        let mut s = build_world(&scratch, &mut prng);
        out.emit(&line, "ok");
        one_case(&mut s, &mut cap, &mut prng, &mut out, &mut dist, 0, 1);
        s.w.stop();
      } else if toks[0] == "batch.layout.dry" || toks[0] == "batch.guard" || toks[0].starts_with("batch.oracle.") {
        // regenerated by the probe line above; stale copies are dropped
      } else {
        out.emit(&line, "replay-unsupported");
      }
    }
    std::fs::remove_dir_all(&scratch).ok();
  } else {
    let scratch = scratch_root(&args);
    let mut cap = StdoutCapture::install(&scratch);
    let per_world: u64 = args.get("per-world").map(|s| s.parse().unwrap()).unwrap_or(6);
    let mut done = 0u64;
    while done < args.cases {
      let mut s = build_world(&scratch, &mut rng);
      dist.hit("world");
      let n = per_world.min(args.cases - done);
      for k in 0..n {
        // the last case of every world asks for a reinscription inside a shared output, if
        // the world has one by then
        one_case(&mut s, &mut cap, &mut rng, &mut out, &mut dist, done, if k + 1 == n && n > 2 { 2 } else { 0 });
        done += 1;
      }
      s.w.stop();
    }
    std::fs::remove_dir_all(&scratch).ok();
  }
  dist.write(&args.out);
  out.finish();
  std::process::exit(0);
}
