//! Correspondence harness for the codec models (crate `ordinals`): runs the real code and
//! writes request lines (`ops.txt`) plus the implementation's answers (`impl.out`).
use common::*;

mod varint;

fn main() {
  let args = Args::parse();
  let mut out = Streams::create(&args.out);
  let mut dist = Dist::default();
  let mut rng = Rng::new(args.seed);
  if let Some(path) = &args.replay {
    // replay: re-run the implementation on stored request lines
    for line in replay_lines(path) {
      let line = line.as_str();
      let toks: Vec<&str> = line.split(' ').filter(|t| !t.is_empty()).collect();
      let ans = match args.stream.as_str() {
        "varint" => varint::answer(&toks),
        s => panic!("unknown stream {s}"),
      };
      out.emit(line, &ans);
    }
  } else {
    match args.stream.as_str() {
      "varint" => varint::generate(&args, &mut rng, &mut out, &mut dist),
      s => panic!("unknown stream {s}"),
    }
  }
  dist.write(&args.out);
  out.finish();
}
