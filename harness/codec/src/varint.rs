use {common::*, ordinals::varint};

fn dec_str(bytes: &[u8]) -> String {
  match varint::decode(bytes) {
    Ok((v, k)) => format!("ok {v} {k}"),
    Err(varint::Error::Overlong) => "err overlong".into(),
    Err(varint::Error::Overflow) => "err overflow".into(),
    Err(varint::Error::Unterminated) => "err unterminated".into(),
  }
}

/// the implementation's answer to one request line (also used by --replay)
pub fn answer(toks: &[&str]) -> String {
  match toks {
    ["varint.enc", n] => match n.parse::<u128>() {
      Ok(n) => hex(&varint::encode(n)),
      Err(_) => "bad-op".into(),
    },
    ["varint.dec", h] => match unhex(h) {
      Some(b) => dec_str(&b),
      None => "bad-op".into(),
    },
    // oracle lines carry the implementation's own outputs; the model side evaluates the
    // property's predicate on them and must answer "true"
    [op, ..] if op.starts_with("varint.oracle.") => "true".into(),
    _ => "bad-op".into(),
  }
}

fn emit_enc(out: &mut Streams, dist: &mut Dist, n: u128, rest: &[u8]) {
  let enc = varint::encode(n);
  out.emit(&format!("varint.enc {n}"), &hex(&enc));
  let mut buf = enc.clone();
  buf.extend_from_slice(rest);
  let dec = dec_str(&buf);
  out.emit(&format!("varint.dec {}", hex(&buf)), &dec);
  // round-trip oracle on the implementation's own outputs
  out.emit(
    &format!("varint.oracle.rt {n} {} {} {}", hex(&enc), rest.len(), dec.replace(' ', ":")),
    "true",
  );
  dist.hit(&format!("enc_len_{}", enc.len()));
}

fn emit_dec(out: &mut Streams, dist: &mut Dist, bytes: &[u8]) {
  let dec = dec_str(bytes);
  out.emit(&format!("varint.dec {}", hex(bytes)), &dec);
  out.emit(
    &format!("varint.oracle.dec {} {}", hex(bytes), dec.replace(' ', ":")),
    "true",
  );
  dist.hit(match dec.split(' ').nth(1) {
    Some("overlong") => "dec_overlong",
    Some("overflow") => "dec_overflow",
    Some("unterminated") => "dec_unterminated",
    _ => "dec_ok",
  });
}

pub fn generate(args: &Args, rng: &mut Rng, out: &mut Streams, dist: &mut Dist) {
  // 1. boundary values, always
  let mut bounds: Vec<u128> = vec![0, 1, u128::MAX, u128::MAX - 1];
  for k in 1..=18u32 {
    let p = 1u128 << (7 * k);
    bounds.extend([p - 1, p, p + 1]);
  }
  for k in [8u32, 16, 32, 63, 64, 65, 126, 127] {
    let p = 1u128 << k;
    bounds.extend([p - 1, p, p + 1]);
  }
  for n in bounds {
    emit_enc(out, dist, n, &[]);
    emit_enc(out, dist, n, &[0x80, 0x01]);
  }
  // 2. exhaustive: every byte string of length <= 2 (thorough: <= 3 via --exhaustive 3)
  let exh: usize = args.get("exhaustive").map(|v| v.parse().unwrap()).unwrap_or(2);
  emit_dec(out, dist, &[]);
  for len in 1..=exh {
    let total = 256u64.pow(len as u32);
    for x in 0..total {
      let bytes: Vec<u8> = (0..len).map(|i| (x >> (8 * i)) as u8).collect();
      emit_dec(out, dist, &bytes);
    }
  }
  // 3. random
  for case in 0..args.cases {
    match case % 4 {
      0 => {
        let n = rng.u128_any_width();
        let rest_len = rng.below(4) as usize;
        let rest = rng.bytes(rest_len);
        emit_enc(out, dist, n, &rest);
      }
      1 => {
        // long runs of continuation bytes around the 19-byte limit
        let len = rng.range(15, 23) as usize;
        let mut b: Vec<u8> = (0..len).map(|_| (rng.next_u64() as u8) | 0x80).collect();
        if rng.chance(2, 3) {
          let at = rng.below(len as u64) as usize;
          b[at] &= 0x7f;
        }
        if rng.chance(1, 2) && len > 18 {
          b[18] = (b[18] & 0x80) | (rng.below(8) as u8);
        }
        emit_dec(out, dist, &b);
      }
      2 => {
        // encode then mutate
        let mut b = varint::encode(rng.u128_any_width());
        match rng.below(4) {
          0 => {
            let at = rng.below(b.len() as u64) as usize;
            b[at] ^= 1 << rng.below(8);
          }
          1 => {
            b.pop();
          }
          2 => {
            let at = rng.below(b.len() as u64 + 1) as usize;
            b.insert(at, rng.next_u64() as u8);
          }
          _ => {
            let extra_len = rng.below(5) as usize;
            let extra = rng.bytes(extra_len);
            b.extend(extra);
          }
        }
        emit_dec(out, dist, &b);
      }
      _ => {
        let len = rng.below(26) as usize;
        let b = rng.bytes(len);
        emit_dec(out, dist, &b);
      }
    }
  }
}
