//! Correspondence harness for the inscription envelope model (property C27): runs the real
//! reveal-script builder (`Inscription::append_batch_reveal_script_to_builder`), the real parser
//! (`ParsedEnvelope::from_transaction` / `RawEnvelope::from_transaction`), rust-bitcoin's
//! `Script::instructions()`, and the compact pointer / inscription-id encodings, and writes
//! request lines (`ops.txt`) plus the implementation's answers (`impl.out`).
use {
  bitcoin::{
    Transaction, TxIn, Witness,
    absolute::LockTime,
    hashes::Hash,
    script::{self, Instruction},
    transaction::Version,
  },
  common::*,
  ord::{Chain, Inscription, InscriptionId, ParsedEnvelope, Properties, RawEnvelope},
};

mod generate;

// ---------------------------------------------------------------- rendering

pub fn opt_hex(v: &Option<Vec<u8>>) -> String {
  match v {
    None => "~".into(),
    Some(b) => hex(b),
  }
}

fn parse_opt_hex(s: &str) -> Option<Option<Vec<u8>>> {
  if s == "~" { Some(None) } else { unhex(s).map(Some) }
}

fn bit(b: bool) -> char {
  if b { '1' } else { '0' }
}

fn render_parents(ps: &[Vec<u8>]) -> String {
  let mut s = String::from("p");
  for p in ps {
    s.push('/');
    s.push_str(&hex(p));
  }
  s
}

fn parse_parents(s: &str) -> Option<Vec<Vec<u8>>> {
  let mut it = s.split('/');
  if it.next() != Some("p") {
    return None;
  }
  it.map(unhex).collect()
}

/// `body,ce,ct,delegate,metadata,metaprotocol,parents,pointer,properties,pe,rune`
pub fn render_fields(i: &Inscription) -> String {
  [
    opt_hex(&i.body),
    opt_hex(&i.content_encoding),
    opt_hex(&i.content_type),
    opt_hex(&i.delegate),
    opt_hex(&i.metadata),
    opt_hex(&i.metaprotocol),
    render_parents(&i.parents),
    opt_hex(&i.pointer),
    opt_hex(&i.properties),
    opt_hex(&i.property_encoding),
    opt_hex(&i.rune),
  ]
  .join(",")
}

fn parse_fields(s: &str) -> Option<Inscription> {
  let f: Vec<&str> = s.split(',').collect();
  if f.len() != 11 {
    return None;
  }
  Some(Inscription {
    body: parse_opt_hex(f[0])?,
    content_encoding: parse_opt_hex(f[1])?,
    content_type: parse_opt_hex(f[2])?,
    delegate: parse_opt_hex(f[3])?,
    metadata: parse_opt_hex(f[4])?,
    metaprotocol: parse_opt_hex(f[5])?,
    parents: parse_parents(f[6])?,
    pointer: parse_opt_hex(f[7])?,
    properties: parse_opt_hex(f[8])?,
    property_encoding: parse_opt_hex(f[9])?,
    rune: parse_opt_hex(f[10])?,
    ..Default::default()
  })
}

fn render_parsed(e: &ParsedEnvelope) -> String {
  format!(
    "{}:{}:{}{}{}{}{}:{}",
    e.input,
    e.offset,
    bit(e.pushnum),
    bit(e.stutter),
    bit(e.payload.duplicate_field),
    bit(e.payload.incomplete_field),
    bit(e.payload.unrecognized_even_field),
    render_fields(&e.payload)
  )
}

fn render_raw(e: &RawEnvelope) -> String {
  format!(
    "{}:{}:{}{}:{}",
    e.input,
    e.offset,
    bit(e.pushnum),
    bit(e.stutter),
    render_parents(&e.payload)
  )
}

fn render_list<T>(f: impl Fn(&T) -> String, xs: &[T]) -> String {
  let mut s = format!("ok {}", xs.len());
  for x in xs {
    s.push(' ');
    s.push_str(&f(x));
  }
  s
}

// ---------------------------------------------------------------- the real code

pub fn transaction(witnesses: &[Vec<Vec<u8>>]) -> Transaction {
  Transaction {
    version: Version(2),
    lock_time: LockTime::ZERO,
    input: witnesses
      .iter()
      .map(|w| TxIn {
        witness: Witness::from_slice(w),
        ..Default::default()
      })
      .collect(),
    output: Vec::new(),
  }
}

pub fn parse_tx(witnesses: &[Vec<Vec<u8>>]) -> String {
  let tx = transaction(witnesses);
  match catch(move || ParsedEnvelope::from_transaction(&tx)) {
    Ok(envs) => render_list(render_parsed, &envs),
    Err(_) => "panic".into(),
  }
}

pub fn raw_tx(witnesses: &[Vec<Vec<u8>>]) -> String {
  let tx = transaction(witnesses);
  match catch(move || RawEnvelope::from_transaction(&tx)) {
    Ok(envs) => render_list(render_raw, &envs),
    Err(_) => "panic".into(),
  }
}

pub fn instr(script_bytes: &[u8]) -> String {
  let script = script::Script::from_bytes(script_bytes);
  let mut s = String::from("ok");
  for item in script.instructions() {
    s.push(' ');
    match item {
      Ok(Instruction::PushBytes(b)) => {
        s.push('P');
        s.push_str(&hex(b.as_bytes()));
      }
      Ok(Instruction::Op(op)) => {
        s.push('O');
        s.push_str(&hex(&[op.to_u8()]));
      }
      Err(_) => s.push('E'),
    }
  }
  s
}

pub fn build(prefix: &[u8], inscriptions: &[Inscription]) -> Result<Vec<u8>, String> {
  let prefix = prefix.to_vec();
  let inscriptions = inscriptions.to_vec();
  catch(move || {
    Inscription::append_batch_reveal_script_to_builder(&inscriptions, script::Builder::from(prefix))
      .into_script()
      .into_bytes()
  })
}

fn render_ptr(p: Option<u64>) -> String {
  match p {
    None => "none".into(),
    Some(n) => format!("some {n}"),
  }
}

pub fn pointer_of(v: &[u8]) -> String {
  render_ptr(
    Inscription {
      pointer: Some(v.to_vec()),
      ..Default::default()
    }
    .pointer(),
  )
}

fn render_id(id: Option<InscriptionId>) -> String {
  match id {
    None => "none".into(),
    Some(id) => format!("some {} {}", hex(&id.txid.to_byte_array()), id.index),
  }
}

/// `InscriptionId::from_value` through the public `Inscription::delegate`
pub fn id_from(v: &[u8]) -> String {
  let v = v.to_vec();
  match catch(move || {
    Inscription {
      delegate: Some(v),
      ..Default::default()
    }
    .delegate()
  }) {
    Ok(r) => render_id(r),
    Err(_) => "panic".into(),
  }
}

/// `InscriptionId::value` through the public `Inscription::new` (delegate field)
pub fn id_value(txid: [u8; 32], index: u32) -> Vec<u8> {
  let id = InscriptionId {
    txid: bitcoin::Txid::from_byte_array(txid),
    index,
  };
  Inscription::new(
    Chain::Mainnet,
    false,
    Some(id),
    None,
    None,
    Vec::new(),
    None,
    None,
    Properties::default(),
    None,
  )
  .unwrap()
  .delegate
  .unwrap()
}

pub fn parents_of(vs: &[Vec<u8>]) -> String {
  let vs = vs.to_vec();
  match catch(move || {
    Inscription {
      parents: vs,
      ..Default::default()
    }
    .parents()
  }) {
    Ok(ids) => {
      let mut s = format!("ok {}", ids.len());
      for id in ids {
        s.push_str(&format!(" {}:{}", hex(&id.txid.to_byte_array()), id.index));
      }
      s
    }
    Err(_) => "panic".into(),
  }
}

fn parse_witnesses(toks: &[&str]) -> Option<Vec<Vec<Vec<u8>>>> {
  let mut out = Vec::new();
  let mut i = 0;
  while i < toks.len() {
    if toks[i] != "w" {
      return None;
    }
    let k: usize = toks.get(i + 1)?.parse().ok()?;
    if toks.len() < i + 2 + k {
      return None;
    }
    out.push(
      toks[i + 2..i + 2 + k]
        .iter()
        .map(|t| unhex(t))
        .collect::<Option<Vec<_>>>()?,
    );
    i += 2 + k;
  }
  Some(out)
}

/// the implementation's answer to one request line (also used by --replay)
pub fn answer(toks: &[&str]) -> String {
  let bad = || "bad-op".to_string();
  match toks {
    ["env.tx", rest @ ..] => parse_witnesses(rest).map(|w| parse_tx(&w)).unwrap_or_else(bad),
    ["env.raw", rest @ ..] => parse_witnesses(rest).map(|w| raw_tx(&w)).unwrap_or_else(bad),
    ["env.instr", h] => unhex(h).map(|b| instr(&b)).unwrap_or_else(bad),
    ["env.build", pre, inscs @ ..] => {
      let Some(pre) = unhex(pre) else { return bad() };
      let Some(is) = inscs.iter().map(|s| parse_fields(s)).collect::<Option<Vec<_>>>() else {
        return bad();
      };
      match build(&pre, &is) {
        Ok(b) => hex(&b),
        Err(_) => "panic".into(),
      }
    }
    ["env.ptr", p] => match p.parse::<u64>() {
      Ok(p) => {
        let v = Inscription::pointer_value(p);
        format!("{} {}", hex(&v), pointer_of(&v))
      }
      Err(_) => bad(),
    },
    ["env.ptrdec", h] => unhex(h).map(|v| pointer_of(&v)).unwrap_or_else(bad),
    ["env.id", txid, index] => {
      let (Some(t), Ok(index)) = (unhex(txid), index.parse::<u32>()) else {
        return bad();
      };
      let Ok(t) = <[u8; 32]>::try_from(t.as_slice()) else {
        return bad();
      };
      let v = id_value(t, index);
      format!("{} {}", hex(&v), id_from(&v))
    }
    ["env.idfrom", h] => unhex(h).map(|v| id_from(&v)).unwrap_or_else(bad),
    ["env.parents", vs @ ..] => vs
      .iter()
      .map(|s| unhex(s))
      .collect::<Option<Vec<_>>>()
      .map(|vs| parents_of(&vs))
      .unwrap_or_else(bad),
    // oracle lines carry the implementation's own outputs; the model side evaluates the
    // property's predicate on them and must answer "true"
    [op, ..] if op.starts_with("env.oracle.") => "true".into(),
    _ => bad(),
  }
}

fn main() {
  let args = Args::parse();
  let mut out = Streams::create(&args.out);
  let mut dist = Dist::default();
  let mut rng = Rng::new(args.seed);
  silence_panics();
  if let Some(path) = &args.replay {
    for line in replay_lines(path) {
      let toks: Vec<&str> = line.split(' ').filter(|t| !t.is_empty()).collect();
      let ans = answer(&toks);
      out.emit(&line, &ans);
    }
  } else {
    match args.stream.as_str() {
      "roundtrip" => generate::roundtrip(&args, &mut rng, &mut out, &mut dist),
      "malformed" => generate::malformed(&args, &mut rng, &mut out, &mut dist),
      "compact" => generate::compact(&args, &mut rng, &mut out, &mut dist),
      s => panic!("unknown stream {s}"),
    }
  }
  dist.write(&args.out);
  out.finish();
}
