//! Generators of the three envelope streams.
use {
  super::*,
  bitcoin::{opcodes, script::PushBytesBuf},
};

const SIZES: &[usize] = &[
  0, 1, 1, 2, 3, 4, 16, 32, 33, 36, 74, 75, 76, 77, 254, 255, 256, 257, 519, 520, 521, 1039, 1040,
  1041, 1559, 1560, 1561,
];

const BIG_SIZES: &[usize] = &[65535, 65536, 65537, 100_000, 102_400];

/// bytes that look like script: OP_FALSE, OP_IF, OP_ENDIF, "ord", push prefixes, pushnums
const SCRIPTY: &[u8] = &[
  0x00, 0x63, 0x68, 0x03, 0x6f, 0x72, 0x64, 0x4c, 0x4d, 0x4e, 0x4f, 0x51, 0x60, 0x01, 0x02, 0x05,
  0x50, 0xac,
];

fn fill(rng: &mut Rng, n: usize) -> Vec<u8> {
  match rng.below(4) {
    0 => vec![0; n],
    1 => (0..n).map(|_| *rng.pick(SCRIPTY)).collect(),
    _ => rng.bytes(n),
  }
}

fn size(rng: &mut Rng, big: bool) -> usize {
  if big && rng.chance(1, 3) {
    *rng.pick(BIG_SIZES)
  } else if rng.chance(1, 4) {
    rng.below(600) as usize
  } else {
    *rng.pick(SIZES)
  }
}

fn value(rng: &mut Rng, big: bool) -> Vec<u8> {
  let n = size(rng, big);
  fill(rng, n)
}

fn id_bytes(rng: &mut Rng) -> Vec<u8> {
  let mut txid = [0u8; 32];
  txid.copy_from_slice(&rng.bytes(32));
  let index = match rng.below(5) {
    0 => 0,
    1 => rng.below(256) as u32,
    2 => rng.below(65536) as u32,
    3 => (rng.below(255) as u32 + 1) << (8 * rng.below(4)),
    _ => rng.next_u64() as u32,
  };
  id_value(txid, index)
}

/// bit 0 body, 1 content_encoding, 2 content_type, 3 delegate, 4 metadata, 5 metaprotocol,
/// 6 parents, 7 pointer, 8 properties, 9 property_encoding, 10 rune
fn inscription(rng: &mut Rng, mask: u64, big: bool, dist: &mut Dist) -> Inscription {
  let mut i = Inscription::default();
  let realistic = rng.chance(1, 2);
  let field = |rng: &mut Rng, bit: u32, real: &dyn Fn(&mut Rng) -> Vec<u8>| {
    if mask >> bit & 1 == 1 {
      Some(if realistic { real(rng) } else { value(rng, false) })
    } else {
      None
    }
  };
  i.content_encoding = field(rng, 1, &|_| b"br".to_vec());
  i.content_type = field(rng, 2, &|_| b"text/plain;charset=utf-8".to_vec());
  i.delegate = field(rng, 3, &|r| id_bytes(r));
  i.metaprotocol = field(rng, 5, &|_| b"brc-20".to_vec());
  i.pointer = field(rng, 7, &|r| Inscription::pointer_value(r.u64_any_width()));
  i.property_encoding = field(rng, 9, &|_| b"br".to_vec());
  i.rune = field(rng, 10, &|r| {
    let n = r.range(1, 16) as usize;
    r.bytes(n)
  });
  if mask & 1 == 1 {
    i.body = Some(value(rng, big));
  }
  if mask >> 4 & 1 == 1 {
    let b = big && rng.chance(1, 4);
    i.metadata = Some(value(rng, b));
  }
  if mask >> 8 & 1 == 1 {
    let b = big && rng.chance(1, 4);
    i.properties = Some(value(rng, b));
  }
  if mask >> 6 & 1 == 1 {
    let n = *rng.pick(&[1usize, 1, 1, 2, 2, 3, 4, 7]);
    i.parents = (0..n)
      .map(|_| if realistic { id_bytes(rng) } else { value(rng, false) })
      .collect();
  }
  for (name, v) in [("body", &i.body), ("metadata", &i.metadata), ("properties", &i.properties)] {
    if let Some(v) = v {
      dist.hit(&format!(
        "rt_{name}_{}",
        match v.len() {
          0 => "empty",
          1..=75 => "le75",
          76..=255 => "le255",
          256..=519 => "lt520",
          520 => "eq520",
          521..=1040 => "le1040",
          1041..=65535 => "lt64k",
          _ => "ge64k",
        }
      ));
    }
  }
  dist.hit(&format!("rt_parents_{}", i.parents.len().min(3)));
  i
}

fn plain_prefix(rng: &mut Rng, dist: &mut Dist) -> Vec<u8> {
  match rng.below(4) {
    0 => {
      dist.hit("rt_prefix_empty");
      Vec::new()
    }
    1 | 2 => {
      dist.hit("rt_prefix_key_checksig");
      script::Builder::new()
        .push_slice::<[u8; 32]>(rng.bytes(32).try_into().unwrap())
        .push_opcode(opcodes::all::OP_CHECKSIG)
        .into_bytes()
    }
    _ => {
      // plain opcodes and non-empty pushes
      dist.hit("rt_prefix_mixed");
      let mut b = script::Builder::new();
      for _ in 0..rng.range(1, 6) {
        if rng.chance(1, 2) {
          let n = rng.range(1, 80) as usize;
          b = b.push_slice(PushBytesBuf::try_from(rng.bytes(n)).unwrap());
        } else {
          let op = *rng.pick(&[0x4fu8, 0x51, 0x60, 0x61, 0x63, 0x68, 0x69, 0x75, 0x87, 0xac, 0xff]);
          b = b.push_opcode(opcodes::Opcode::from(op));
        }
      }
      b.into_bytes()
    }
  }
}

fn control_block(rng: &mut Rng) -> Vec<u8> {
  match rng.below(3) {
    0 => Vec::new(),
    1 => {
      let mut cb = vec![0xc0 | (rng.below(2) as u8)];
      cb.extend(rng.bytes(32));
      cb
    }
    _ => {
      // anything not starting with the annex prefix
      let n = rng.range(1, 65) as usize;
      let mut cb = rng.bytes(n);
      if cb[0] == 0x50 {
        cb[0] = 0x51;
      }
      cb
    }
  }
}

fn annex(rng: &mut Rng) -> Vec<u8> {
  let mut a = vec![0x50];
  let n = rng.below(8) as usize;
  a.extend(rng.bytes(n));
  a
}

fn tx_line(op: &str, witnesses: &[Vec<Vec<u8>>]) -> String {
  let mut s = String::from(op);
  for w in witnesses {
    s.push_str(&format!(" w {}", w.len()));
    for e in w {
      s.push(' ');
      s.push_str(&hex(e));
    }
  }
  s
}

pub fn roundtrip(args: &Args, rng: &mut Rng, out: &mut Streams, dist: &mut Dist) {
  let big_every: u64 = args.get("big-every").map(|v| v.parse().unwrap()).unwrap_or(97);
  for case in 0..args.cases {
    let big = case % big_every == big_every - 1;
    let k = *rng.pick(&[1usize, 1, 1, 2, 2, 3, 4]);
    // the first inscription's field subset walks through all 2^11 subsets (seed-shifted),
    // the others are random
    let inscriptions: Vec<Inscription> = (0..k)
      .map(|j| {
        let mask = if j == 0 {
          (case + args.seed.wrapping_mul(977)) % 2048
        } else {
          rng.below(2048)
        };
        inscription(rng, mask, big && j == 0, dist)
      })
      .collect();
    dist.hit(&format!("rt_k_{k}"));
    let prefix = plain_prefix(rng, dist);
    let fields: Vec<String> = inscriptions.iter().map(render_fields).collect();
    let script = match build(&prefix, &inscriptions) {
      Ok(s) => s,
      Err(_) => {
        out.emit(&format!("env.build {} {}", hex(&prefix), fields.join(" ")), "panic");
        continue;
      }
    };
    out.emit(&format!("env.build {} {}", hex(&prefix), fields.join(" ")), &hex(&script));
    // witness shape and input position
    let mut witnesses: Vec<Vec<Vec<u8>>> = Vec::new();
    for _ in 0..*rng.pick(&[0usize, 0, 0, 1, 2]) {
      witnesses.push(match rng.below(3) {
        0 => Vec::new(),
        1 => vec![rng.bytes(64)],
        _ => vec![rng.bytes(64), annex(rng)],
      });
    }
    let input = witnesses.len();
    let mut w = Vec::new();
    if rng.chance(1, 4) {
      w.push(rng.bytes(64));
      dist.hit("rt_witness_extra_stack_item");
    }
    w.push(script);
    w.push(control_block(rng));
    if rng.chance(1, 4) {
      w.push(annex(rng));
      dist.hit("rt_witness_annex");
    }
    witnesses.push(w);
    if rng.chance(1, 4) {
      witnesses.push(vec![rng.bytes(64)]);
    }
    let line = tx_line("env.tx", &witnesses);
    let ans = parse_tx(&witnesses);
    out.emit(&line, &ans);
    out.emit(
      &format!("env.oracle.rt {input} {k} {} {ans}", fields.join(" ")),
      "true",
    );
    out.emit(
      &format!("env.oracle.total {}", ans.split(' ').next().unwrap()),
      "true",
    );
  }
}

// ---------------------------------------------------------------- malformed stream

fn push_minimal(data: &[u8]) -> Vec<u8> {
  script::Builder::new()
    .push_slice(PushBytesBuf::try_from(data.to_vec()).unwrap())
    .into_bytes()
}

/// any of the encodings `instructions()` accepts for this data (it does not enforce minimality)
fn push_any(rng: &mut Rng, data: &[u8]) -> Vec<u8> {
  let n = data.len();
  let mut b = Vec::new();
  match rng.below(8) {
    0 if n < 0x100 => {
      b.push(0x4c);
      b.push(n as u8);
    }
    1 if n < 0x10000 => {
      b.push(0x4d);
      b.extend((n as u16).to_le_bytes());
    }
    2 => {
      b.push(0x4e);
      b.extend((n as u32).to_le_bytes());
    }
    _ => return push_minimal(data),
  }
  b.extend(data);
  b
}

const KNOWN_TAGS: &[u8] = &[1, 2, 3, 5, 7, 9, 11, 13, 17, 19];

fn tag_item(rng: &mut Rng, dist: &mut Dist) -> Vec<u8> {
  match rng.below(12) {
    0..=5 => {
      dist.hit("mal_tag_known");
{
      let t = *rng.pick(KNOWN_TAGS);
      push_any(rng, &[t])
      }
    }
    6 => {
      dist.hit("mal_tag_unknown_even");
{
      let t = *rng.pick(&[4u8, 6, 8, 66, 100, 254]);
      push_any(rng, &[t])
      }
    }
    7 => {
      dist.hit("mal_tag_unknown_odd");
{
      let t = *rng.pick(&[15u8, 21, 23, 255, 101]);
      push_any(rng, &[t])
      }
    }
    8 => {
      dist.hit("mal_tag_pushnum");
      vec![*rng.pick(&[0x4fu8, 0x51, 0x52, 0x53, 0x55, 0x57, 0x59, 0x5b, 0x5d, 0x60])]
    }
    9 => {
      dist.hit("mal_tag_multibyte");
      let n = rng.range(2, 4) as usize;
      let mut t = rng.bytes(n);
      if rng.chance(1, 2) {
        t[0] = *rng.pick(KNOWN_TAGS);
      }
      push_any(rng, &t)
    }
    _ => {
      dist.hit("mal_tag_body");
      push_any(rng, &[])
    }
  }
}

fn value_item(rng: &mut Rng, dist: &mut Dist) -> Vec<u8> {
  match rng.below(10) {
    0 => {
      dist.hit("mal_value_pushnum");
      vec![*rng.pick(&[0x4fu8, 0x51, 0x52, 0x5a, 0x60])]
    }
    1 => {
      dist.hit("mal_value_empty");
      push_any(rng, &[])
    }
    2 => {
      let n = *rng.pick(&[75usize, 76, 255, 256, 520, 521]);
      let d = fill(rng, n);
      push_any(rng, &d)
    }
    _ => {
      let n = rng.below(40) as usize;
      let d = fill(rng, n);
      push_any(rng, &d)
    }
  }
}

fn garbage(rng: &mut Rng, dist: &mut Dist) -> Vec<u8> {
  match rng.below(8) {
    0 | 1 => {
      dist.hit("mal_garbage_ops");
      (0..rng.below(5))
        .map(|_| *rng.pick(&[0x4fu8, 0x50, 0x51, 0x61, 0x63, 0x64, 0x67, 0x68, 0x75, 0xac, 0xba, 0xff]))
        .collect()
    }
    2 | 3 => {
      dist.hit("mal_garbage_pushes");
      let mut b = Vec::new();
      for _ in 0..rng.below(4) {
        let n = rng.below(6) as usize;
        let d = fill(rng, n);
        b.extend(push_any(rng, &d));
      }
      b
    }
    4 => {
      dist.hit("mal_garbage_random");
{
      let n = rng.below(12) as usize;
      rng.bytes(n)
      }
    }
    _ => Vec::new(),
  }
}

fn envelope_ish(rng: &mut Rng, dist: &mut Dist) -> Vec<u8> {
  let mut b = Vec::new();
  // stutter prefixes
  match rng.below(8) {
    0 => {
      dist.hit("mal_stutter_false");
      b.push(0x00);
    }
    1 => {
      dist.hit("mal_stutter_false_false");
      b.extend([0x00, 0x00]);
    }
    2 => {
      dist.hit("mal_stutter_false_if");
      b.extend([0x00, 0x63]);
    }
    3 => {
      dist.hit("mal_stutter_false_if_ord");
      b.extend([0x00, 0x63, 0x03, 0x6f, 0x72, 0x64]);
    }
    _ => {}
  }
  // OP_FALSE
  if rng.chance(19, 20) {
    b.extend(push_any(rng, &[]));
  }
  // OP_IF
  if rng.chance(19, 20) {
    b.push(0x63);
  } else {
    b.push(*rng.pick(&[0x64u8, 0x00, 0x68, 0x51]));
  }
  // protocol id
  match rng.below(20) {
    0 => b.extend(push_any(rng, b"orD")),
    1 => b.extend(push_any(rng, b"or")),
    2 => b.extend(push_any(rng, b"")),
    3 => {}
    _ => b.extend(push_any(rng, b"ord")),
  }
  // fields
  let fields = rng.below(7);
  let mut last_tag: Option<Vec<u8>> = None;
  for _ in 0..fields {
    let tag = match (&last_tag, rng.chance(1, 4)) {
      (Some(t), true) => {
        dist.hit("mal_duplicate_tag");
        t.clone()
      }
      _ => tag_item(rng, dist),
    };
    b.extend(&tag);
    last_tag = Some(tag);
    b.extend(value_item(rng, dist));
  }
  if rng.chance(1, 6) {
    dist.hit("mal_odd_field_count");
    b.extend(tag_item(rng, dist));
  }
  // body
  if rng.chance(1, 2) {
    b.extend(push_any(rng, &[]));
    for _ in 0..rng.below(4) {
      b.extend(value_item(rng, dist));
    }
  }
  // terminator
  match rng.below(16) {
    0 => dist.hit("mal_missing_endif"),
    1 => {
      dist.hit("mal_nonpush_opcode_inside");
      b.push(*rng.pick(&[0xacu8, 0x50, 0x61, 0x63, 0x64, 0x67, 0x69, 0x75, 0x62, 0xff]));
      if rng.chance(1, 2) {
        b.push(0x68);
      }
    }
    2 => {
      dist.hit("mal_truncated_push");
      let n = rng.range(1, 40) as usize;
      let d = rng.bytes(n);
      let mut p = push_any(rng, &d);
      p.truncate(p.len() - rng.range(1, n as u64) as usize);
      b.extend(p);
    }
    _ => b.push(0x68),
  }
  b
}

fn mutate(rng: &mut Rng, b: &mut Vec<u8>) {
  if b.is_empty() {
    return;
  }
  match rng.below(5) {
    0 => {
      let at = rng.below(b.len() as u64) as usize;
      b[at] ^= 1 << rng.below(8);
    }
    1 => {
      let at = rng.below(b.len() as u64) as usize;
      b.remove(at);
    }
    2 => {
      let at = rng.below(b.len() as u64 + 1) as usize;
      b.insert(at, *rng.pick(SCRIPTY));
    }
    3 => {
      let at = rng.below(b.len() as u64) as usize;
      b.truncate(at);
    }
    _ => {
      let at = rng.below(b.len() as u64) as usize;
      b[at] = *rng.pick(SCRIPTY);
    }
  }
}

fn malformed_script(rng: &mut Rng, dist: &mut Dist) -> Vec<u8> {
  match rng.below(10) {
    0 => {
      dist.hit("mal_kind_random_bytes");
{
      let n = rng.below(64) as usize;
      rng.bytes(n)
      }
    }
    1 => {
      dist.hit("mal_kind_scripty_bytes");
      let n = rng.below(48) as usize;
      (0..n).map(|_| *rng.pick(SCRIPTY)).collect()
    }
    2 => {
      // a valid reveal script, mutated
      dist.hit("mal_kind_mutated_reveal");
      let k = rng.range(1, 3) as usize;
      let is: Vec<Inscription> = (0..k)
        .map(|_| {
          let mut scratch = Dist::default();
          let m = rng.below(2048);
          let mut i = inscription(rng, m, false, &mut scratch);
          // keep these small
          for f in [&mut i.body, &mut i.metadata, &mut i.properties] {
            if let Some(v) = f {
              v.truncate(24);
            }
          }
          i
        })
        .collect();
      let mut s = build(&[], &is).unwrap();
      for _ in 0..rng.range(1, 3) {
        mutate(rng, &mut s);
      }
      s
    }
    _ => {
      dist.hit("mal_kind_grammar");
      let mut b = garbage(rng, dist);
      for _ in 0..rng.range(1, 4) {
        b.extend(envelope_ish(rng, dist));
        b.extend(garbage(rng, dist));
      }
      if rng.chance(1, 5) {
        mutate(rng, &mut b);
      }
      b
    }
  }
}

fn malformed_witness(rng: &mut Rng, dist: &mut Dist) -> Vec<Vec<u8>> {
  let script = malformed_script(rng, dist);
  match rng.below(24) {
    0 => {
      dist.hit("mal_witness_0");
      Vec::new()
    }
    1 => {
      dist.hit("mal_witness_1");
      vec![script]
    }
    2 => {
      dist.hit("mal_witness_2_annex");
      vec![script, annex(rng)]
    }
    3 => {
      dist.hit("mal_witness_3_annex");
      vec![script, control_block(rng), annex(rng)]
    }
    4 => {
      dist.hit("mal_witness_3_annex_script_in_wrong_slot");
      vec![rng.bytes(8), script, annex(rng)]
    }
    5 => {
      dist.hit("mal_witness_3_no_annex");
      vec![rng.bytes(8), script, control_block(rng)]
    }
    6 => {
      dist.hit("mal_witness_4_annex");
      vec![rng.bytes(3), script, control_block(rng), annex(rng)]
    }
    7 => {
      dist.hit("mal_witness_2_script_last");
      vec![rng.bytes(8), script]
    }
    8 => {
      dist.hit("mal_witness_2_empty_annex_slot");
      // last element is exactly [0x50] or empty
      vec![script, if rng.chance(1, 2) { vec![0x50] } else { Vec::new() }]
    }
    _ => {
      dist.hit("mal_witness_2");
      vec![script, control_block(rng)]
    }
  }
}

pub fn malformed(args: &Args, rng: &mut Rng, out: &mut Streams, dist: &mut Dist) {
  // a few fixed scripts from ord's own tests first
  let fixed: &[&[u8]] = &[
    &[],
    &[0x00],
    &[0x00, 0x63],
    &[0x00, 0x63, 0x03, 0x6f, 0x72, 0x64],
    &[0x00, 0x63, 0x03, 0x6f, 0x72, 0x64, 0x68],
    &[0x00, 0x00, 0x63, 0x03, 0x6f, 0x72, 0x64, 0x68],
    &[0x00, 0x63, 0x00, 0x63, 0x03, 0x6f, 0x72, 0x64, 0x68],
    &[0x00, 0x63, 0x03, 0x6f, 0x72, 0x64, 0x00, 0x63, 0x03, 0x6f, 0x72, 0x64, 0x68],
    &[0x00, 0x00, 0x63, 0x03, 0x6f, 0x72, 0x64, 0x68, 0x00, 0x63, 0x03, 0x6f, 0x72, 0x64, 0x68],
    &[0x00, 0x63, 0x03, 0x6f, 0x72, 0x64, 0x52, 0x51, 0x68],
    &[0x00, 0x63, 0x03, 0x6f, 0x72, 0x64, 0x01, 0x02, 0x01, 0x00, 0x01, 0x02, 0x01, 0x01, 0x68],
    &[0x00, 0x63, 0x03, 0x6f, 0x72, 0x64, 0x68, 0x4c],
    &[0x00, 0x63, 0x03, 0x6f, 0x72, 0x64, 0x68, 0x05, 0x01],
  ];
  for s in fixed {
    emit_malformed(out, dist, &[vec![s.to_vec(), Vec::new()]]);
  }
  for _ in 0..args.cases {
    let n_inputs = *rng.pick(&[1usize, 1, 1, 1, 2, 3]);
    let witnesses: Vec<Vec<Vec<u8>>> = (0..n_inputs).map(|_| malformed_witness(rng, dist)).collect();
    emit_malformed(out, dist, &witnesses);
  }
}

fn emit_malformed(out: &mut Streams, dist: &mut Dist, witnesses: &[Vec<Vec<u8>>]) {
  for w in witnesses {
    for e in w {
      if e.len() <= 2048 {
        let ans = instr(e);
        if ans.ends_with(" E") {
          dist.hit("mal_instr_error");
        }
        out.emit(&format!("env.instr {}", hex(e)), &ans);
      }
    }
  }
  let raw = raw_tx(witnesses);
  out.emit(&tx_line("env.raw", witnesses), &raw);
  let ans = parse_tx(witnesses);
  out.emit(&tx_line("env.tx", witnesses), &ans);
  out.emit(
    &format!("env.oracle.total {}", ans.split(' ').next().unwrap()),
    "true",
  );
  // what came out, for the evidence
  let toks: Vec<&str> = ans.split(' ').collect();
  dist.hit(&format!(
    "mal_envelopes_{}",
    toks.get(1).and_then(|n| n.parse::<usize>().ok()).unwrap_or(0).min(3)
  ));
  for t in toks.iter().skip(2) {
    if let Some(flags) = t.split(':').nth(2) {
      let f: Vec<char> = flags.chars().collect();
      for (j, name) in ["pushnum", "stutter", "duplicate", "incomplete", "unrecognized_even"]
        .iter()
        .enumerate()
      {
        if f.get(j) == Some(&'1') {
          dist.hit(&format!("mal_flag_{name}"));
        }
      }
    }
  }
}

// ---------------------------------------------------------------- compact encodings

pub fn compact(args: &Args, rng: &mut Rng, out: &mut Streams, dist: &mut Dist) {
  let emit_ptr = |out: &mut Streams, p: u64| {
    let ans = answer(&["env.ptr", &p.to_string()]);
    out.emit(&format!("env.ptr {p}"), &ans);
    let mut it = ans.split(' ');
    let v = it.next().unwrap().to_string();
    let rest: Vec<&str> = it.collect();
    out.emit(&format!("env.oracle.ptr {p} {v} {}", rest.join(":")), "true");
  };
  let emit_id = |out: &mut Streams, txid: &[u8], index: u32| {
    let ans = answer(&["env.id", &hex(txid), &index.to_string()]);
    out.emit(&format!("env.id {} {index}", hex(txid)), &ans);
    let mut it = ans.split(' ');
    let v = it.next().unwrap().to_string();
    let rest: Vec<&str> = it.collect();
    out.emit(
      &format!("env.oracle.id {} {index} {v} {}", hex(txid), rest.join(":")),
      "true",
    );
  };
  // boundaries
  let mut ps: Vec<u64> = vec![0, 1, u64::MAX, u64::MAX - 1];
  for k in 1..64 {
    let p = 1u64 << k;
    ps.extend([p - 1, p, p + 1]);
  }
  for p in ps {
    emit_ptr(out, p);
  }
  let zero = [0u8; 32];
  let ones = [0xffu8; 32];
  let mut idx: Vec<u32> = vec![0, 1, u32::MAX, u32::MAX - 1];
  for k in 1..32 {
    let p = 1u32 << k;
    idx.extend([p - 1, p, p + 1]);
  }
  for i in idx {
    emit_id(out, &zero, i);
    emit_id(out, &ones, i);
  }
  for case in 0..args.cases {
    match case % 6 {
      0 => {
        let p = rng.u64_any_width();
        emit_ptr(out, p);
        dist.hit("cmp_ptr");
      }
      1 => {
        // arbitrary pointer bytes: trailing zeros, long values, non-zero high bytes
        let n = rng.below(13) as usize;
        let mut v = rng.bytes(n);
        if rng.chance(1, 2) {
          let z = rng.below(n as u64 + 1) as usize;
          for b in v.iter_mut().skip(n - z) {
            *b = 0;
          }
        }
        let ans = pointer_of(&v);
        dist.hit(if ans == "none" { "cmp_ptrdec_none" } else { "cmp_ptrdec_some" });
        out.emit(&format!("env.ptrdec {}", hex(&v)), &ans);
      }
      2 => {
        let txid = rng.bytes(32);
        let index = match rng.below(4) {
          0 => rng.below(256) as u32,
          1 => (rng.below(255) as u32 + 1) << (8 * rng.below(4)),
          2 => rng.below(65536) as u32,
          _ => rng.next_u64() as u32,
        };
        emit_id(out, &txid, index);
        dist.hit("cmp_id");
      }
      3 | 4 => {
        // arbitrary id bytes around the accepted lengths
        let n = *rng.pick(&[0usize, 1, 31, 32, 32, 33, 33, 34, 34, 35, 35, 36, 36, 36, 37, 40]);
        let mut v = rng.bytes(n);
        if n > 32 && rng.chance(1, 2) {
          let z = rng.range(1, (n - 32) as u64) as usize;
          for b in v.iter_mut().skip(n - z) {
            *b = 0;
          }
        }
        let ans = id_from(&v);
        dist.hit(if ans == "none" { "cmp_idfrom_none" } else { "cmp_idfrom_some" });
        out.emit(&format!("env.idfrom {}", hex(&v)), &ans);
      }
      _ => {
        let n = rng.below(5) as usize;
        let vs: Vec<Vec<u8>> = (0..n)
          .map(|_| {
            if rng.chance(2, 3) {
              id_bytes(rng)
            } else {
              let n = *rng.pick(&[0usize, 31, 33, 36, 37]);
              let mut v = rng.bytes(n);
              if n > 32 && rng.chance(1, 2) {
                *v.last_mut().unwrap() = 0;
              }
              v
            }
          })
          .collect();
        let ans = parents_of(&vs);
        dist.hit("cmp_parents");
        out.emit(
          &format!("env.parents {}", vs.iter().map(|v| hex(v)).collect::<Vec<_>>().join(" "))
            .trim_end()
            .to_string(),
          &ans,
        );
      }
    }
  }
}
