#!/usr/bin/env python3
"""Write MANIFEST.json from checks/*.json (one spec per claimed property) and not_applicable.json."""
import json, os, glob
V = os.path.dirname(os.path.dirname(os.path.abspath(__file__)))
props = [json.loads(l)["id"] for l in open(os.path.join(V, "properties.jsonl"))]
checks, engines = [], {}
registered = {l.strip() for l in open(os.path.join(V, "checks", "REGISTERED")) if l.strip()}
for pid in props:
    if pid not in registered:
        continue
    p = os.path.join(V, "checks", f"{pid}.json")
    if not os.path.exists(p):
        continue
    s = json.load(open(p))
    m = s.get("manifest", {})
    checks.append({
        "property_id": pid,
        "quick_cmd": f"./vcheck {pid} --tier quick",
        "thorough_cmd": f"./vcheck {pid} --tier thorough",
        "evidence_file": f"/verif/evidence/{pid}.json",
        "replay_cmd_template": f"./vcheck {pid} --replay {{path}}",
        "engine": ",".join(sorted({x["engine"] for x in s.get("streams", [])})) or "lean",
        "level_claimed": {"category": s.get("level", "proof"), "text": m.get("level_text", ""), "design_ref": m.get("design_ref", f"DESIGN.md §6 {pid}")},
        "level_note": m.get("level_note", "; ".join(s.get("trusted_base", []))),
        "technique": m.get("technique", "Lean 4 theorems over a hand-written model + differential correspondence check against the real code"),
    })
    for x in s.get("streams", []):
        engines.setdefault(x["engine"], set()).add(pid)
na_path = os.path.join(V, "not_applicable.json")
na = json.load(open(na_path)) if os.path.exists(na_path) else {}
claimed = {c["property_id"] for c in checks}
not_applicable = [{"property_id": p, "reason": na.get(p, "not yet built: model, theorems and correspondence stream for this property are not committed yet (work in progress, see DESIGN.md §10)")} for p in props if p not in claimed]
hooks = json.load(open(os.path.join(V, "hooks.json")))
man = {
    "version": 1,
    "setup_cmd": "./tools/setup.sh",
    "hooks": hooks,
    "engines": [{"name": e, "path": f"/verif/harness/{e.replace('eng_', '')}", "serves_properties": sorted(ps), "kind_free_text": "Rust harness running the real ord code in-process; paired with the Lean model driver of the same name over a line protocol"} for e, ps in sorted(engines.items())],
    "checks": checks,
    "not_applicable": not_applicable,
    "notes": "Every check: regenerate extracted tables, lake build the property's theorem module, #print axioms audit, cargo build the harness against /repo's working tree, corpus + generated cases through implementation and Lean model, oracle predicates on implementation outputs. See DESIGN.md.",
}
json.dump(man, open(os.path.join(V, "MANIFEST.json"), "w"), indent=1)
print(f"{len(checks)} checks, {len(not_applicable)} not claimed")
