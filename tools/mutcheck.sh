#!/bin/sh
# Run checks against a MUTATED copy of ordinals/ord without touching /repo (other work may be
# building against it):  tools/mutcheck.sh <patch-file> <Cxx> [<Cxx> ...]
# A scratch git worktree of /repo (at HEAD) gets the patch; a scratch copy of /verif (harness
# paths rewritten to the worktree, its own cargo target dir and lake cache) runs the checks.
# Scratch lives under /tmp/mutcheck and is reused between calls (incremental builds); remove
# it with `tools/mutcheck.sh --clean`.
set -e
ROOT=${MUTCHECK_ROOT:-/tmp/mutcheck}
if [ "$1" = "--clean" ]; then
  git -C /repo worktree remove --force $ROOT/repo 2>/dev/null || true
  rm -rf $ROOT; git -C /repo worktree prune; exit 0
fi
PATCH=$(readlink -f "$1"); shift
mkdir -p $ROOT
if [ ! -d $ROOT/repo ]; then git -C /repo worktree add --detach $ROOT/repo HEAD >/dev/null; fi
git -C $ROOT/repo checkout -q --detach $(git -C /repo rev-parse HEAD)
git -C $ROOT/repo checkout -- . && git -C $ROOT/repo clean -fdq -e target
if [ "$PATCH" != "/dev/null" ] && [ -n "$PATCH" ]; then git -C $ROOT/repo apply "$PATCH"; fi
# scratch copy of /verif (sources + lake cache), harness pointed at the worktree
rsync -a --delete --exclude target --exclude replays --exclude .git --exclude evidence /verif/ $ROOT/verif/
mkdir -p $ROOT/verif/evidence
sed -i "s|/repo|$ROOT/repo|g" $ROOT/verif/harness/Cargo.toml
sed -i "s|/verif/target|$ROOT/target|" $ROOT/verif/harness/.cargo/config.toml
cp $ROOT/repo/Cargo.lock $ROOT/verif/harness/Cargo.lock
cd $ROOT/verif
rc=0
for c in "$@"; do
  VERIF_REPO=$ROOT/repo VERIF_TARGET=$ROOT/target ./vcheck $c > $ROOT/$c.log 2>&1 || true
  echo "$c: $(grep -E 'VIOLATION|KNOWN-FINDING|INFRA' $ROOT/$c.log | head -3 | tr '\n' ' ') $(tail -1 $ROOT/$c.log | cut -c1-160)"
done
