#!/usr/bin/env python3
"""Store a confirmed seeded defect under /verif/seeded/<ID>/:  seed_store.py <ID> <check-results-json>
<check-results-json> = {"C01": "VIOLATION oracle", "C02": "pass", ...} as observed with tools/mutcheck.sh."""
import json, os, shutil, sys
sid, results = sys.argv[1], json.loads(sys.argv[2])
src = f"/tmp/seed/out/{sid}"
dst = os.path.join(os.path.dirname(os.path.dirname(os.path.abspath(__file__))), "seeded", sid)
os.makedirs(dst, exist_ok=True)
for f in ("patch.diff", "demo.diff"):
    shutil.copy(os.path.join(src, f), os.path.join(dst, f))
meta = json.load(open(os.path.join(src, "meta.json")))
confirm = open(os.path.join(src, "confirm.log")).read().strip().split("\n") if os.path.exists(os.path.join(src, "confirm.log")) else []
out = {
    "property": meta.get("property", sid),
    "summary": meta.get("summary"),
    "needs": meta.get("needs"),
    "demo_cmd": meta.get("demo_cmd"),
    "author": "fresh sub-agent given only the property text and a scratch worktree of /repo (prompt: seeded/PROMPT.md)",
    "author_ran": meta.get("ran"),
    "confirmed_by_coordinator": confirm,
    "checks_run_against_it": results,
    "how_run": "tools/mutcheck.sh seeded/%s/patch.diff <checks>  (scratch worktree + scratch copy of /verif; /repo itself untouched)" % sid,
}
json.dump(out, open(os.path.join(dst, "meta.json"), "w"), indent=1, ensure_ascii=False)
print("stored", dst)
