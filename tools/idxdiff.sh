#!/bin/sh
# usage: idxdiff.sh DIR [max]  — show differing lines of a stream directory
paste -d'\n' $1/ops.txt $1/impl.out $1/model.out | awk -v max=${2:-3} 'NR%3==1{op=$0} NR%3==2{i=$0} NR%3==0{ if (i!=$0) {n++; if (n<=max) {print "LINE " (NR/3) " OP: " substr(op,1,400); print "IMPL:  " substr(i,1,3000); print "MODEL: " substr($0,1,3000)}}} END{print n+0 " diffs"}'
