#!/bin/sh
# Confirm a seeded defect produced by a mutation agent:  tools/seed_confirm.sh <ID>
# Uses the agent's scratch worktree /tmp/seed/<ID> and outputs /tmp/seed/out/<ID>/{patch,demo}.diff,
# meta.json (demo_cmd).  Steps: clean checkout + demo → demo passes; + patch → compiles, the
# project's unit tests of the touched crate(s) pass, demo FAILS.  Writes /tmp/seed/out/<ID>/confirm.log.
ID=$1
WT=/tmp/seed/$ID; OUT=/tmp/seed/out/$ID
export CARGO_TARGET_DIR=${SEED_TARGET:-/tmp/seed/target-confirm}; export CARGO_NET_OFFLINE=true RUST_BACKTRACE=0
[ -d $WT ] || git -C /repo worktree add --detach $WT HEAD >/dev/null 2>&1
cd $WT || exit 2
mkdir -p $OUT; [ -f $OUT/patch.diff ] || cp /verif/seeded/$ID/patch.diff /verif/seeded/$ID/demo.diff /verif/seeded/$ID/meta.json $OUT/
LOG=$OUT/confirm.log; : > $LOG
git checkout -q -- . && git clean -fdq -e target
DEMO=$(python3 -c "import json;print(json.load(open('$OUT/meta.json'))['demo_cmd'])")
# the demonstration must use THIS run's target dir, not the one its author used
DEMO=$(echo "$DEMO" | sed -E 's#CARGO_TARGET_DIR=[^ ]+ ?##g; s#cd /tmp/seed/[A-Za-z0-9]+ *&& *##')
echo "demo_cmd: $DEMO" >> $LOG
git apply $OUT/demo.diff || { echo "demo.diff does not apply" >> $LOG; exit 1; }
touch src/lib.rs crates/ordinals/src/lib.rs crates/mockcore/src/lib.rs; ( eval "$DEMO" ) > $OUT/demo_clean.out 2>&1; echo "demo on clean tree: rc=$?" >> $LOG
git apply $OUT/patch.diff || { echo "patch.diff does not apply" >> $LOG; exit 1; }
touch src/lib.rs crates/ordinals/src/lib.rs crates/mockcore/src/lib.rs; cargo check --offline --workspace --tests > $OUT/check.out 2>&1; echo "cargo check with patch: rc=$?" >> $LOG
( eval "$DEMO" ) > $OUT/demo_patched.out 2>&1; echo "demo with patch: rc=$?" >> $LOG
# existing unit tests with the patch but WITHOUT the demonstration
git checkout -q -- . && git clean -fdq -e target && git apply $OUT/patch.diff
touch src/lib.rs crates/ordinals/src/lib.rs crates/mockcore/src/lib.rs
if git diff --stat | grep -q "crates/ordinals"; then
  cargo test --offline -p ordinals > $OUT/tests_ordinals.out 2>&1; echo "cargo test -p ordinals with patch: rc=$? $(grep '^test result' $OUT/tests_ordinals.out | head -1)" >> $LOG
fi
cargo test --offline --lib > $OUT/tests_lib.out 2>&1; echo "cargo test --lib (ord) with patch: rc=$? $(grep '^test result' $OUT/tests_lib.out | head -1)" >> $LOG
cat $LOG
rm -rf /tmp/seed/target-$ID
