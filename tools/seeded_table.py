#!/usr/bin/env python3
"""Rewrite DESIGN.md §11 (seeded-defect campaign) from seeded/*/meta.json."""
import json, os, re
V = os.path.dirname(os.path.dirname(os.path.abspath(__file__)))
rows = []
for d in sorted(x for x in os.listdir(os.path.join(V, "seeded")) if os.path.isdir(os.path.join(V, "seeded", x))):
    m = json.load(open(os.path.join(V, "seeded", d, "meta.json")))
    res = "; ".join(f"{k}: {v}" for k, v in m["checks_run_against_it"].items())
    rows.append(f"| {d} | {(m.get('summary') or '').replace('|','/')} | {(m.get('needs') or '').replace('|','/')} | {res.replace('|','/')} |")
text = """## 11. Seeded-defect campaign: which checks catch which changes

Fresh sub-agents were given ONLY the text of one property and their own scratch git worktree of
`/repo` (nothing from `/verif`) and asked for a small realistic change that breaks the property,
still compiles and passes the existing suite, and needs something specific to manifest, plus a
demonstration (a new test failing with the change and passing without it); the prompt they got is
`seeded/PROMPT.md`.  Each change was
confirmed by the coordinator (`tools/seed_confirm.sh`: demo passes on the clean tree, `cargo check
--workspace --tests` and the full `cargo test --lib` of the touched crates pass with the change,
demo fails with it) and is kept under `seeded/<id>/` (`patch.diff`, `demo.diff`, `meta.json`).
The checks were run against each change with `tools/mutcheck.sh` (scratch worktree of `/repo` +
scratch copy of `/verif` with the harness pointed at it; `/repo` itself is never modified, because
other work builds against it concurrently — equivalent to `git -C /repo apply` / run / `checkout`).

| seeded for | change | needs | verdict of the checks run against it |
|---|---|---|---|
""" + "\n".join(rows) + """

Strengthening done because of this campaign (each was a miss or a weak verdict first):
* C05's seeded change (stale read of the cursed counter, visible only when two blocks share an
  update call) was missed by C05's own stream, which indexed one block per update: `ixlib` now
  lets blocks accumulate across update calls, and every index stream sees multi-block batches.
* C20's seeded change produced new panics of an already *known* class, which the known-finding
  filter masked (verdict only `no-failing-input-found`): `vcheck` no longer lets a known class mask an
  oracle failure that follows a request on which model and implementation disagree.
* C16's seeded change (capacity overflow in the properties decoder) needs a properties field, which
  the chain generator never produced: `chaingen` now emits galleries, damaged CBOR and absurd map
  lengths; an implementation abort/panic inside the harness process is now a broken obligation
  (not an infrastructure failure), and `index.oracle.nofail` carries the implementation's outcome so
  the failing chain is reported as the input.
* C15's seeded change was missed by C15's quick tier (16 chains): the quick tier now runs 96 chains
  × 8 flag sets (≈ 40 s).
* C24's seeded change needed a PSBT shape the generator did not produce: positional shapes and the
  oracle line `offer.oracle.positions` were added.
* Round 2 and 3 (ids ending in `b`: a second, different change for the same property, the author being
  told which change to avoid): C21b (the shared-output bail skipped for reinscriptions) was missed —
  the generator only reinscribed outputs holding a single inscription and the commit oracle allowed
  any inscribed input for a reinscription.  Now every generated world ends with a reinscription inside
  an output that carries several inscriptions, the oracle flags a commit input carrying an
  inscription anywhere but on the reinscribed sat, and the guard itself is modelled and proved
  (`c21_commit_guard_sound`, request line `batch.guard`).
* C11b (the rune loop of `index_block` skipping the coinbase) was missed: no generated coinbase
  carried a runestone.  `chaingen` now puts runestones into one coinbase in six (unnamed etchings with
  premine/terms, mints, edicts); all index checks were re-run on the unchanged tree (0 disagreements:
  the model already treated transaction 0 like any other).
* C15b (the node-fetch loop of `spawn_fetcher` indexing the wrong outpoint) was missed by the quick
  tier, which skipped the only stream with a non-zero first inscription height (`signet`, 112 402
  blocks to mine).  A guarded hook (`ord::verif::overrides`, /repo e9779c6) lets the harness override the
  activation heights, and the new stream `regtest-fh` (quick and thorough) runs the same scenarios on
  short regtest chains: header-only fetching, multi-vout batches of node-fetched inputs, reveals whose
  pointers land beyond input 0, lossy prefixes, runes below/above the first inscription height.
* C24b (sign of the balance change dropped) and C03b (an unrecognized even field hidden behind a
  second curse) were caught only as model disagreements at first: the generator now produces offers
  that are valid in everything but the sign of the balance change (oracle `offer.oracle.sign` fails),
  and C03's unbound clause has its own oracle on the real parser's flags (`ix.oracle.unbound`).
* C23b is caught by a generated proof obligation rather than by a run: `fund_call_order` extracts every
  call site of the node-funding helper and the theorem module proves by `decide` that an
  *unconditional* `lock_non_cardinal_outputs` precedes each of them.
* Totals: 59 seeded changes (37 + 10 + 12), every one reported as a VIOLATION by the check of its own
  property in the quick tier as committed now (all 59 were re-run after the last generator change,
  because any change to a generator shifts the random sequence of every stream that uses it: the
  round-1 C16 seed had silently stopped being caught at seed 1 and was recovered by aiming the
  generator at every length-prefixed place of the properties schema); 8 needed a strengthening first (C05, C15, C16, C20
  verdict, C24, C21b, C11b, C15b) and 2 a better verdict (C24b, C03b).
* Independent of any seed: extractors read the source with comments removed (a comment added inside a
  parsed function no longer breaks an obligation: tested by inserting 3 800 comment lines and 1 400 blank
  lines into the tree), and a harness that no longer compiles against the working tree (rustc
  diagnostics) is reported as a broken correspondence (`VIOLATION … no-failing-input-found`) rather
  than as an infrastructure failure.
"""
p = os.path.join(V, "DESIGN.md")
s = open(p).read()
if "## 11. Seeded-defect campaign" in s:
    s = s[: s.index("## 11. Seeded-defect campaign")]
s = s.rstrip() + "\n\n" + text
open(p, "w").write(s)
print(len(rows), "rows")
