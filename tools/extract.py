"""Source-text extractors (translator half of the tie between model and code).

`run(name)` imports tools/extractors/<name>.py and calls its `run(repo, gen_dir)`, which reads
/repo source text, asserts the shape it expects (raise ShapeError otherwise: fail closed) and
rewrites lean/OrdModel/Generated/<Name>.lean.  It returns a small JSON-able summary that is
copied into the evidence file.  Theorem modules import the generated file, so a changed table
breaks (or re-validates) the proof obligations that mention it on the next `lake build`.
"""
import importlib, os, sys

VERIF = os.path.dirname(os.path.dirname(os.path.abspath(__file__)))
REPO = os.environ.get("VERIF_REPO", "/repo")
GEN = os.path.join(VERIF, "lean", "OrdModel", "Generated")


class ShapeError(Exception):
    pass


def write_if_changed(path, text):
    """avoid touching the file (and triggering rebuilds) when nothing changed"""
    if os.path.exists(path) and open(path).read() == text:
        return False
    with open(path, "w") as f:
        f.write(text)
    return True


def run(name):
    sys.path.insert(0, os.path.join(VERIF, "tools"))
    mod = importlib.import_module(f"extractors.{name}")
    return mod.run(REPO, GEN)
