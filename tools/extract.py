"""Source-text extractors (translator half of the tie between model and code).

`run(name)` imports tools/extractors/<name>.py and calls its `run(repo, gen_dir)`, which reads
/repo source text, asserts the shape it expects (raise ShapeError otherwise: fail closed) and
rewrites lean/OrdModel/Generated/<Name>.lean.  It returns a small JSON-able summary that is
copied into the evidence file.  Theorem modules import the generated file, so a changed table
breaks (or re-validates) the proof obligations that mention it on the next `lake build`.
"""
import importlib, os, re, sys

VERIF = os.path.dirname(os.path.dirname(os.path.abspath(__file__)))
REPO = os.environ.get("VERIF_REPO", "/repo")
GEN = os.path.join(VERIF, "lean", "OrdModel", "Generated")


class ShapeError(Exception):
    pass


def strip_comments(src):
    """Remove `//` line comments (string- and char-literal aware, raw strings included) so that
    adding, removing or rewording a comment never changes what an extractor sees.  A line that
    held only a comment disappears entirely; a trailing comment is cut together with the blanks
    before it.  Block comments are rare in ord and are removed too."""
    out, i, n = [], 0, len(src)
    while i < n:
        c = src[i]
        if c == '"':
            j = i + 1
            while j < n and src[j] != '"':
                j += 2 if src[j] == "\\" else 1
            out.append(src[i:j + 1]); i = j + 1
        elif c == "r" and re.match(r'r#*"', src[i:i + 8]) and (i == 0 or not (src[i - 1].isalnum() or src[i - 1] == "_")):
            m = re.match(r'r(#*)"', src[i:])
            end = src.find('"' + m.group(1), i + m.end())
            end = n if end < 0 else end + 1 + len(m.group(1))
            out.append(src[i:end]); i = end
        elif c == "'":
            m = re.match(r"'(\\.[^']*|[^'\\])'", src[i:])
            if m:
                out.append(m.group(0)); i += m.end()
            else:
                out.append(c); i += 1          # lifetime
        elif src.startswith("//", i):
            j = src.find("\n", i)
            j = n if j < 0 else j
            # cut blanks before the comment
            while out and out[-1] and out[-1][-1] in " \t" and len(out[-1]) == 1:
                out.pop()
            k = len(out)
            whole_line = (not out) or out[-1].endswith("\n")
            i = j + 1 if (whole_line and j < n) else j
        elif src.startswith("/*", i):
            depth, j = 1, i + 2
            while j < n and depth:
                if src.startswith("/*", j): depth += 1; j += 2
                elif src.startswith("*/", j): depth -= 1; j += 2
                else: j += 1
            i = j
        else:
            out.append(c); i += 1
    return "".join(out)


def read_src(path):
    """source text as the extractors see it: comments removed"""
    return strip_comments(open(path).read())


def write_if_changed(path, text):
    """avoid touching the file (and triggering rebuilds) when nothing changed"""
    if os.path.exists(path) and open(path).read() == text:
        return False
    with open(path, "w") as f:
        f.write(text)
    return True


def run(name):
    sys.path.insert(0, os.path.join(VERIF, "tools"))
    mod = importlib.import_module(f"extractors.{name}")
    return mod.run(REPO, GEN)
