#!/bin/sh
# MANIFEST.setup_cmd: build the framework from files on disk only (offline).
# Builds exactly what the registered checks need: their theorem modules, model drivers and
# harness engines (checks/*.json), so an unregistered work-in-progress file cannot break setup.
set -e
cd "$(dirname "$0")/.."
export CARGO_NET_OFFLINE=true
cp /repo/Cargo.lock harness/Cargo.lock
python3 tools/genroot.py
LEAN_TARGETS=$(python3 - <<'PY'
import json,glob
t=set()
for f in ['checks/%s.json' % l.strip() for l in open('checks/REGISTERED') if l.strip()]:
    s=json.load(open(f))
    t.add(s['theorems']['module'])
    for x in s.get('streams',[]): t.add(x['driver'])
print(' '.join(sorted(t)))
PY
)
ENGINES=$(python3 - <<'PY'
import json,glob
t=set()
for f in ['checks/%s.json' % l.strip() for l in open('checks/REGISTERED') if l.strip()]:
    s=json.load(open(f))
    for x in s.get('streams',[]): t.add(x['engine'])
print(' '.join('-p '+e for e in sorted(t)))
PY
)
python3 - <<'PY'
import sys
sys.path.insert(0,'tools')
import json,glob,extract
for f in ['checks/%s.json' % l.strip() for l in open('checks/REGISTERED') if l.strip()]:
    for name in json.load(open(f)).get('extract',[]):
        extract.run(name)
PY
(cd lean && lake build $LEAN_TARGETS)
(cd harness && cargo build --offline -p probe $ENGINES)
