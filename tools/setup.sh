#!/bin/sh
# MANIFEST.setup_cmd: build the framework from files on disk only (offline).
set -e
cd "$(dirname "$0")/.."
export CARGO_NET_OFFLINE=true
cp /repo/Cargo.lock harness/Cargo.lock
python3 tools/genroot.py
(cd lean && lake build OrdModel Driver $(grep -A1 '^\[\[lean_exe\]\]' lakefile.toml | sed -n 's/^name = "\(.*\)"/\1/p'))
(cd harness && cargo build --offline --workspace)
