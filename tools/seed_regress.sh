#!/bin/sh
# Re-run every stored seeded change (seeded/<id>/patch.diff) against the check of its own property
# (quick tier) in the mutcheck scratch; one line per seed in $1 (default /dev/shm/seed_regress.log).
# Needed after any generator change: rare-trigger seeds can silently stop being caught.
cd "$(dirname "$0")/.."
LOG=${1:-/dev/shm/seed_regress.log}; : > $LOG
ROOT=${MUTCHECK_ROOT:-/tmp/mutcheck}
for d in $(ls -d seeded/*/ | xargs -n1 basename); do
  p=$(python3 -c "import json;print(json.load(open('seeded/$d/meta.json'))['property'])")
  tools/mutcheck.sh seeded/$d/patch.diff $p > /dev/null 2>&1
  echo "$d $p $(grep -E '^VIOLATION' $ROOT/$p.log | head -1 | cut -c1-140) :: $(grep -E '^\[vcheck\].*tier=|INFRA' $ROOT/$p.log | tail -1 | cut -c1-170)" >> $LOG
done
echo DONE >> $LOG
