#!/usr/bin/env python3
"""vcheck — run one property's check:  ./vcheck Cxx [--tier quick|thorough] [--replay PATH]

Steps (DESIGN §2.2): regenerate Generated/*.lean from /repo; build the property's theorem
module and model driver with lake; audit axioms / sorry; build the Rust harness against /repo's
working tree; run corpus then generated cases through implementation and model; evaluate the
property's oracle lines; verdict; evidence.

Exit codes: 0 held; 1 VIOLATION (line printed); 2 infrastructure failure (never a VIOLATION).
"""
import concurrent.futures as cf
import hashlib, json, os, re, shutil, subprocess, sys, time

VERIF = os.path.dirname(os.path.dirname(os.path.abspath(__file__)))
LEAN = os.path.join(VERIF, "lean")
HARNESS = os.path.join(VERIF, "harness")
TARGET = os.environ.get("VERIF_TARGET", os.path.join(VERIF, "target"))
REPO = os.environ.get("VERIF_REPO", "/repo")
ALLOWED_AXIOMS = {"propext", "Classical.choice", "Quot.sound"}
BANNED = re.compile(r"\bsorry\b|\badmit\b|^axiom\s|native_decide|bv_decide|implemented_by|\bunsafe\s|maxHeartbeats\s+0\b|ofReduceBool|sorryAx")

ENV = dict(os.environ, CARGO_NET_OFFLINE="true")


def log(msg):
    print(f"[vcheck] {msg}", flush=True)


class Infra(Exception):
    pass


class ImplAbort(Exception):
    """the harness process, which runs the real code in-process, was killed by SIGABRT / SIGSEGV /
    SIGILL / SIGFPE: the implementation aborted (e.g. allocation failure) on a generated input"""
    pass


def run(cmd, cwd=None, timeout=None, stdin=None, stdout=None, env=None):
    return subprocess.run(cmd, cwd=cwd, timeout=timeout, stdin=stdin, stdout=stdout or subprocess.PIPE,
                          stderr=subprocess.STDOUT if stdout is None else subprocess.PIPE, text=stdout is None,
                          env=env or ENV)


# ------------------------------------------------------------------ Lean side

def strip_comments(text):
    """remove /- -/ (nested) and -- comments so the banned-token audit ignores prose"""
    out, i, depth, n = [], 0, 0, len(text)
    while i < n:
        if text.startswith("/-", i):
            depth += 1; i += 2; continue
        if depth and text.startswith("-/", i):
            depth -= 1; i += 2; continue
        if depth:
            if text[i] == "\n": out.append("\n")
            i += 1; continue
        if text.startswith("--", i):
            j = text.find("\n", i)
            i = n if j < 0 else j
            continue
        out.append(text[i]); i += 1
    return "".join(out)


def import_closure(roots):
    """Lean source files (within this project) reachable from the given module names"""
    seen, todo = {}, list(roots)
    while todo:
        m = todo.pop()
        if m in seen: continue
        path = os.path.join(LEAN, m.replace(".", "/") + ".lean")
        if not os.path.exists(path):
            continue   # core / Mathlib module
        seen[m] = path
        for line in open(path):
            mm = re.match(r"\s*(?:public\s+)?import\s+([\w.]+)", line)
            if mm: todo.append(mm.group(1))
    return seen


def audit_sources(roots):
    """grep the Lean sources this check depends on (import closure of its theorem module and its
    drivers) for banned constructs outside comments"""
    hits = []
    for m, p in sorted(import_closure(roots).items()):
        for k, line in enumerate(strip_comments(open(p).read()).split("\n"), 1):
            if BANNED.search(line):
                hits.append(f"{os.path.relpath(p, LEAN)}:{k}: {line.strip()[:120]}")
    return hits


def driver_roots(drivers):
    """root modules of the lean_exe targets named in lakefile.toml"""
    text = open(os.path.join(LEAN, "lakefile.toml")).read()
    roots = []
    for blk in text.split("[[lean_exe]]")[1:]:
        n = re.search(r'name\s*=\s*"([^"]+)"', blk); r = re.search(r'root\s*=\s*"([^"]+)"', blk)
        if n and r and n.group(1) in drivers: roots.append(r.group(1))
    return roots


def lake_build(targets):
    r = run(["lake", "build"] + targets, cwd=LEAN, timeout=3600)
    return r.returncode == 0, r.stdout


def audit_axioms(prop, module, names):
    """#print axioms for every property theorem, in a scratch file elaborated on every run"""
    d = os.path.join(LEAN, ".audit")
    os.makedirs(d, exist_ok=True)
    path = os.path.join(d, f"{prop}.lean")
    with open(path, "w") as f:
        f.write(f"import {module}\n")
        for n in names:
            f.write(f"#print axioms {n}\n")
    r = run(["lake", "env", "lean", path], cwd=LEAN, timeout=1800)
    res, cur = {}, None
    text = r.stdout
    # messages: "'name' depends on axioms: [a, b]" (possibly wrapped) or "'name' does not depend on any axioms"
    flat = re.sub(r"\s+", " ", text)
    for m in re.finditer(r"'([^']+)' (does not depend on any axioms|depends on axioms: \[([^\]]*)\])", flat):
        res[m.group(1)] = set() if m.group(3) is None else {a.strip() for a in m.group(3).split(",") if a.strip()}
    problems = []
    for n in names:
        if n not in res:
            problems.append(f"{n}: not found / did not elaborate")
        elif not res[n] <= ALLOWED_AXIOMS:
            problems.append(f"{n}: axioms {sorted(res[n] - ALLOWED_AXIOMS)}")
    if r.returncode != 0 and not problems:
        problems.append("audit file failed: " + text[-500:])
    return res, problems, text


# ------------------------------------------------------------------ Rust side

def cargo_build(pkgs):
    lock_src = os.path.join(REPO, "Cargo.lock")
    lock_dst = os.path.join(HARNESS, "Cargo.lock")
    # keep dependency versions identical to /repo's; cargo adds the harness crates itself
    if not os.path.exists(lock_dst):
        shutil.copy(lock_src, lock_dst)
    cmd = ["cargo", "build", "--offline"]
    for p in pkgs:
        cmd += ["-p", p]
    r = run(cmd, cwd=HARNESS, timeout=3600)
    for _ in range(6):
        # another work stream may be half-way through creating its member crate
        if r.returncode != 0 and "failed to load manifest for workspace member" in r.stdout:
            time.sleep(10)
            r = run(cmd, cwd=HARNESS, timeout=3600)
    if r.returncode != 0 and "Cargo.lock" in r.stdout and "needs to be updated" in r.stdout:
        shutil.copy(lock_src, lock_dst)
        r = run(cmd, cwd=HARNESS, timeout=3600)
    return r.returncode == 0, r.stdout


# ------------------------------------------------------------------ streams

def run_stream(spec, tier_cfg, seed, outdir, replay=None, timeout=None):
    """one shard: harness -> ops/impl ; driver -> model ; returns dict"""
    os.makedirs(outdir, exist_ok=True)
    eng = os.path.join(TARGET, "debug", spec["engine"])
    cmd = [eng, spec["stream"], "--seed", str(seed), "--out", outdir]
    if replay:
        cmd += ["--replay", replay]
    else:
        cmd += ["--cases", str(tier_cfg.get("cases", 1000))]
    for k, v in (tier_cfg.get("extra") or {}).items():
        cmd += [f"--{k}", str(v)]
    t0 = time.time()
    try:
        r = run(cmd, timeout=timeout or tier_cfg.get("timeout", 3000))
    except subprocess.TimeoutExpired:
        raise Infra(f"harness timed out: {' '.join(cmd)}")
    if r.returncode in (-6, -11, -4, -8):
        raise ImplAbort(f"signal {-r.returncode}: {' '.join(cmd)}\n{r.stdout[-1500:]}")
    if r.returncode != 0:
        raise Infra(f"harness failed rc={r.returncode}: {' '.join(cmd)}\n{r.stdout[-2000:]}")
    ops = os.path.join(outdir, "ops.txt")
    model = os.path.join(outdir, "model.out")
    drv = os.path.join(LEAN, ".lake", "build", "bin", spec["driver"])
    with open(ops, "rb") as fin, open(model, "wb") as fout:
        try:
            d = subprocess.run([drv], stdin=fin, stdout=fout, stderr=subprocess.PIPE, timeout=timeout or tier_cfg.get("timeout", 3000))
        except subprocess.TimeoutExpired:
            raise Infra(f"model driver timed out on {ops}")
    if d.returncode != 0:
        raise Infra(f"model driver failed rc={d.returncode}: {d.stderr.decode()[-1000:]}")
    return {"dir": outdir, "seed": seed, "wall": time.time() - t0, "harness_log": r.stdout[-4000:]}


def is_oracle(op):
    head = op.split(" ", 1)[0]
    return ".oracle." in head or head.startswith("oracle.")


def compare(outdir, keep_samples=3):
    """diff impl.out and model.out line by line"""
    res = {"lines": 0, "oracle_evals": 0, "oracle_fail": [], "model_diff": [], "bad_op": 0, "samples": [], "distinct": set(), "unmaskable": set()}
    prev_diff = False
    with open(os.path.join(outdir, "ops.txt")) as fo, open(os.path.join(outdir, "impl.out")) as fi, open(os.path.join(outdir, "model.out")) as fm:
        for op, imp, mod in zip(fo, fi, fm):
            op, imp, mod = op.rstrip("\n"), imp.rstrip("\n"), mod.rstrip("\n")
            res["lines"] += 1
            orc = is_oracle(op)
            if orc: res["oracle_evals"] += 1
            else: res["distinct"].add(hashlib.blake2b(op.encode(), digest_size=8).digest())
            if mod == "bad-op" or imp == "bad-op": res["bad_op"] += 1
            if not orc:
                prev_diff = imp != mod
            if imp != mod:
                if orc:
                    # an oracle failure right after a request on which model and implementation
                    # DISAGREE is not an instance of a recorded (modelled) finding, whatever its class
                    res["oracle_fail"].append((op, imp, mod))
                    if prev_diff: res["unmaskable"].add(op)
                else:
                    res["model_diff"].append((op, imp, mod))
            elif len(res["samples"]) < keep_samples and not orc and res["lines"] % 97 == 1:
                res["samples"].append({"op": op[:300], "impl": imp[:300], "model": mod[:300]})
        # length mismatch = driver or harness died mid-way
        rest = fo.readline() or fi.readline() or fm.readline()
        if rest:
            raise Infra(f"stream length mismatch in {outdir}")
    return res


# ------------------------------------------------------------------ known findings

def load_known(prop):
    p = os.path.join(VERIF, "KNOWN_FINDINGS.json")
    if not os.path.exists(p):
        return []
    return [e for e in json.load(open(p)).get("findings", []) if e.get("property") == prop and e.get("status") == "known"]


def match_known(known, op, imp, mod):
    for e in known:
        m = e.get("match", {})
        if "op_regex" in m and not re.search(m["op_regex"], op): continue
        if "impl_regex" in m and not re.search(m["impl_regex"], imp): continue
        if "model_regex" in m and not re.search(m["model_regex"], mod): continue
        return e
    return None


# ------------------------------------------------------------------ main

def write_replay(prop, seed, kind, items, extra):
    os.makedirs(os.path.join(VERIF, "replays"), exist_ok=True)
    path = os.path.join(VERIF, "replays", f"{prop}-{kind}-{seed}-{int(time.time())}.txt")
    with open(path, "w") as f:
        f.write(f"# property={prop} kind={kind} seed={seed}\n")
        for k, v in extra.items():
            f.write(f"# {k}: {v}\n")
        for op, imp, mod in items[:50]:
            f.write(f"# impl : {imp}\n# model: {mod}\n{op}\n")
    return path


def main():
    args = sys.argv[1:]
    if not args:
        print(__doc__); sys.exit(2)
    prop = args[0]
    tier = os.environ.get("VERIF_TIER", "quick")
    replay = None
    i = 1
    while i < len(args):
        if args[i] == "--tier": tier = args[i + 1]; i += 2
        elif args[i] == "--replay": replay = args[i + 1]; i += 2
        else: raise SystemExit(f"unknown argument {args[i]}")
    seed = int(os.environ.get("VERIF_SEED", "1"))
    spec = json.load(open(os.path.join(VERIF, "checks", f"{prop}.json")))
    t0 = time.time()
    scratch = f"/dev/shm/ordverif-{prop}-{os.getpid()}"
    shutil.rmtree(scratch, ignore_errors=True)
    os.makedirs(scratch)
    obligations_broken = []   # proof-side breaks (names)
    notes = []
    try:
        # 1. extraction from source text
        gen_info = {}
        if spec.get("extract"):
            sys.path.insert(0, os.path.join(VERIF, "tools"))
            import extract
            for name in spec["extract"]:
                try:
                    gen_info[name] = extract.run(name)
                except extract.ShapeError as e:
                    obligations_broken.append(f"extract:{name}: {e}")
        # 2. lake build
        thm = spec["theorems"]
        drivers = sorted({s["driver"] for s in spec.get("streams", [])})
        ok, out = lake_build([thm["module"]] + drivers)
        if not ok:
            # distinguish: does the driver still build? (model intact, proof broken)
            okd, outd = lake_build(drivers) if drivers else (True, "")
            if not okd:
                raise Infra("model driver does not build:\n" + outd[-3000:])
            obligations_broken.append("lake build " + thm["module"] + " failed: " + out[-1500:])
        hits = audit_sources([thm["module"]] + driver_roots(drivers))
        if hits:
            obligations_broken.append("banned constructs: " + "; ".join(hits[:5]))
        axioms, problems, audit_text = ({}, [], "")
        if ok:
            axioms, problems, audit_text = audit_axioms(prop, thm["module"], thm["names"])
            obligations_broken += problems
        checker_cmd = f"cd {LEAN} && lake build {thm['module']} && lake env lean .audit/{prop}.lean  (#print axioms on {len(thm['names'])} theorems)"
        if tier == "thorough" and ok:
            r = run(["lake", "env", "leanchecker", thm["module"]], cwd=LEAN, timeout=3600)
            if r.returncode != 0:
                obligations_broken.append("leanchecker: " + r.stdout[-800:])
            checker_cmd += f" && lake env leanchecker {thm['module']}"
        # 3. cargo build
        engines = sorted({s["engine"] for s in spec.get("streams", [])})
        streams_runnable = True
        if engines:
            okc, outc = cargo_build(engines)
            if not okc:
                # rustc diagnostics (`error[E0308]: …`, `error: … --> src/…`) mean ord's working tree or
                # its guarded hooks no longer fit the harness: the correspondence cannot be established
                # for this tree, which is a broken obligation (reported, no stream can run).  Anything
                # else (lock file, disk, manifest) is infrastructure.
                if re.search(r"^error(\[E\d+\])?: .*\n\s+--> ", outc, re.M) or "could not compile `ord`" in outc or "could not compile `ordinals`" in outc:
                    diag = [l for l in outc.splitlines() if l.startswith("error") or l.lstrip().startswith("--> ")][:8]
                    obligations_broken.append("correspondence: harness/hooks no longer compile against the working tree: " + " ; ".join(diag))
                    streams_runnable = False
                else:
                    raise Infra("harness does not build against /repo's working tree:\n" + outc[-3000:])
        # 4. streams
        known = load_known(prop)
        known_seen = {}
        totals = {"lines": 0, "oracle_evals": 0, "bad_op": 0, "cases": 0}
        distinct = set()
        oracle_fail, model_diff, samples, dist = [], [], [], {}
        unmaskable = set()
        jobs = []
        for si, s in enumerate(spec.get("streams", []) if streams_runnable else []):
            cfg = s.get(tier) or s.get("quick") or {}
            if replay:
                jobs.append((s, cfg, seed, os.path.join(scratch, f"replay{si}"), replay))
                continue
            corpus = os.path.join(VERIF, "corpus", prop)
            if os.path.isdir(corpus):
                for f in sorted(os.listdir(corpus)):
                    if f.startswith(s["stream"] + ".") or f.startswith(s["stream"] + "-"):
                        jobs.append((s, cfg, seed, os.path.join(scratch, f"corpus{si}-{f}"), os.path.join(corpus, f)))
            shards = int(cfg.get("shards", 1))
            for k in range(shards):
                c = dict(cfg); c["cases"] = max(1, int(cfg.get("cases", 1000)) // shards)
                if k > 0 and c.get("extra"):
                    # exhaustive sweeps are done once, by shard 0
                    c["extra"] = {a: b for a, b in c["extra"].items() if a not in s.get("shard0_only", [])}
                jobs.append((s, c, seed * 1000003 + k, os.path.join(scratch, f"s{si}-{k}"), None))
        aborted = []
        with cf.ThreadPoolExecutor(max_workers=int(os.environ.get("VERIF_JOBS", "16"))) as ex:
            futs = [ex.submit(run_stream, *j) for j in jobs]
            results = []
            for f in futs:
                try:
                    results.append(f.result())
                except ImplAbort as e:
                    aborted.append(str(e))
        if aborted:
            # the implementation died on some generated input of that shard; the shard's command
            # line (seed) reproduces it; the input itself was never written out
            obligations_broken.append("implementation aborted the harness process: " + aborted[0][:600])
        for r in results:
            c = compare(r["dir"])
            totals["lines"] += c["lines"]; totals["oracle_evals"] += c["oracle_evals"]; totals["bad_op"] += c["bad_op"]
            distinct |= c["distinct"]
            oracle_fail += c["oracle_fail"]; model_diff += c["model_diff"]; unmaskable |= c["unmaskable"]
            if len(samples) < 6: samples += c["samples"][:2]
            dp = os.path.join(r["dir"], "dist.json")
            if os.path.exists(dp):
                for k, v in json.load(open(dp)).items():
                    dist[k] = dist.get(k, 0) + v
        # 5. known findings filter
        def split_known(items):
            new = []
            for op, imp, mod in items:
                e = None if op in unmaskable else match_known(known, op, imp, mod)
                if e: known_seen.setdefault(e["id"], (e, op))
                else: new.append((op, imp, mod))
            return new
        oracle_new = split_known(oracle_fail)
        diff_new = split_known(model_diff)
        for eid, (e, op) in sorted(known_seen.items()):
            print(f"KNOWN-FINDING: property={prop} {e['description']} [{eid}]")
        # 6. verdict
        violation = None
        if oracle_new:
            path = write_replay(prop, seed, "oracle", oracle_new, {"what": "the property's predicate is false on the implementation's own output", "count": len(oracle_new)})
            violation = f"VIOLATION property={prop} replay={path}"
        elif diff_new or obligations_broken:
            what = {}
            if obligations_broken: what["broken_obligations"] = " | ".join(o[:400] for o in obligations_broken)
            if diff_new: what["correspondence"] = f"{len(diff_new)} request(s) on which implementation and model disagree (first shown below)"
            # a model/implementation disagreement on a property-specific request is itself a concrete input
            # on which the verified behaviour no longer holds; whether it falsifies the property is decided
            # by the oracle lines, all of which passed here
            what["search"] = f"{totals['oracle_evals']} oracle evaluations on implementation outputs, none failed"
            path = write_replay(prop, seed, "unproved", diff_new, what)
            violation = f"VIOLATION property={prop} replay={path} no-failing-input-found"
        wall = time.time() - t0
        nthm = len(thm["names"]) + len(gen_info)
        discharged = sum(1 for n in thm["names"] if n in axioms and axioms[n] <= ALLOWED_AXIOMS) + sum(1 for n in gen_info if not any(o.startswith(f"extract:{n}") for o in obligations_broken))
        if not ok: discharged = 0
        ev = {
            "property_id": prop, "tier": tier, "seed": seed, "level": spec.get("level", "proof"),
            "coverage": {
                "obligations": nthm, "discharged": discharged,
                "checker_cmd": checker_cmd,
                "trusted_base": spec.get("trusted_base", []),
                "theorems": {n: sorted(axioms.get(n, [])) for n in thm["names"]},
                "generated": gen_info,
                "evaluations": totals["lines"], "distinct_nontrivial": len(distinct),
                "rule": spec.get("rule", "distinct = distinct request lines sent to both implementation and model (oracle lines not counted)"),
                "samples": samples[:6] or [{"note": "no stream"}],
                "correspondence": {"requests": totals["lines"], "disagreements": len(model_diff), "bad_op_lines": totals["bad_op"], "distribution": dist},
                "oracle_on_impl": {"evaluations": totals["oracle_evals"], "failures": len(oracle_fail)},
                "known_findings_seen": sorted(known_seen),
                "exhaustive": False,
            },
            "assumptions": spec.get("assumptions", []),
            "wall_s": round(wall, 2),
            "violations": 0 if violation is None else 1,
        }
        if not replay:
            os.makedirs(os.path.join(VERIF, "evidence"), exist_ok=True)
            with open(os.path.join(VERIF, "evidence", f"{prop}.json"), "w") as f:
                json.dump(ev, f, indent=1)
        log(f"{prop} tier={tier} seed={seed}: {nthm} obligations, {discharged} discharged; {totals['lines']} requests, "
            f"{len(model_diff)} disagreements, {totals['oracle_evals']} oracle evals, {len(oracle_fail)} oracle failures; {wall:.1f}s")
        if violation:
            print(violation, flush=True)
            sys.exit(1)
        sys.exit(0)
    except Infra as e:
        log(f"INFRASTRUCTURE FAILURE (not a verdict): {e}")
        sys.exit(2)
    finally:
        shutil.rmtree(scratch, ignore_errors=True)


if __name__ == "__main__":
    main()
