#!/usr/bin/env python3
"""Regenerate lean/OrdModel.lean and lean/Driver.lean (root import lists) from the files on disk."""
import os
root = os.path.join(os.path.dirname(os.path.dirname(os.path.abspath(__file__))), "lean")
mods = []
for d, _, fs in os.walk(os.path.join(root, "OrdModel")):
    for f in fs:
        if f.endswith(".lean"):
            mods.append(os.path.relpath(os.path.join(d, f), root)[:-5].replace("/", "."))
open(os.path.join(root, "OrdModel.lean"), "w").write("".join(f"import {m}\n" for m in sorted(mods)))
mods = ["Driver." + f[:-5] for f in sorted(os.listdir(os.path.join(root, "Driver"))) if f.endswith(".lean") and not f.endswith("Main.lean")]
open(os.path.join(root, "Driver.lean"), "w").write("".join(f"import {m}\n" for m in mods))
