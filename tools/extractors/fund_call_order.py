"""C23 call order + C22 zero-amount repair, read from the source text.

1. Every call site of `fund_raw_transaction(` in /repo/src (outside `#[cfg(test)]` tails and outside
   src/fund_raw_transaction.rs / src/verif.rs) is located; for the enclosing `fn`, the calls to
   `lock_non_cardinal_outputs()` and `fund_raw_transaction(` are listed in source order together
   with their brace depth relative to the function body (1 = a top-level statement of the body,
   i.e. executed on every path that reaches the statements after it).  Written as
   `Generated.fundSites`; `Theorems/C23.lean` proves `∀ s ∈ fundSites, lockPrecedesFund s` by
   `decide`.  Fail closed (ShapeError) when: a call site is not inside a recognisable `fn`; a
   `lock_non_cardinal_outputs` call is not of the statement form `<recv>.lock_non_cardinal_outputs()?;`;
   the function contains `loop`/`while`/closures around the calls (depth > 3); the set of
   functions differs from the six known ones in a way that is not a pure addition.
2. `create_unsigned_send_or_burn_runes_transaction`: is the repair of notes/fix-C22-zero-amount.diff
   (`ensure!(amount > 0, …)` right after `decimal.to_integer`) present?  Only the unchanged shape
   and the patched shape are accepted.
"""
import os, re
from extract import ShapeError, write_if_changed, read_src

KNOWN = {
    ("src/wallet.rs", "create_unsigned_send_amount_transaction"),
    ("src/wallet.rs", "create_unsigned_send_or_burn_runes_transaction"),
    ("src/subcommand/wallet/mint.rs", "run"),
    ("src/subcommand/wallet/split.rs", "run"),
    ("src/subcommand/wallet/sweep.rs", "run"),
    ("src/subcommand/wallet/offer/create.rs", "run"),
}


def strip_comments(src):
    # line comments only (the wallet sources have no block comments around these calls)
    return re.sub(r"//[^\n]*", "", src)


def fn_spans(src):
    """(name, body_start, body_end) for every `fn` with a braced body"""
    spans = []
    for m in re.finditer(r"\bfn\s+([a-z_0-9]+)\s*(?:<[^>{;]*>)?\s*\(", src):
        # find the opening brace of the body (skip the signature); a `;` first = no body
        i = m.end()
        depth = 1
        while i < len(src) and depth:
            depth += {"(": 1, ")": -1}.get(src[i], 0)
            i += 1
        j = i
        while j < len(src) and src[j] not in "{;":
            j += 1
        if j >= len(src) or src[j] == ";":
            continue
        k, depth = j + 1, 1
        while k < len(src) and depth:
            depth += {"{": 1, "}": -1}.get(src[k], 0)
            k += 1
        spans.append((m.group(1), j, k))
    return spans


def run(repo, gen):
    sites = []
    for root, _, files in os.walk(os.path.join(repo, "src")):
        for f in sorted(files):
            if not f.endswith(".rs"):
                continue
            path = os.path.join(root, f)
            rel = os.path.relpath(path, repo)
            if rel in ("src/fund_raw_transaction.rs", "src/verif.rs", "src/lib.rs"):
                continue
            src = read_src(path)
            cut = src.find("#[cfg(test)]\nmod tests")
            body = src if cut < 0 else src[:cut]
            if "fund_raw_transaction(" not in body:
                continue
            spans = fn_spans(body)
            for m in re.finditer(r"\bfund_raw_transaction\(", body):
                encl = [s for s in spans if s[1] < m.start() < s[2]]
                if not encl:
                    raise ShapeError(f"{rel}: fund_raw_transaction call outside a fn body")
                name, b0, b1 = max(encl, key=lambda s: s[1])  # innermost
                if (rel, name) in [(s["file"], s["fn"]) for s in sites]:
                    continue
                fb = body[b0:b1]
                calls = []
                for c in re.finditer(r"(\b[a-z_]+\.lock_non_cardinal_outputs\(\)(\?;)?)|(\bfund_raw_transaction\()", fb):
                    depth = fb[: c.start()].count("{") - fb[: c.start()].count("}")
                    if c.group(1):
                        if not c.group(2):
                            raise ShapeError(f"{rel}:{name}: lock_non_cardinal_outputs() is not a `…()?;` statement")
                        calls.append(("lock", depth))
                    else:
                        calls.append(("fund", depth))
                    if depth > 3:
                        raise ShapeError(f"{rel}:{name}: call nested deeper than expected (depth {depth})")
                between = fb[: fb.find("fund_raw_transaction(")]
                if re.search(r"\b(loop|while)\b", between):
                    raise ShapeError(f"{rel}:{name}: loop before the funding call — shape not recognised")
                sites.append({"file": rel, "fn": name, "calls": calls})
    found = {(s["file"], s["fn"]) for s in sites}
    missing = KNOWN - found
    if missing:
        raise ShapeError(f"known node-funded functions no longer call fund_raw_transaction: {sorted(missing)}")
    # any lock call elsewhere is irrelevant; any fund call elsewhere is in `sites` and gets the obligation

    # ---- C22 zero-amount repair
    w = read_src(os.path.join(repo, "src", "wallet.rs"))
    m = re.search(r"pub fn create_unsigned_send_or_burn_runes_transaction\(.*?\n  \}\n", w, re.S)
    if not m:
        raise ShapeError("wallet.rs: create_unsigned_send_or_burn_runes_transaction not found")
    fn = m.group(0)
    m = re.search(r"let amount = decimal\.to_integer\(entry\.divisibility\)\?;\s*(.*?)let inscribed_outputs", fn, re.S)
    if not m:
        raise ShapeError("wallet.rs: `let amount = decimal.to_integer(entry.divisibility)?;` … `let inscribed_outputs` not found")
    mid = re.sub(r"\s+", " ", m.group(1)).strip()
    if mid == "":
        zero_fixed = False
    elif re.fullmatch(r'ensure!\(\s*amount > 0,\s*"[^"]*",?\s*\);', mid):
        zero_fixed = True
    else:
        raise ShapeError(f"wallet.rs: unexpected statements after to_integer: {mid[:120]!r}")
    if not zero_fixed and re.search(r"amount\s*(==|!=|>)\s*0", fn):
        raise ShapeError("wallet.rs: a zero-amount test exists in an unexpected place")

    def lean_site(s):
        calls = ", ".join(f".{k} {d}" for k, d in s["calls"])
        return f'  ⟨"{s["file"]}", "{s["fn"]}", [{calls}]⟩'

    text = (
        "/- GENERATED by tools/extractors/fund_call_order.py from /repo/src — do not edit. -/\n"
        "namespace Ord.Wallet.Generated\n\n"
        "inductive Call where\n  | lock (depth : Nat)\n  | fund (depth : Nat)\n  deriving Repr, DecidableEq\n\n"
        "structure FundSite where\n  file : String\n  fn : String\n  calls : List Call\n  deriving Repr\n\n"
        "/-- every function that calls `fund_raw_transaction`, with its lock/fund calls in source order\n"
        "(depth 1 = top-level statement of the function body) -/\n"
        "def fundSites : List FundSite := [\n" + ",\n".join(lean_site(s) for s in sorted(sites, key=lambda s: (s["file"], s["fn"]))) + "\n]\n\n"
        "/-- `create_unsigned_send_or_burn_runes_transaction` rejects a zero amount -/\n"
        f"def zeroAmountFixed : Bool := {'true' if zero_fixed else 'false'}\n\n"
        "end Ord.Wallet.Generated\n"
    )
    changed = write_if_changed(os.path.join(gen, "FundCallOrder.lean"), text)
    return {"sites": [f'{s["file"]}:{s["fn"]}' for s in sites], "zero_amount_fixed": zero_fixed, "rewritten": changed}
