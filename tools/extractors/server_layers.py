"""Translator for C19: the router/layer structure of `Server::run` (src/subcommand/server.rs) and the
media table (src/inscriptions/media.rs) -> Generated/ServerLayers.lean.

What is read (each with a shape assertion; ShapeError = fail closed):

* in `Server::run`, every statement `let <name> = <base><chain>;` between the comment
  `let router = Router::new()` (under the comment "non-recursive endpoints") and `match (self.http_port(), self.https_port())` whose base is
  `Router::new()` or a router variable.  Each chain is a sequence of method calls; accepted calls are
  `.route("<path>", <get|post>(<handler>)[.layer(body_limit)])`, `.merge(<router variable>)`,
  `.fallback(<handler>)`, `.layer(<known layer expression>)`, `.with_state(..)`.  Anything else is a
  ShapeError.  Each `.layer(..)` argument is classified into a `LayerKind` (unknown text = ShapeError),
  and for the two `SetResponseHeaderLayer`s the header name and the literal value are read.
* the conditional outer auth layer must be exactly
  `if let Some((username, password)) = settings.credentials() { router.layer(ValidateRequestHeaderLayer::basic(..)) } else { router }`.
* nothing between the last router statement and the `match` on the ports mentions `router` in any other way,
  and the `spawn` function serves `router.into_make_service()` unchanged (the redirect router is a
  separate `Router::new().fallback(Self::redirect_http_to_https)`; it is recorded as `redirectRouter`).
* `Media::TABLE`: content type string -> media constructor.

The generated file contains only data; the semantics of `.route/.merge/.fallback/.layer` (a layer wraps
exactly the routes and the fallback present at the time of the call) is `Ord.Server.Csp.evalDefs`, and the
obligations over the table (`decide`) are in OrdModel/Theorems/C19.lean.
"""
import os, re
from extract import ShapeError, write_if_changed, read_src


def lean_str(s):
    return '"' + s.replace("\\", "\\\\").replace('"', '\\"') + '"'


def split_calls(chain):
    """split `.a(..).b(..)` into [(name, argtext)], respecting nesting and string literals"""
    calls, i, n = [], 0, len(chain)
    while i < n:
        while i < n and chain[i].isspace():
            i += 1
        if i >= n:
            break
        if chain[i] != ".":
            raise ShapeError(f"server.rs: expected method call in router chain at {chain[i:i+40]!r}")
        m = re.match(r"\.([a-z_]+)\s*\(", chain[i:])
        if not m:
            raise ShapeError(f"server.rs: unparsable router chain at {chain[i:i+40]!r}")
        name = m.group(1)
        j = i + m.end() - 1
        depth, k = 0, j
        while k < n:
            c = chain[k]
            if c == '"':
                k += 1
                while k < n and chain[k] != '"':
                    if chain[k] == "\\":
                        k += 1
                    k += 1
            elif c in "([{":
                depth += 1
            elif c in ")]}":
                depth -= 1
                if depth == 0:
                    break
            k += 1
        if depth != 0:
            raise ShapeError("server.rs: unbalanced parentheses in router chain")
        calls.append((name, chain[j + 1:k].strip()))
        i = k + 1
    return calls


def flat(s):
    return re.sub(r"\s+", " ", s).strip()


def classify_layer(arg):
    a = flat(arg)
    if re.fullmatch(r"Extension\([a-z_.()]+\)", a):
        return ("extension", None, None)
    m = re.fullmatch(
        r"SetResponseHeaderLayer::(if_not_present|overriding)\( header::([A-Z_]+), HeaderValue::from_static\(\"((?:[^\"\\]|\\.)*)\"\), \)", a)
    if m:
        mode, hdr, val = m.groups()
        if hdr == "CONTENT_SECURITY_POLICY":
            return ("cspIfNotPresent" if mode == "if_not_present" else "cspOverriding", hdr, val)
        if hdr == "STRICT_TRANSPORT_SECURITY" and mode == "overriding":
            return ("hstsOverriding", hdr, val)
        return ("setOtherIfNotPresent" if mode == "if_not_present" else "setOtherOverriding", hdr, val)
    if a.startswith("CorsLayer::new()"):
        return ("cors", None, None)
    if a == "CompressionLayer::new()":
        return ("compression", None, None)
    if a == "axum::middleware::from_fn(Self::proxy_layer)":
        return ("proxyFn", None, None)
    if a == "body_limit":
        return ("bodyLimit", None, None)
    raise ShapeError(f"server.rs: unknown layer expression {a[:80]!r}")


def run(repo, gen):
    path = os.path.join(repo, "src", "subcommand", "server.rs")
    src = read_src(path)
    cut = src.find("#[cfg(test)]\nmod tests")
    body = src if cut < 0 else src[:cut]

    m = re.search(r"\n  pub fn run\(.*?\n  \}\n", body, re.S)
    if not m:
        raise ShapeError("server.rs: Server::run not found")
    run_src = m.group(0)
    # (comments are already removed by read_src; the section starts at the statement that builds the
    # first Router, which the source introduces with the comment `non-recursive endpoints`)
    ma = re.search(r"\n[ \t]*let router = Router::new\(\)", run_src)
    a = ma.start() if ma else -1
    b = run_src.find("match (self.http_port(), self.https_port())")
    if a < 0 or b < 0 or b < a:
        raise ShapeError("server.rs: Server::run no longer has the router section between `let router = Router::new()` and the port match")
    sect = run_src[a:b]

    # statements
    stmts = []
    pos = 0
    while True:
        m = re.compile(r"\s*let ([a-z_]+) =").match(sect, pos)
        if not m:
            break
        name = m.group(1)
        # find terminating `;` at depth 0
        i, depth, n = m.end(), 0, len(sect)
        while i < n:
            c = sect[i]
            if c == '"':
                i += 1
                while i < n and sect[i] != '"':
                    if sect[i] == "\\":
                        i += 1
                    i += 1
            elif c in "([{":
                depth += 1
            elif c in ")]}":
                depth -= 1
            elif c == ";" and depth == 0:
                break
            i += 1
        stmts.append((name, sect[m.end():i].strip()))
        pos = i + 1
    if sect[pos:].strip():
        raise ShapeError(f"server.rs: unexpected text in the router section: {flat(sect[pos:])[:80]!r}")

    var_ids = {}
    defs = []          # (var id, base var id or None, steps)
    set_headers = {}
    auth_conditional = False
    routes_seen = []
    for name, expr in stmts:
        e = flat(expr)
        if name == "router" and e.startswith("if let"):
            want = ("if let Some((username, password)) = settings.credentials() { #[allow(deprecated)] "
                    "router.layer(ValidateRequestHeaderLayer::basic(username, password)) } else { router }")
            if e != want:
                raise ShapeError("server.rs: the conditional basic-auth layer statement has an unexpected shape")
            if auth_conditional:
                raise ShapeError("server.rs: two conditional auth statements")
            auth_conditional = True
            continue
        m = re.match(r"(Router::new\(\)|[a-z_]+\b)", expr)
        if not m:
            raise ShapeError(f"server.rs: router statement `{name}` has an unexpected base")
        base = m.group(1)
        if base != "Router::new()" and base not in var_ids:
            raise ShapeError(f"server.rs: router statement `{name}` starts from unknown variable `{base}`")
        if auth_conditional:
            raise ShapeError("server.rs: router statements after the conditional auth layer")
        calls = split_calls(expr[m.end():])
        steps = []
        for cname, arg in calls:
            if cname == "route":
                mm = re.match(r'"((?:[^"\\]|\\.)*)"\s*,\s*(.*)$', arg, re.S)
                if not mm:
                    raise ShapeError(f"server.rs: unparsable .route({flat(arg)[:60]!r})")
                rpath, mr = mm.group(1), flat(mm.group(2)).rstrip(",").strip()
                mm2 = re.fullmatch(r"(get|post)\(([A-Za-z_:]+)\)((?:\.layer\([a-z_]+\))*)", mr)
                if not mm2:
                    raise ShapeError(f"server.rs: unexpected method router for {rpath}: {mr[:60]!r}")
                method, handler, mlayers = mm2.groups()
                inner = [classify_layer(x)[0] for x in re.findall(r"\.layer\(([a-z_]+)\)", mlayers)]
                steps.append(("route", method, rpath, handler, inner))
                routes_seen.append((method, rpath))
            elif cname == "merge":
                if arg not in var_ids:
                    raise ShapeError(f"server.rs: .merge of unknown router `{arg}`")
                steps.append(("merge", var_ids[arg]))
            elif cname == "fallback":
                steps.append(("fallback", flat(arg)))
            elif cname == "layer":
                kind, hdr, val = classify_layer(arg)
                if hdr is not None:
                    if kind in set_headers:
                        raise ShapeError(f"server.rs: two layers of kind {kind}")
                    set_headers[kind] = (hdr, val)
                steps.append(("layer", kind))
            elif cname == "with_state":
                steps.append(("withState",))
            else:
                raise ShapeError(f"server.rs: unexpected router method .{cname}(..)")
        base_id = None if base == "Router::new()" else var_ids[base]
        if name not in var_ids:
            var_ids[name] = len(var_ids)
        defs.append((var_ids[name], base_id, steps))

    if "router" not in var_ids:
        raise ShapeError("server.rs: no `router` variable")
    if not auth_conditional:
        raise ShapeError("server.rs: the conditional basic-auth layer statement is missing")
    if "cspIfNotPresent" not in set_headers:
        raise ShapeError("server.rs: no SetResponseHeaderLayer::if_not_present(CONTENT_SECURITY_POLICY, ..) layer")
    if len(set(routes_seen)) != len(routes_seen):
        raise ShapeError("server.rs: duplicate (method, path) route")

    # spawn serves the router unchanged
    m = re.search(r"\n  fn spawn\(.*?\n  \}\n", body, re.S)
    if not m:
        raise ShapeError("server.rs: Server::spawn not found")
    sp = flat(m.group(0))
    if sp.count(".serve(router.into_make_service())") != 2:
        raise ShapeError("server.rs: spawn no longer serves `router.into_make_service()` for Http and Https")
    if ".serve( Router::new() .fallback(Self::redirect_http_to_https) .layer(Extension(destination)) .into_make_service(), )" not in sp:
        raise ShapeError("server.rs: the redirect router in spawn has an unexpected shape")
    tail = run_src[b:]
    if re.search(r"\.(route|merge|nest|layer|fallback)\(", tail):
        raise ShapeError("server.rs: router modified after the router section of Server::run")

    # media table
    mpath = os.path.join(repo, "src", "inscriptions", "media.rs")
    msrc = read_src(mpath)
    m = re.search(r"const TABLE: [^=]*= &\[(.*?)\n  \];", msrc, re.S)
    if not m:
        raise ShapeError("media.rs: Media::TABLE not found")
    media = []
    for line in m.group(1).strip().splitlines():
        mm = re.fullmatch(r'\s*\("([^"]*)",\s*(GENERIC|TEXT|FONT),\s*([A-Za-z]+)(?:\(([A-Za-z]+)\))?,\s*&\[[^\]]*\]\),', line)
        if not mm:
            raise ShapeError(f"media.rs: unparsable TABLE row {line.strip()[:60]!r}")
        ct, _, kind, param = mm.groups()
        media.append((ct, kind, param))
    kinds = {"Audio": ".audio", "Font": ".font", "Iframe": ".iframe", "Markdown": ".markdown", "Model": ".model",
             "Pdf": ".pdf", "Text": ".text", "Unknown": ".unknown", "Video": ".video"}
    langs = {"Css": ".css", "JavaScript": ".javaScript", "Json": ".json", "Python": ".python", "Yaml": ".yaml"}
    rends = {"Auto": ".auto", "Pixelated": ".pixelated"}

    def media_lean(kind, param):
        if kind == "Code":
            if param not in langs:
                raise ShapeError(f"media.rs: unknown language {param}")
            return f"(.code {langs[param]})"
        if kind == "Image":
            if param not in rends:
                raise ShapeError(f"media.rs: unknown image rendering {param}")
            return f"(.image {rends[param]})"
        if kind not in kinds or param is not None:
            raise ShapeError(f"media.rs: unknown media {kind}({param})")
        return kinds[kind]

    if "fn from_str(s: &str) -> Result<Self, Self::Err> { for entry in Self::TABLE { if entry.0 == s { return Ok(entry.2); } }" not in flat(msrc):
        raise ShapeError("media.rs: Media::from_str is no longer the first-exact-match lookup in TABLE")

    def step_lean(s):
        if s[0] == "route":
            inner = "[" + ", ".join("." + k for k in s[4]) + "]"
            return f".route {'.get' if s[1] == 'get' else '.post'} {lean_str(s[2])} {inner}"
        if s[0] == "merge":
            return f".merge {s[1]}"
        if s[0] == "fallback":
            return ".fallback"
        if s[0] == "layer":
            return f".layer .{s[1]}"
        return ".withState"

    out = ["/- GENERATED by tools/extractors/server_layers.py from src/subcommand/server.rs and src/inscriptions/media.rs — do not edit. -/",
           "import OrdModel.Server.Csp",
           "namespace Ord.Server.Generated",
           "open Ord.Server.Csp",
           "",
           "/-- the `let <router> = …;` statements of `Server::run` in source order: (variable, base variable, calls) -/",
           "def routerDefs : List RouterDef := ["]
    for i, (vid, base, steps) in enumerate(defs):
        out.append(f"  {{ var := {vid}, base := {'none' if base is None else 'some ' + str(base)}, steps := [")
        for j, s in enumerate(steps):
            out.append(f"      {step_lean(s)}{',' if j + 1 < len(steps) else ''}")
        out.append("    ] }" + ("," if i + 1 < len(defs) else ""))
    out += ["]",
            "",
            f"/-- the variable served by `spawn` -/\ndef servedVar : Nat := {var_ids['router']}",
            "",
            f"/-- value of the `if_not_present` Content-Security-Policy layer -/\ndef defaultCspValue : String := {lean_str(set_headers['cspIfNotPresent'][1])}",
            "",
            f"/-- the basic-auth layer is applied outside everything, only when credentials are configured -/\ndef authConditional : Bool := true",
            "",
            "/-- `Media::TABLE` (content type ↦ media), in source order -/",
            "def mediaTable : List (String × Media) := ["]
    for i, (ct, kind, param) in enumerate(media):
        out.append(f"  ({lean_str(ct)}, {media_lean(kind, param)}){',' if i + 1 < len(media) else ''}")
    out += ["]", "", "end Ord.Server.Generated", ""]
    changed = write_if_changed(os.path.join(gen, "ServerLayers.lean"), "\n".join(out))
    return {"router_statements": len(defs), "routes": len(routes_seen), "media_rows": len(media),
            "default_csp": set_headers["cspIfNotPresent"][1], "rewritten": changed}
