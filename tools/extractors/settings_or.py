"""Translator for C36: src/settings.rs + src/chain.rs (source text) -> Generated/SettingsOr.lean.

What is read (each with a shape assertion; ShapeError = fail closed):

* `struct Settings { f: T, … }`                      -> field list with the Rust type of each field
* `fn or(self, source: Settings)`  struct literal    -> field ↦ combinator (optOr | boolOr | setUnion | other),
                                                        and whether `self` is the first operand
* `fn from_options(options: Options)` struct literal -> field ↦ direct | noFlag | chainFlags | other
* `fn from_env(env)`  `Ok(Self { … })`               -> field ↦ getter closure, ORD_ key (must be upper(field)), `?`
   and the bodies of the getter closures (normalised text compared with the expected text)
* `fn merge`                                         -> the order in which the sources are combined, and the
                                                        config-file lookup expressions
* `fn or_defaults` struct literal                    -> field ↦ keep | const n | erase | derived <local>
   and the `let` definitions of the derived locals (normalised text compared)
* `Chain::default_rpc_port`, `Chain::join_with_data_dir`, `Chain::from_str`, serde/Display names

The generated Lean file only contains data (its own enumeration of field names `F`, tables as list
literals); the proof obligations over it are in OrdModel/Theorems/C36.lean.  A field added to or
removed from the Rust struct changes `F`, which breaks the bijection obligation with the model's
`Field`; a changed combinator/getter/default changes a table entry, which breaks the corresponding
`decide` obligation.
"""
import os, re, sys

sys.path.insert(0, os.path.dirname(os.path.dirname(os.path.abspath(__file__))))
import extract
from extract import ShapeError


def norm(s):
    return re.sub(r"\s+", "", s)


def strip_line_comments(s):
    return re.sub(r"//[^\n]*", "", s)


def balanced(text, start, open_ch="{", close_ch="}"):
    """text[start] must be open_ch; returns index just past the matching close_ch (ignores string literals)"""
    if text[start] != open_ch:
        raise ShapeError(f"expected {open_ch!r} at offset {start}")
    depth, i, n = 0, start, len(text)
    while i < n:
        c = text[i]
        if c == '"':
            i += 1
            while i < n and text[i] != '"':
                if text[i] == "\\":
                    i += 1
                i += 1
        elif c == open_ch:
            depth += 1
        elif c == close_ch:
            depth -= 1
            if depth == 0:
                return i + 1
        i += 1
    raise ShapeError("unbalanced braces")


def fn_body(src, header_re, what):
    ms = list(re.finditer(header_re, src))
    if len(ms) != 1:
        raise ShapeError(f"{what}: expected exactly one match of /{header_re}/, found {len(ms)}")
    start = src.index("{", ms[0].end() - 1)
    end = balanced(src, start)
    return src[start + 1:end - 1]


def split_top(s, sep=","):
    """split on sep at nesting depth 0 of () [] {} <> (strings respected; `->`/`=>` not special-cased
    because the struct literals we split contain neither at depth 0)"""
    out, cur, depth, i, n = [], [], 0, 0, len(s)
    while i < n:
        c = s[i]
        if c == '"':
            j = i + 1
            while j < n and s[j] != '"':
                if s[j] == "\\":
                    j += 1
                j += 1
            cur.append(s[i:j + 1]); i = j + 1; continue
        if c in "([{":
            depth += 1
        elif c in ")]}":
            depth -= 1
        elif c == sep and depth == 0:
            out.append("".join(cur)); cur = []; i += 1; continue
        cur.append(c); i += 1
    if "".join(cur).strip():
        out.append("".join(cur))
    return out


def struct_literal_fields(body, opener_re, what):
    """find `Self {` (or `Ok(Self {`) literal inside body, return ordered [(field, expr_text)]"""
    ms = list(re.finditer(opener_re, body))
    if len(ms) != 1:
        raise ShapeError(f"{what}: expected exactly one struct literal /{opener_re}/, found {len(ms)}")
    start = body.index("{", ms[0].start())
    end = balanced(body, start)
    inner = body[start + 1:end - 1]
    fields = []
    for part in split_top(inner):
        part = part.strip()
        if not part:
            continue
        m = re.match(r"^([a-z_][a-z0-9_]*)\s*:(?!:)(.*)$", part, re.S)
        if m:
            fields.append((m.group(1), m.group(2).strip()))
        elif re.match(r"^[a-z_][a-z0-9_]*$", part):
            fields.append((part, part))       # shorthand `field,`
        else:
            raise ShapeError(f"{what}: cannot parse struct-literal entry {part[:60]!r}")
    return fields, body[:ms[0].start()], body[end:]


def camel(name):
    parts = name.split("_")
    return parts[0] + "".join(p.capitalize() for p in parts[1:])


TYPE_KIND = {
    "Option<PathBuf>": "optPath",
    "Option<u32>": "optU32",
    "Option<u16>": "optU16",
    "Option<usize>": "optUsize",
    "Option<String>": "optString",
    "Option<Chain>": "optChain",
    "Option<HashSet<InscriptionId>>": "optIdSet",
    "bool": "bool",
}

EXPECTED_CHAIN_FLAGS = norm("""options.signet.then_some(Chain::Signet)
  .or(options.regtest.then_some(Chain::Regtest))
  .or(options.testnet.then_some(Chain::Testnet))
  .or(options.testnet4.then_some(Chain::Testnet4))
  .or(options.chain_argument)""")

# normalised text of the getter closures in from_env (what the model's `fromEnv` implements)
EXPECTED_GETTERS = {
    "get_bool": "|key|{env.get(key).map(|value|!value.is_empty()).unwrap_or_default()}",
    "get_string": "|key|env.get(key).cloned()",
    "get_path": "|key|env.get(key).map(PathBuf::from)",
    "get_chain": "|key|{env.get(key).map(|chain|chain.parse::<Chain>()).transpose().with_context(||format!(\"failedtoparseenvironmentvariableORD_{key}aschain\"))}",
    "inscriptions": "|key|{env.get(key).map(|inscriptions|{inscriptions.split_whitespace().map(|inscription_id|inscription_id.parse::<InscriptionId>()).collect::<Result<HashSet<InscriptionId>,inscription_id::ParseError>>()}).transpose().with_context(||{format!(\"failedtoparseenvironmentvariableORD_{key}asinscriptionlist\")})}",
    "get_u16": "|key|{env.get(key).map(|int|int.parse::<u16>()).transpose().with_context(||format!(\"failedtoparseenvironmentvariableORD_{key}asu16\"))}",
    "get_u32": "|key|{env.get(key).map(|int|int.parse::<u32>()).transpose().with_context(||format!(\"failedtoparseenvironmentvariableORD_{key}asu32\"))}",
    "get_usize": "|key|{env.get(key).map(|int|int.parse::<usize>()).transpose().with_context(||format!(\"failedtoparseenvironmentvariableORD_{key}asusize\"))}",
}
GETTER_LEAN = {"get_bool": "getBool", "get_string": "getString", "get_path": "getPath", "get_chain": "getChain",
               "inscriptions": "getInscriptions", "get_u16": "getU16", "get_u32": "getU32", "get_usize": "getUsize"}

EXPECTED_MERGE_HEAD = norm("let settings = Settings::from_options(options).or(Settings::from_env(env)?);")
EXPECTED_MERGE_TAIL = norm("let settings = settings.or(config).or_defaults()?;")
EXPECTED_CONFIG_PATH = norm("""let config_path = if let Some(path) = &settings.config {
      Some(path.into())
    } else {
      let path = if let Some(dir) = settings.config_dir.clone().or(settings.data_dir.clone()) {
        dir
      } else {
        Self::default_data_dir()?
      }
      .join("ord.yaml");

      path.exists().then_some(path)
    };""")
EXPECTED_CONFIG_LOAD = norm("""let config = if let Some(config_path) = config_path {
      serde_yaml::from_reader(File::open(&config_path).context(anyhow!(
        "failed to open config file `{}`",
        config_path.display()
      ))?)
      .context(anyhow!(
        "failed to deserialize config file `{}`",
        config_path.display()
      ))?
    } else {
      Settings::default()
    };""")
EXPECTED_MERGE_CHECKS = norm("""match (
      &settings.bitcoin_rpc_username,
      &settings.bitcoin_rpc_password,
    ) {
      (None, Some(_rpc_pass)) => bail!("no bitcoin RPC username specified"),
      (Some(_rpc_user), None) => bail!("no bitcoin RPC password specified"),
      _ => {}
    };

    match (&settings.server_username, &settings.server_password) {
      (None, Some(_rpc_pass)) => bail!("no username specified"),
      (Some(_rpc_user), None) => bail!("no password specified"),
      _ => {}
    };

    Ok(settings)""")

# normalised `let` prelude of or_defaults (the derived defaults the model's `orDefaults` implements)
EXPECTED_DEFAULTS_PRELUDE = norm("""let chain = self.chain.unwrap_or_default();

    let bitcoin_data_dir = match &self.bitcoin_data_dir {
      Some(bitcoin_data_dir) => bitcoin_data_dir.clone(),
      None => {
        if cfg!(target_os = "linux") {
          dirs::home_dir()
            .ok_or_else(|| anyhow!("failed to get cookie file path: could not get home dir"))?
            .join(".bitcoin")
        } else {
          dirs::data_dir()
            .ok_or_else(|| anyhow!("failed to get cookie file path: could not get data dir"))?
            .join("Bitcoin")
        }
      }
    };

    let cookie_file = match self.cookie_file {
      Some(cookie_file) => cookie_file,
      None => chain.join_with_data_dir(&bitcoin_data_dir).join(".cookie"),
    };

    let data_dir = chain.join_with_data_dir(match &self.data_dir {
      Some(data_dir) => data_dir.clone(),
      None => Self::default_data_dir()?,
    });

    let index = match &self.index {
      Some(path) => path.clone(),
      None => data_dir.join("index.redb"),
    };""")
EXPECTED_RPC_URL = norm("""Some(self.bitcoin_rpc_url.clone().unwrap_or_else(|| format!("127.0.0.1:{}", chain.default_rpc_port())),)""")
EXPECTED_CACHE = norm("""Some(match self.index_cache_size {
        Some(index_cache_size) => index_cache_size,
        None => {
          let mut sys = System::new();
          sys.refresh_memory();
          usize::try_from(sys.total_memory() / 4)?
        }
      })""")
EXPECTED_DEFAULT_DATA_DIR = norm("""Ok(dirs::data_dir().context("could not get data dir")?.join("ord"),)""")

CHAINS = ["Mainnet", "Regtest", "Signet", "Testnet", "Testnet4"]


def chain_tables(repo):
    src = extract.read_src(os.path.join(repo, "src", "chain.rs"))
    m = re.search(r"pub enum Chain\s*\{(.*?)\n\}", src, re.S)
    if not m:
        raise ShapeError("chain.rs: enum Chain not found")
    variants = re.findall(r"^\s*([A-Z][A-Za-z0-9]*),\s*$", m.group(1), re.M)
    if variants != CHAINS:
        raise ShapeError(f"chain.rs: variants {variants} != {CHAINS}")
    if "#[default]#[value(alias(\"main\"))]Mainnet" not in norm(m.group(1)):
        raise ShapeError("chain.rs: #[default] is no longer on Mainnet")
    if '#[serde(rename_all="kebab-case")]' not in norm(src[:m.start()]):
        raise ShapeError("chain.rs: serde rename_all changed")
    # default_rpc_port
    body = fn_body(src, r"fn default_rpc_port\(self\)\s*->\s*u16\s*\{", "Chain::default_rpc_port")
    ports = dict(re.findall(r"Self::([A-Za-z0-9]+)\s*=>\s*(\d+)", body))
    if sorted(ports) != sorted(CHAINS):
        raise ShapeError(f"default_rpc_port arms {sorted(ports)}")
    # join_with_data_dir
    body = fn_body(src, r"fn join_with_data_dir\(self, data_dir: impl AsRef<Path>\)\s*->\s*PathBuf\s*\{", "Chain::join_with_data_dir")
    joins = {}
    for v, e in re.findall(r"Self::([A-Za-z0-9]+)\s*=>\s*data_dir\.as_ref\(\)\.([^,]*),", body):
        e = e.strip()
        if e == "to_owned()":
            joins[v] = None
        else:
            mm = re.match(r'^join\("([^"\\]*)"\)$', e)
            if not mm:
                raise ShapeError(f"join_with_data_dir arm {v}: {e}")
            joins[v] = mm.group(1)
    if sorted(joins) != sorted(CHAINS):
        raise ShapeError(f"join_with_data_dir arms {sorted(joins)}")
    # from_str
    body = fn_body(src, r"fn from_str\(s: &str\)\s*->\s*Result<Self, Self::Err>\s*\{", "Chain::from_str")
    names = {v: k for k, v in re.findall(r'"([^"]*)"\s*=>\s*Ok\(Self::([A-Za-z0-9]+)\)', body)}
    if sorted(names) != sorted(CHAINS):
        raise ShapeError(f"Chain::from_str arms {sorted(names)}")
    return ports, joins, names


def lean_str(s):
    if any(c in s for c in '"\\\n'):
        raise ShapeError(f"unexpected character in literal {s!r}")
    return '"' + s + '"'


def run(repo, gen):
    src = extract.read_src(os.path.join(repo, "src", "settings.rs"))
    # cut the test module off: everything below is about the non-test code
    cut = src.find("#[cfg(test)]\nmod tests")
    if cut < 0:
        raise ShapeError("settings.rs: test module marker not found")
    src = src[:cut]

    # ---- struct
    m = re.search(r"pub struct Settings\s*\{(.*?)\n\}", src, re.S)
    if not m:
        raise ShapeError("struct Settings not found")
    if "#[serde(default,deny_unknown_fields)]" not in norm(src[:m.start()]):
        raise ShapeError("struct Settings: serde(default, deny_unknown_fields) attribute changed")
    struct_fields = []
    for part in split_top(m.group(1).replace("<", "(").replace(">", ")")):
        part = part.strip().replace("(", "<").replace(")", ">")
        if not part:
            continue
        mm = re.match(r"^(?:pub(?:\([a-z]+\))?\s+)?([a-z_][a-z0-9_]*)\s*:\s*(.+)$", part, re.S)
        if not mm:
            raise ShapeError(f"struct Settings: cannot parse {part[:60]!r}")
        ty = norm(mm.group(2))
        if ty not in TYPE_KIND:
            raise ShapeError(f"struct Settings: field {mm.group(1)} has unexpected type {ty}")
        struct_fields.append((mm.group(1), TYPE_KIND[ty]))
    names = [f for f, _ in struct_fields]
    if len(set(names)) != len(names) or not names:
        raise ShapeError("struct Settings: duplicate/no fields")

    def check_fields(fields, what):
        got = [f for f, _ in fields]
        if got != names:
            raise ShapeError(f"{what}: fields {got} differ from the struct's {names}")

    # ---- or
    body = fn_body(src, r"pub fn or\(self, source: Settings\)\s*->\s*Self\s*\{", "Settings::or")
    fields, pre, post = struct_literal_fields(body, r"\bSelf\s*\{", "Settings::or")
    if norm(pre) or norm(post):
        raise ShapeError("Settings::or: code outside the struct literal")
    check_fields(fields, "Settings::or")
    or_table = []
    for f, e in fields:
        e = norm(e)
        union = lambda a, b: f"Some({a}.{f}.iter().flatten().chain({b}.{f}.iter().flatten()).cloned().collect(),)"
        if e == f"self.{f}.or(source.{f})":
            or_table.append((f, "optOr", True))
        elif e == f"source.{f}.or(self.{f})":
            or_table.append((f, "optOr", False))
        elif e == f"self.{f}||source.{f}":
            or_table.append((f, "boolOr", True))
        elif e == f"source.{f}||self.{f}":
            or_table.append((f, "boolOr", False))
        elif e == union("self", "source"):
            or_table.append((f, "setUnion", True))
        elif e == union("source", "self"):
            or_table.append((f, "setUnion", False))
        else:
            or_table.append((f, "other", False))

    # ---- from_options
    body = fn_body(src, r"pub fn from_options\(options: Options\)\s*->\s*Self\s*\{", "Settings::from_options")
    fields, pre, post = struct_literal_fields(body, r"\bSelf\s*\{", "Settings::from_options")
    if norm(pre) or norm(post):
        raise ShapeError("Settings::from_options: code outside the struct literal")
    check_fields(fields, "Settings::from_options")
    opt_table = []
    for f, e in fields:
        e = norm(e)
        if e == f"options.{f}":
            opt_table.append((f, "direct"))
        elif e == "None":
            opt_table.append((f, "noFlag"))
        elif f == "chain" and e == EXPECTED_CHAIN_FLAGS:
            opt_table.append((f, "chainFlags"))
        else:
            opt_table.append((f, "other"))

    # ---- from_env
    body = fn_body(src, r"pub fn from_env\(env: BTreeMap<String, String>\)\s*->\s*Result<Self>\s*\{", "Settings::from_env")
    fields, pre, post = struct_literal_fields(body, r"Ok\(\s*Self\s*\{", "Settings::from_env")
    if norm(post) != ")":
        raise ShapeError("Settings::from_env: code after the struct literal")
    check_fields(fields, "Settings::from_env")
    getters = {}
    for stmt in split_top(pre, ";"):
        stmt = stmt.strip()
        if not stmt:
            continue
        mm = re.match(r"^let\s+([a-z_0-9]+)\s*=\s*(.*)$", stmt, re.S)
        if not mm:
            raise ShapeError(f"Settings::from_env: unexpected statement {stmt[:60]!r}")
        getters[mm.group(1)] = norm(mm.group(2))
    if getters != EXPECTED_GETTERS:
        diff = sorted(k for k in set(getters) | set(EXPECTED_GETTERS) if getters.get(k) != EXPECTED_GETTERS.get(k))
        raise ShapeError(f"Settings::from_env: getter closures changed: {diff}")
    env_table = []
    for f, e in fields:
        mm = re.match(r'^([a-z_0-9]+)\("([A-Z0-9_]+)"\)(\??)$', norm(e))
        if not mm or mm.group(1) not in GETTER_LEAN:
            raise ShapeError(f"Settings::from_env: field {f}: unexpected expression {e[:60]!r}")
        getter, key, q = mm.group(1), mm.group(2), mm.group(3) == "?"
        fallible = getter in ("get_chain", "inscriptions", "get_u16", "get_u32", "get_usize")
        if q != fallible:
            raise ShapeError(f"Settings::from_env: field {f}: `?` does not match getter {getter}")
        env_table.append((f, GETTER_LEAN[getter], key))

    # ---- merge
    body = norm(fn_body(src, r"pub fn merge\(options: Options, env: BTreeMap<String, String>\)\s*->\s*Result<Self>\s*\{", "Settings::merge"))
    expected = EXPECTED_MERGE_HEAD + EXPECTED_CONFIG_PATH + EXPECTED_CONFIG_LOAD + EXPECTED_MERGE_TAIL + EXPECTED_MERGE_CHECKS
    if body != expected:
        # locate the first differing piece for the message
        for nm, piece in (("head", EXPECTED_MERGE_HEAD), ("config path", EXPECTED_CONFIG_PATH), ("config load", EXPECTED_CONFIG_LOAD),
                          ("tail", EXPECTED_MERGE_TAIL), ("credential checks", EXPECTED_MERGE_CHECKS)):
            if piece not in body:
                raise ShapeError(f"Settings::merge: the {nm} part no longer has the expected text")
        raise ShapeError("Settings::merge: statements reordered or added")
    source_order = ["options", "env", "config", "defaults"]   # what the asserted text says

    # ---- load (env var gathering)
    body = norm(fn_body(src, r"pub fn load\(options: Options\)\s*->\s*Result<Settings>\s*\{", "Settings::load"))
    for piece in ('for(var,value)inenv::vars_os(){', 'letSome(key)=var.strip_prefix("ORD_")else{continue;};', "env.insert(key.into(),",
                  "Self::merge(options,env)"):
        if piece not in body:
            raise ShapeError(f"Settings::load: expected text {piece!r} not found")

    # ---- or_defaults
    body = fn_body(src, r"pub fn or_defaults\(self\)\s*->\s*Result<Self>\s*\{", "Settings::or_defaults")
    fields, pre, post = struct_literal_fields(body, r"Ok\(\s*Self\s*\{", "Settings::or_defaults")
    if norm(post) != ")":
        raise ShapeError("Settings::or_defaults: code after the struct literal")
    check_fields(fields, "Settings::or_defaults")
    if norm(pre) != EXPECTED_DEFAULTS_PRELUDE:
        raise ShapeError("Settings::or_defaults: the derived-default `let` prelude changed")
    def_table = []
    for f, e in fields:
        e = norm(e)
        mm = re.match(rf"^Some\(self\.{f}\.unwrap_or\((\d+)\)\)$", e)
        if e == f"self.{f}":
            def_table.append((f, "keep", 0))
        elif mm:
            def_table.append((f, "const", int(mm.group(1))))
        elif e == "None":
            def_table.append((f, "erase", 0))
        elif e == f"Some({f})":
            def_table.append((f, "derived", 0))
        elif f == "bitcoin_rpc_url" and e == EXPECTED_RPC_URL:
            def_table.append((f, "rpcUrl", 0))
        elif f == "index_cache_size" and e == EXPECTED_CACHE:
            def_table.append((f, "memQuarter", 0))
        else:
            def_table.append((f, "other", 0))
    body = norm(fn_body(src, r"pub fn default_data_dir\(\)\s*->\s*Result<PathBuf>\s*\{", "Settings::default_data_dir"))
    if body != EXPECTED_DEFAULT_DATA_DIR:
        raise ShapeError("Settings::default_data_dir changed")

    ports, joins, chain_names = chain_tables(repo)

    # ---- emit
    L = []
    L.append("/- GENERATED by tools/extractors/settings_or.py from /repo/src/settings.rs and /repo/src/chain.rs.")
    L.append("   Do not edit: rewritten on every `vcheck C36` run.  Data only; obligations are in Theorems/C36.lean. -/")
    L.append("namespace Ord.Generated.SettingsOr")
    L.append("")
    L.append("/-- the fields of `struct Settings`, in declaration order -/")
    L.append("inductive F where")
    for f in names:
        L.append(f"  | {camel(f)}")
    L.append("  deriving DecidableEq, Repr")
    L.append("")
    L.append("def F.all : List F := [" + ", ".join("." + camel(f) for f in names) + "]")
    L.append("")
    L.append("def F.rustName : F → String")
    for f in names:
        L.append(f"  | .{camel(f)} => {lean_str(f)}")
    L.append("")
    L.append("inductive Ty where | optPath | optU32 | optU16 | optUsize | optString | optChain | optIdSet | bool")
    L.append("  deriving DecidableEq, Repr")
    L.append("inductive Comb where | optOr | boolOr | setUnion | other")
    L.append("  deriving DecidableEq, Repr")
    L.append("inductive OptSrc where | direct | noFlag | chainFlags | other")
    L.append("  deriving DecidableEq, Repr")
    L.append("inductive Getter where | getBool | getString | getPath | getChain | getInscriptions | getU16 | getU32 | getUsize")
    L.append("  deriving DecidableEq, Repr")
    L.append("inductive Dflt where | keep | const (n : Nat) | erase | derived | rpcUrl | memQuarter | other")
    L.append("  deriving DecidableEq, Repr")
    L.append("inductive Src where | options | env | config | defaults")
    L.append("  deriving DecidableEq, Repr")
    L.append("inductive Ch where | mainnet | regtest | signet | testnet | testnet4")
    L.append("  deriving DecidableEq, Repr")
    L.append("")
    L.append("/-- Rust type of each field of `struct Settings` -/")
    L.append("def fieldTypes : List (F × Ty) := [")
    L.append(",\n".join(f"  (.{camel(f)}, .{k})" for f, k in struct_fields))
    L.append("]")
    L.append("")
    L.append("/-- `Settings::or`: field ↦ (combinator, `self` is the first operand) -/")
    L.append("def orTable : List (F × Comb × Bool) := [")
    L.append(",\n".join(f"  (.{camel(f)}, .{c}, {'true' if s else 'false'})" for f, c, s in or_table))
    L.append("]")
    L.append("")
    L.append("/-- `Settings::from_options`: where the flag value of each field comes from -/")
    L.append("def optionsTable : List (F × OptSrc) := [")
    L.append(",\n".join(f"  (.{camel(f)}, .{k})" for f, k in opt_table))
    L.append("]")
    L.append("")
    L.append("/-- `Settings::from_env`: getter closure and environment key (without the `ORD_` prefix) -/")
    L.append("def envTable : List (F × Getter × String) := [")
    L.append(",\n".join(f"  (.{camel(f)}, .{g}, {lean_str(k)})" for f, g, k in env_table))
    L.append("]")
    L.append("")
    L.append("/-- every environment key is the upper-cased Rust field name (checked by the extractor) -/")
    L.append("def envKeysAreUpperFieldNames : Bool := " + ("true" if all(k == f.upper() for f, _, k in env_table) else "false"))
    L.append("")
    L.append("/-- `Settings::or_defaults`: what happens to each field -/")
    L.append("def defaultsTable : List (F × Dflt) := [")
    L.append(",\n".join(f"  (.{camel(f)}, " + (f".const {n}" if k == "const" else f".{k}") + ")" for f, k, n in def_table))
    L.append("]")
    L.append("")
    L.append("/-- order in which `Settings::merge` combines the sources (earlier wins in `or`) -/")
    L.append("def sourceOrder : List Src := [" + ", ".join("." + s for s in source_order) + "]")
    L.append("")
    lc = lambda v: v.lower()
    L.append("def rpcPorts : List (Ch × Nat) := [" + ", ".join(f"(.{lc(v)}, {ports[v]})" for v in CHAINS) + "]")
    L.append("def dataDirSuffix : List (Ch × Option String) := [" + ", ".join(
        f"(.{lc(v)}, " + ("none" if joins[v] is None else f"some {lean_str(joins[v])}") + ")" for v in CHAINS) + "]")
    L.append("def chainNames : List (Ch × String) := [" + ", ".join(f"(.{lc(v)}, {lean_str(chain_names[v])})" for v in CHAINS) + "]")
    L.append("")
    L.append("end Ord.Generated.SettingsOr")
    text = "\n".join(L) + "\n"
    os.makedirs(gen, exist_ok=True)
    changed = extract.write_if_changed(os.path.join(gen, "SettingsOr.lean"), text)
    return {
        "fields": len(names),
        "or": {c: sum(1 for _, k, _ in or_table if k == c) for c in ("optOr", "boolOr", "setUnion", "other")},
        "not_self_first": [f for f, _, s in or_table if not s],
        "no_flag": [f for f, k in opt_table if k == "noFlag"],
        "source_order": source_order,
        "rewritten": changed,
    }


if __name__ == "__main__":
    import json
    print(json.dumps(run(extract.REPO, extract.GEN), indent=1))
