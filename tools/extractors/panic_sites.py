"""Extractor for C16: inventory of the potential failure sites on the indexing path.

Reads (source text, nothing is compiled):

    src/index/updater.rs                      index_block, index_utxo_entries, index_transaction_sats,
                                              index_transaction_output_script_pubkeys, commit
    src/index/updater/inscription_updater.rs  index_inscriptions, calculate_sat, update_inscription_location
    src/index/updater/rune_updater.rs         index_runes, update, create_rune_entry, etched, mint,
                                              tx_commits_to_rune, unallocated

and writes lean/OrdModel/Generated/PanicSites.lean:

    def Ord.Index.PanicSites.sites : List (String × String × String × String)
      -- (file, function, kind, whitespace-normalised source line with local names replaced by `_`), in source order

`Theorems/C16.lean` proves `PanicSites.sites = PanicSitesExpected.expected`, where the expected list
(committed, hand-annotated: every entry names the model `panic` branch it corresponds to, or the
reason it cannot fire) is the inventory the index model was written against.  A site that is added,
removed, moved to another function or whose line text changes breaks that obligation.

Preparation of the text (function `scrub`): everything from the first `#[cfg(test)]` on is dropped
(the `mod tests` of each file is last); `//` comments, nested `/* */` comments are blanked; the
*contents* of string literals ("…", r"…", r#"…"#, b"…") are dropped (the quotes stay) and char
literals become `' '`; lifetimes (`'a`) are left alone.  Line structure is preserved.

A function body is the balanced `{ … }` that follows `fn <name>` + its parenthesised parameter
list (generic parameters allowed between the name and the `(`); exactly one definition per name is
required in the file it is listed under (ShapeError otherwise).  Closures and nested blocks inside
the body belong to the function.

Kinds — one entry per regex match, ordered by (line, column); what each regex matches:

    unwrap        `.unwrap()`            (not `unwrap_or`, `unwrap_or_default`, `unwrap_or_else`)
    expect        `.expect(`
    assert        `assert!(` `assert_eq!(` `assert_ne!(` and their `debug_` forms
    panic         `panic!(` `unreachable!(` `todo!(` `unimplemented!(`
    index         an identifier character, `)` or `]` immediately followed by `[`
                  (slice / array / Vec / HashMap indexing `a[i]`, `f()[i]`, `a[i][j]`, `&buf[i..]`;
                  not attributes `#[…]`, not `vec![…]`, not array types or literals `[u8; 11]`, `&[…]`)
    div           `/` or `/=` (comments are already blanked)
    rem           `%` or `%=`
    arith         binary ` + `, ` - `, ` * ` written with blanks on both sides as rustfmt prints them,
                  and `+=`, `-=`, `*=`
    sum           `.sum::<…>()`, `.sum()`, `.product…` (iterator sums panic on overflow in a dev build)
    err           `anyhow!(` `bail!(` `Err(` `ensure!(` — an `Err` constructed on the path
    try-count     one summary entry per function: the number of `?` operators in its body (each is an
                  error propagated from redb, the RPC client, or an event/fetcher channel)

What this cannot see (textual approximation, stated so nobody reads more into it):
  * operator overloading: `+=` on a `Lot` is reported as `arith` here although the panic is inside
    src/index/lot.rs (`checked_add(..).expect("lot overflow")`); `+` on `Sat`/`Height` likewise;
  * anything inside callees (`SatRange::load/store`, `UtxoEntryBuf::push_*`, `parse_inscriptions`,
    `Height::subsidy`, `starting_sat`, `Rune::commitment`, `RuneEntry::mintable`, redb, the RPC client,
    `ParsedEnvelope::from_transaction`, `Runestone::decipher` — the parsers have their own properties
    C25/C27/C28);
  * `as` casts (truncate silently, never panic), shifts, and arithmetic written without blanks;
  * unary minus; a `-` that is really part of `->` is excluded because it has no blank after it;
  * macro-expanded code (`log::info!` arguments are scanned like any other text);
  * whether an integer expression is actually checked: `checked_add(..)` is not an `arith` match, but its
    `.unwrap()` is an `unwrap` match.
"""
import os, re
from extract import ShapeError, write_if_changed, read_src

FILES = [
    ("src/index/updater.rs",
     ["index_block", "index_utxo_entries", "index_transaction_output_script_pubkeys",
      "index_transaction_sats", "commit"]),
    ("src/index/updater/inscription_updater.rs",
     ["index_inscriptions", "calculate_sat", "update_inscription_location"]),
    ("src/index/updater/rune_updater.rs",
     ["index_runes", "update", "create_rune_entry", "etched", "mint", "tx_commits_to_rune", "unallocated"]),
]

KINDS = [
    ("unwrap", re.compile(r"\.unwrap\(\)")),
    ("expect", re.compile(r"\.expect\(")),
    ("assert", re.compile(r"\b(?:debug_)?assert(?:_eq|_ne)?!\s*\(")),
    ("panic", re.compile(r"\b(?:panic|unreachable|todo|unimplemented)!\s*\(")),
    ("index", re.compile(r"(?<=[A-Za-z0-9_\)\]])\[")),
    ("div", re.compile(r"/=?")),
    ("rem", re.compile(r"%=?")),
    ("arith", re.compile(r"(?<=\s)[+\-*](?=\s)|[+\-*]=")),
    ("sum", re.compile(r"\.(?:sum|product)(?:::<[^>]*>)?\(\)")),
    ("err", re.compile(r"\b(?:anyhow|bail|ensure)!\s*\(|\bErr\(")),
]


def scrub(src):
    """blank comments, empty string literals, neutralise char literals; keep newlines"""
    out, i, n = [], 0, len(src)
    while i < n:
        c = src[i]
        two = src[i:i + 2]
        if two == "//":
            while i < n and src[i] != "\n":
                i += 1
        elif two == "/*":
            depth = 0
            while i < n:
                if src[i:i + 2] == "/*":
                    depth += 1; i += 2
                elif src[i:i + 2] == "*/":
                    depth -= 1; i += 2
                    if depth == 0:
                        break
                else:
                    if src[i] == "\n":
                        out.append("\n")
                    i += 1
        elif c == "r" and re.match(r'r#*"', src[i:]) and (i == 0 or not (src[i - 1].isalnum() or src[i - 1] == "_")):
            m = re.match(r'r(#*)"', src[i:])
            close = '"' + m.group(1)
            j = src.find(close, i + len(m.group(0)))
            if j < 0:
                raise ShapeError("unterminated raw string literal")
            out.append('""' + "\n" * src[i:j].count("\n"))
            i = j + len(close)
        elif c == '"':
            j = i + 1
            while j < n and src[j] != '"':
                if src[j] == "\\":
                    j += 1
                j += 1
            if j >= n:
                raise ShapeError("unterminated string literal")
            out.append('""' + "\n" * src[i:j].count("\n"))
            i = j + 1
        elif c == "'":
            m = re.match(r"'(?:\\(?:x[0-9a-fA-F]{2}|u\{[0-9a-fA-F_]+\}|.)|[^'\\\n])'", src[i:])
            if m:
                out.append("' '")
                i += len(m.group(0))
            else:  # lifetime
                out.append(c)
                i += 1
        else:
            out.append(c)
            i += 1
    return "".join(out)


def balanced(text, start, open_ch, close_ch):
    if text[start] != open_ch:
        raise ShapeError(f"expected {open_ch!r} at offset {start}")
    depth = 0
    for i in range(start, len(text)):
        if text[i] == open_ch:
            depth += 1
        elif text[i] == close_ch:
            depth -= 1
            if depth == 0:
                return i + 1
    raise ShapeError(f"unbalanced {open_ch}{close_ch}")


def fn_body_span(text, name, path):
    ms = list(re.finditer(r"\bfn\s+" + re.escape(name) + r"\s*(?:<[^(]*>)?\s*\(", text))
    if len(ms) != 1:
        raise ShapeError(f"{path}: expected exactly one `fn {name}(`, found {len(ms)}")
    par = ms[0].end() - 1
    after = balanced(text, par, "(", ")")
    brace = text.find("{", after)
    semi = text.find(";", after)
    if brace < 0 or (0 <= semi < brace):
        raise ShapeError(f"{path}: `fn {name}` has no body")
    return brace, balanced(text, brace, "{", "}")


KEEP = set("""as break const continue crate else enum false fn for if impl in let loop match mod move mut pub ref
return self Self static struct super trait true type unsafe use where while async await dyn
u8 u16 u32 u64 u128 usize i8 i16 i32 i64 i128 isize f32 f64 bool char str
Some None Ok Err""".split())


def skeleton(line):
    """identifier-insensitive form of a source line: a LOCAL name (an identifier that is not a keyword
    or primitive type, does not start with an upper-case letter, is not a field/method/path segment
    — i.e. not preceded by `.` or `::` — and is not called or used as a macro/path head — not
    followed by `(`, `!` or `::`) becomes `_`.  Renaming a local variable or a closure parameter
    therefore does not change the inventory; changing what is called, which field is touched,
    which operator is used or how many sites a line has does."""
    def rep(m):
        w, a, b = m.group(0), m.start(), m.end()
        if w in KEEP or w[0].isupper() or w == "_":
            return w
        if line[max(0, a - 1):a] == "." or line[max(0, a - 2):a] == "::":
            return w
        if line[b:b + 1] in ("(", "!") or line[b:b + 2] == "::":
            return w
        return "_"
    return re.sub(r"(?<![A-Za-z0-9_'])[A-Za-z_][A-Za-z0-9_]*", rep, line)


def norm(line):
    return skeleton(re.sub(r"\s+", " ", line).strip())


def lean_str(s):
    return '"' + s.replace("\\", "\\\\").replace('"', '\\"') + '"'


def inventory(repo):
    sites, per_fn = [], {}
    for rel, fns in FILES:
        path = os.path.join(repo, rel)
        if not os.path.exists(path):
            raise ShapeError(f"{rel} not found")
        src = read_src(path)
        cut = src.find("#[cfg(test)]")
        if cut >= 0:
            src = src[:cut]
        text = scrub(src)
        spans = sorted((fn_body_span(text, f, rel) + (f,)) for f in fns)
        for a, b in zip(spans, spans[1:]):
            if a[1] > b[0]:
                raise ShapeError(f"{rel}: bodies of `{a[2]}` and `{b[2]}` overlap")
        short = os.path.basename(rel)
        for start, end, fn in spans:
            body = text[start:end]
            count = 0
            for line in body.split("\n"):
                hits = []
                for kind, rx in KINDS:
                    for m in rx.finditer(line):
                        hits.append((m.start(), kind))
                for _, kind in sorted(hits):
                    sites.append((short, fn, kind, norm(line)))
                    count += 1
            q = body.count("?")
            sites.append((short, fn, "try-count", str(q)))
            per_fn[f"{short}:{fn}"] = count
    return sites, per_fn


def render(sites):
    lines = [
        "/- GENERATED by tools/extractors/panic_sites.py from src/index/updater.rs,",
        "   src/index/updater/inscription_updater.rs, src/index/updater/rune_updater.rs — do not edit.",
        "   (file, function, kind, whitespace-normalised line); see the extractor's docstring. -/",
        "namespace Ord.Index.PanicSites",
        "",
        "def sites : List (String × String × String × String) := [",
    ]
    lines.append(",\n".join(
        f"  ({lean_str(f)}, {lean_str(fn)}, {lean_str(k)}, {lean_str(t)})" for f, fn, k, t in sites) + "]")
    lines += ["", "end Ord.Index.PanicSites", ""]
    return "\n".join(lines)


def run(repo, gen):
    sites, per_fn = inventory(repo)
    if len(sites) < 50:
        raise ShapeError(f"only {len(sites)} sites found: the scanner no longer understands the sources")
    changed = write_if_changed(os.path.join(gen, "PanicSites.lean"), render(sites))
    kinds = {}
    for _, _, k, _ in sites:
        kinds[k] = kinds.get(k, 0) + 1
    return {"sites": len(sites), "by_kind": kinds, "by_function": per_fn, "changed": changed}
